// C08 harness: etl::basic_string_view (impl leg) vs std::basic_string_view (reference leg)
// on the same character data.
//
// Every haystack / needle / C-string argument lives in its own heap block with guard zones on
// both sides.  In the sanitizer build the guards are poisoned, so the view is flush against
// inaccessible memory at BOTH ends (also for an empty view) and a read one character outside is
// a crash, not a silent read; nothing is NUL-terminated unless the overload takes a C string.
// In the plain build the guards are readable and filled with the OTHER argument's characters
// (an over-read then continues a partial match instead of hitting a harmless terminator).
//
// Review additions (second engineer): call forms without the defaulted argument (`*_d`, `*_cd`, `*_pd`,
// `substr_d0/d1`, `copy_d`), the heterogeneous relational operators (`rel_pl`: C string OP view, `rel_pr`: view OP
// C string - these select the type_identity overloads), operator[]/front/back/swap as operations, a probe that
// repeats every call whose haystack / needle is empty with a default-constructed (data() == nullptr) view and
// reports a difference, and a copy() destination of exactly the expected length whose surroundings are checked.
#include "common.hpp"

#include <etl/string.hpp>
#include <etl/string_view.hpp>

#include <string>
#include <string_view>
#include <type_traits>

#if defined(__SANITIZE_ADDRESS__)
    #include <fcntl.h>
    #include <sanitizer/asan_interface.h>
    #define VH_POISON(p, n)   __asan_poison_memory_region((p), (n))
    #define VH_UNPOISON(p, n) __asan_unpoison_memory_region((p), (n))
// The sanitizer build runs AddressSanitizer in recover mode (-fsanitize-recover=address,
// halt_on_error=0, suppress_equal_pcs=0): an out-of-view read is reported through this callback and
// the case's impl leg becomes "crash asan"; the process is not re-forked per faulty case (a defect
// that over-reads makes tens of thousands of cases faulty).  Only the first reports are printed.
namespace vh_asan {
inline unsigned long hits       = 0;
inline unsigned long case_start = 0;
inline void on_report(char const* /*text*/)
{
    ++hits;
    // a loop that runs away through poisoned memory never ends in recover mode: give up on the
    // case (the supervisor reports it as a crash and re-forks)
    if (hits - case_start > 64) { std::_Exit(86); }
    if (hits == 3) {
        int fd = open("/dev/null", O_WRONLY);
        if (fd >= 0) {
            dup2(fd, 2);
            close(fd);
        }
    }
}
inline bool const installed = (__asan_set_error_report_callback(on_report), true);
} // namespace vh_asan
#else
    #define VH_POISON(p, n)   ((void)0)
    #define VH_UNPOISON(p, n) ((void)0)
#endif

using namespace vh;

// Blocks come from a small static arena (LIFO, one slot per live block) so that the sanitizer
// build does not pay for a heap allocation + quarantine per argument; oversized requests fall back
// to the heap.  Guard zones are (re)poisoned on every use.
namespace arena {
constexpr std::size_t slot_bytes = 4096;
constexpr std::size_t slots      = 8;
alignas(64) inline unsigned char mem[slots][slot_bytes];
inline std::size_t live = 0;
} // namespace arena

template <typename Char>
struct Block {
    static constexpr std::size_t G = 64; // guard bytes on each side
    unsigned char* raw = nullptr;
    std::size_t total  = 0;
    Char* p            = nullptr;
    std::size_t n      = 0;
    bool heap          = false;

    Block(std::vector<i64> const& v, std::vector<i64> const& pad)
    {
        n                = v.size();
        auto const bytes = n * sizeof(Char);
        total            = G + ((bytes + 63) / 64) * 64 + G;
        if (total <= arena::slot_bytes && arena::live < arena::slots) {
            raw = arena::mem[arena::live];
        } else {
            raw  = static_cast<unsigned char*>(std::aligned_alloc(64, total));
            heap = true;
        }
        ++arena::live;
        auto* all        = reinterpret_cast<Char*>(raw);
        auto const cells = total / sizeof(Char);
        for (std::size_t i = 0; i < cells; ++i) {
            all[i] = pad.empty() ? static_cast<Char>('a') : static_cast<Char>(pad[i % pad.size()]);
        }
        p = reinterpret_cast<Char*>(raw + G);
        for (std::size_t i = 0; i < n; ++i) { p[i] = static_cast<Char>(v[i]); }
        VH_POISON(raw, G);
        VH_POISON(raw + G + bytes, total - G - bytes);
    }
    Block(Block const&)                    = delete;
    auto operator=(Block const&) -> Block& = delete;
    ~Block()
    {
        VH_UNPOISON(raw, total);
        --arena::live;
        if (heap) { std::free(raw); }
    }
};

static std::vector<i64> with_nul(std::vector<i64> v)
{
    v.push_back(0);
    return v;
}

template <typename Char>
struct Run {
    using E = etl::basic_string_view<Char>;
    using S = std::basic_string_view<Char>;

    template <typename V>
    static void put_view(Out& o, V const& sub, Char const* origin)
    {
        o.tok("ok").num(static_cast<i64>(sub.data() - origin)).num(static_cast<i64>(sub.size()));
        // a view of absurd length (a wrapped count) is reported, not walked: no generated buffer has 4096 characters
        if (sub.size() > 4096) {
            o.tok("unreadable");
            return;
        }
        for (std::size_t i = 0; i < sub.size(); ++i) { o.num(static_cast<i64>(sub.data()[i])); }
    }

    // Empty views: repeat the call with default-constructed views (data() == nullptr, size() == 0) in place of the
    // empty non-null ones; the result must be the same (printed only when it is not).
    template <typename R, typename G>
    static void null_probe(Out& o, bool hayEmpty, bool needleEmpty, R const& r, E hv, E nv, G g)
    {
        if (hayEmpty) {
            auto r2 = g(E{}, nv);
            if (!(r2 == r)) { o.tok("null-haystack-differs").num(static_cast<i64>(r2)); }
        }
        if (needleEmpty) {
            auto r2 = g(hv, E{});
            if (!(r2 == r)) { o.tok("null-needle-differs").num(static_cast<i64>(r2)); }
        }
        if (hayEmpty && needleEmpty) {
            auto r2 = g(E{}, E{});
            if (!(r2 == r)) { o.tok("null-both-differs").num(static_cast<i64>(r2)); }
        }
    }

    // the six search families: f(view, args...) calls the member under test
    template <typename F>
    static bool search(std::string const& variant, Toks& in, Out& impl, Out& ref, F f)
    {
        auto h = in.list();
        if (variant.empty()) {
            auto n   = in.list();
            auto pos = static_cast<std::size_t>(in.unum());
            Block<Char> bh(h, n);
            Block<Char> bn(n, h);
            guarded(impl, [&](Out& o) {
                auto r = f(E(bh.p, bh.n), E(bn.p, bn.n), pos);
                o.tok("ok").unum(r);
                null_probe(o, h.empty(), n.empty(), r, E(bh.p, bh.n), E(bn.p, bn.n),
                    [&](E hv, E nv) { return f(hv, nv, pos); });
            });
            ref.tok("ok").unum(f(S(bh.p, bh.n), S(bn.p, bn.n), pos));
            return true;
        }
        // the same members called WITHOUT pos: the declaration's default argument is used
        if (variant == "d") {
            auto n = in.list();
            Block<Char> bh(h, n);
            Block<Char> bn(n, h);
            guarded(impl, [&](Out& o) {
                auto r = f(E(bh.p, bh.n), E(bn.p, bn.n));
                o.tok("ok").unum(r);
                null_probe(o, h.empty(), n.empty(), r, E(bh.p, bh.n), E(bn.p, bn.n),
                    [&](E hv, E nv) { return f(hv, nv); });
            });
            ref.tok("ok").unum(f(S(bh.p, bh.n), S(bn.p, bn.n)));
            return true;
        }
        if (variant == "cd") {
            auto c = static_cast<Char>(in.num());
            Block<Char> bh(h, {static_cast<i64>(c)});
            guarded(impl, [&](Out& o) { o.tok("ok").unum(f(E(bh.p, bh.n), c)); });
            ref.tok("ok").unum(f(S(bh.p, bh.n), c));
            return true;
        }
        if (variant == "pd") {
            auto s = in.list();
            Block<Char> bh(h, s);
            Block<Char> bs(with_nul(s), h);
            Char const* ptr = bs.p;
            guarded(impl, [&](Out& o) { o.tok("ok").unum(f(E(bh.p, bh.n), ptr)); });
            ref.tok("ok").unum(f(S(bh.p, bh.n), ptr));
            return true;
        }
        if (variant == "c") {
            auto c   = static_cast<Char>(in.num());
            auto pos = static_cast<std::size_t>(in.unum());
            Block<Char> bh(h, {static_cast<i64>(c)});
            guarded(impl, [&](Out& o) { o.tok("ok").unum(f(E(bh.p, bh.n), c, pos)); });
            ref.tok("ok").unum(f(S(bh.p, bh.n), c, pos));
            return true;
        }
        if (variant == "p") {
            auto s   = in.list();
            auto pos = static_cast<std::size_t>(in.unum());
            Block<Char> bh(h, s);
            Block<Char> bs(with_nul(s), h);
            Char const* ptr = bs.p;
            guarded(impl, [&](Out& o) { o.tok("ok").unum(f(E(bh.p, bh.n), ptr, pos)); });
            ref.tok("ok").unum(f(S(bh.p, bh.n), ptr, pos));
            return true;
        }
        if (variant == "pc") {
            auto s   = in.list();
            auto pos = static_cast<std::size_t>(in.unum());
            auto cnt = static_cast<std::size_t>(in.unum());
            Block<Char> bh(h, s);
            Block<Char> bs(s, h);
            Char const* ptr = bs.p;
            guarded(impl, [&](Out& o) { o.tok("ok").unum(f(E(bh.p, bh.n), ptr, pos, cnt)); });
            if (cnt <= s.size()) { ref.tok("ok").unum(f(S(bh.p, bh.n), ptr, pos, cnt)); }
            return true;
        }
        return false;
    }

    // bool-valued members with (view) / (Char) / (Char const*) overloads
    template <typename F>
    static bool predicate(std::string const& variant, Toks& in, Out& impl, Out& ref, F f)
    {
        auto h = in.list();
        if (variant.empty()) {
            auto n = in.list();
            Block<Char> bh(h, n);
            Block<Char> bn(n, h);
            guarded(impl, [&](Out& o) {
                bool r = f(E(bh.p, bh.n), E(bn.p, bn.n));
                o.tok("ok").b(r);
                null_probe(o, h.empty(), n.empty(), r, E(bh.p, bh.n), E(bn.p, bn.n),
                    [&](E hv, E nv) -> bool { return f(hv, nv); });
            });
            ref.tok("ok").b(f(S(bh.p, bh.n), S(bn.p, bn.n)));
            return true;
        }
        if (variant == "c") {
            auto c = static_cast<Char>(in.num());
            Block<Char> bh(h, {static_cast<i64>(c)});
            guarded(impl, [&](Out& o) { o.tok("ok").b(f(E(bh.p, bh.n), c)); });
            ref.tok("ok").b(f(S(bh.p, bh.n), c));
            return true;
        }
        if (variant == "p") {
            auto s = in.list();
            Block<Char> bh(h, s);
            Block<Char> bs(with_nul(s), h);
            Char const* ptr = bs.p;
            guarded(impl, [&](Out& o) { o.tok("ok").b(f(E(bh.p, bh.n), ptr)); });
            ref.tok("ok").b(f(S(bh.p, bh.n), ptr));
            return true;
        }
        return false;
    }

    static bool compare(std::string const& variant, Toks& in, Out& impl, Out& ref)
    {
        auto a = in.list();
        if (variant.empty()) {
            auto b = in.list();
            Block<Char> ba(a, b);
            Block<Char> bb(b, a);
            guarded(impl, [&](Out& o) {
                int r = sign(E(ba.p, ba.n).compare(E(bb.p, bb.n)));
                o.tok("ok").num(r);
                null_probe(o, a.empty(), b.empty(), r, E(ba.p, ba.n), E(bb.p, bb.n),
                    [&](E x, E y) -> int { return sign(x.compare(y)); });
            });
            ref.tok("ok").num(sign(S(ba.p, ba.n).compare(S(bb.p, bb.n))));
            return true;
        }
        auto readpc = [&](std::size_t& p, std::size_t& k) {
            p = static_cast<std::size_t>(in.unum());
            k = static_cast<std::size_t>(in.unum());
        };
        std::size_t p1 = 0;
        std::size_t k1 = 0;
        std::size_t p2 = 0;
        std::size_t k2 = 0;
        if (variant == "3") {
            readpc(p1, k1);
            auto b = in.list();
            Block<Char> ba(a, b);
            Block<Char> bb(b, a);
            guarded(impl, [&](Out& o) { o.tok("ok").num(sign(E(ba.p, ba.n).compare(p1, k1, E(bb.p, bb.n)))); });
            if (p1 <= a.size()) { ref.tok("ok").num(sign(S(ba.p, ba.n).compare(p1, k1, S(bb.p, bb.n)))); }
            return true;
        }
        if (variant == "5") {
            readpc(p1, k1);
            auto b = in.list();
            readpc(p2, k2);
            Block<Char> ba(a, b);
            Block<Char> bb(b, a);
            guarded(impl, [&](Out& o) {
                o.tok("ok").num(sign(E(ba.p, ba.n).compare(p1, k1, E(bb.p, bb.n), p2, k2)));
            });
            if (p1 <= a.size() && p2 <= b.size()) {
                ref.tok("ok").num(sign(S(ba.p, ba.n).compare(p1, k1, S(bb.p, bb.n), p2, k2)));
            }
            return true;
        }
        if (variant == "p") {
            auto s = in.list();
            Block<Char> ba(a, s);
            Block<Char> bs(with_nul(s), a);
            Char const* ptr = bs.p;
            guarded(impl, [&](Out& o) { o.tok("ok").num(sign(E(ba.p, ba.n).compare(ptr))); });
            ref.tok("ok").num(sign(S(ba.p, ba.n).compare(ptr)));
            return true;
        }
        if (variant == "3p") {
            readpc(p1, k1);
            auto s = in.list();
            Block<Char> ba(a, s);
            Block<Char> bs(with_nul(s), a);
            Char const* ptr = bs.p;
            guarded(impl, [&](Out& o) { o.tok("ok").num(sign(E(ba.p, ba.n).compare(p1, k1, ptr))); });
            if (p1 <= a.size()) { ref.tok("ok").num(sign(S(ba.p, ba.n).compare(p1, k1, ptr))); }
            return true;
        }
        if (variant == "4p") {
            readpc(p1, k1);
            auto s = in.list();
            k2     = static_cast<std::size_t>(in.unum());
            Block<Char> ba(a, s);
            Block<Char> bs(s, a);
            Char const* ptr = bs.p;
            guarded(impl, [&](Out& o) { o.tok("ok").num(sign(E(ba.p, ba.n).compare(p1, k1, ptr, k2))); });
            if (p1 <= a.size() && k2 <= s.size()) {
                ref.tok("ok").num(sign(S(ba.p, ba.n).compare(p1, k1, ptr, k2)));
            }
            return true;
        }
        return false;
    }

    template <typename A, typename B>
    static void rel_out(Out& o, A const& a, B const& b)
    {
        o.tok("ok").b(a == b).b(a != b).b(a < b).b(a <= b).b(a > b).b(a >= b);
    }
    template <typename A, typename B>
    static int rel_mask(A const& a, B const& b)
    {
        return (a == b ? 1 : 0) | (a != b ? 2 : 0) | (a < b ? 4 : 0) | (a <= b ? 8 : 0) | (a > b ? 16 : 0)
             | (a >= b ? 32 : 0);
    }

    // ---- etl::char_traits<Char> members as operations of their own (tr_*) -------------------------------------
    // In the plain build the guard zones of a buffer that is written to are filled with the value 2 (in no
    // alphabet) and inspected afterwards; in the sanitizer build they are poisoned.
    static void guards(Out& o, Block<Char> const& b)
    {
#if !defined(__SANITIZE_ADDRESS__)
        auto const pad = static_cast<Char>(2);
        for (std::size_t i = 0; i < 8; ++i) {
            if (b.p[b.n + i] != pad) {
                o.tok("wrote-past-end-at").unum(b.n + i);
                break;
            }
        }
        for (std::size_t i = 1; i <= 8; ++i) {
            if (*(b.p - i) != pad) {
                o.tok("wrote-before-begin-at").unum(i);
                break;
            }
        }
#else
        (void)o;
        (void)b;
#endif
    }
    static void put_buf(Out& o, Char const* ret, Block<Char> const& b)
    {
        o.tok("ok").num(static_cast<i64>(ret - b.p)).num(static_cast<i64>(b.n));
        for (std::size_t i = 0; i < b.n; ++i) { o.num(static_cast<i64>(b.p[i])); }
        guards(o, b);
    }
    template <typename I>
    static i64 as_i64(I x)
    {
        return static_cast<i64>(x);
    }

    static bool traits(std::string const& what, Toks& in, Out& impl, Out& ref)
    {
        using ET = etl::char_traits<Char>;
        using ST = std::char_traits<Char>;
        using EI = typename ET::int_type;
        using SI = typename ST::int_type;
        if (what == "move" || what == "copy") {
            auto buf = in.list();
            auto d   = static_cast<std::size_t>(in.unum());
            auto s   = static_cast<std::size_t>(in.unum());
            auto cnt = static_cast<std::size_t>(in.unum());
            if (d + cnt > buf.size() || s + cnt > buf.size()) {
                impl.tok("bad-case");
                return true;
            }
            {
                Block<Char> b(buf, {2});
                guarded(impl, [&](Out& o) {
                    auto* r = what == "move" ? ET::move(b.p + d, b.p + s, cnt) : ET::copy(b.p + d, b.p + s, cnt);
                    put_buf(o, r, b);
                });
            }
            // std::char_traits::copy requires disjoint ranges (memcpy)
            bool const intersect = cnt != 0 && d < s + cnt && s < d + cnt;
            if (what == "move" || !intersect) {
                Block<Char> b(buf, {2});
                auto* r = what == "move" ? ST::move(b.p + d, b.p + s, cnt) : ST::copy(b.p + d, b.p + s, cnt);
                put_buf(ref, r, b);
            }
            return true;
        }
        if (what == "fill") {
            auto buf = in.list();
            auto d   = static_cast<std::size_t>(in.unum());
            auto cnt = static_cast<std::size_t>(in.unum());
            auto c   = static_cast<Char>(in.num());
            if (d + cnt > buf.size()) {
                impl.tok("bad-case");
                return true;
            }
            {
                Block<Char> b(buf, {2});
                guarded(impl, [&](Out& o) { put_buf(o, ET::assign(b.p + d, cnt, c), b); });
            }
            Block<Char> b(buf, {2});
            put_buf(ref, ST::assign(b.p + d, cnt, c), b);
            return true;
        }
        if (what == "cmp") {
            auto a   = in.list();
            auto bl  = in.list();
            auto cnt = static_cast<std::size_t>(in.unum());
            if (cnt > a.size() || cnt > bl.size()) {
                impl.tok("bad-case");
                return true;
            }
            Block<Char> ba(a, bl);
            Block<Char> bb(bl, a);
            guarded(impl, [&](Out& o) { o.tok("ok").num(sign(ET::compare(ba.p, bb.p, cnt))); });
            ref.tok("ok").num(sign(ST::compare(ba.p, bb.p, cnt)));
            return true;
        }
        if (what == "find") {
            auto sl  = in.list();
            auto cnt = static_cast<std::size_t>(in.unum());
            auto c   = static_cast<Char>(in.num());
            if (cnt > sl.size()) {
                impl.tok("bad-case");
                return true;
            }
            Block<Char> b(sl, {static_cast<i64>(c)});
            guarded(impl, [&](Out& o) {
                auto const* r = ET::find(b.p, cnt, c);
                o.tok("ok").num(r == nullptr ? -1 : static_cast<i64>(r - b.p));
            });
            auto const* r = ST::find(b.p, cnt, c);
            ref.tok("ok").num(r == nullptr ? -1 : static_cast<i64>(r - b.p));
            return true;
        }
        if (what == "len") {
            auto sl = in.list();
            Block<Char> b(with_nul(sl), sl);
            guarded(impl, [&](Out& o) { o.tok("ok").unum(ET::length(b.p)); });
            ref.tok("ok").unum(ST::length(b.p));
            return true;
        }
        if (what == "chr") {
            auto a = static_cast<Char>(in.num());
            auto b = static_cast<Char>(in.num());
            guarded(impl, [&](Out& o) {
                Char x = a;
                ET::assign(x, b);
                o.tok("ok").b(ET::eq(a, b)).b(ET::lt(a, b)).num(as_i64(x));
            });
            Char x = a;
            ST::assign(x, b);
            ref.tok("ok").b(ST::eq(a, b)).b(ST::lt(a, b)).num(as_i64(x));
            return true;
        }
        // to_int_type(c), eq_int_type(to_int_type(c), eof()), eof(), to_char_type(to_int_type(c))
        if (what == "toint") {
            auto c = static_cast<Char>(in.num());
            guarded(impl, [&](Out& o) {
                auto const e = ET::to_int_type(c);
                o.tok("ok").num(as_i64(e)).b(ET::eq_int_type(e, ET::eof())).num(as_i64(ET::eof())).num(
                    as_i64(ET::to_char_type(e)));
            });
            // libstdc++ maps char16_t(0xFFFF) to 0xFFFD (its answer to LWG 2959; not in the standard)
            if (!(std::is_same_v<Char, char16_t> && c == static_cast<Char>(0xFFFF))) {
                auto const e = ST::to_int_type(c);
                ref.tok("ok").num(as_i64(e)).b(ST::eq_int_type(e, ST::eof())).num(as_i64(ST::eof())).num(
                    as_i64(ST::to_char_type(e)));
            }
            return true;
        }
        // to_char_type(i) for an i that is the int_type of some character
        if (what == "tochar") {
            auto i = in.num();
            guarded(impl, [&](Out& o) { o.tok("ok").num(as_i64(ET::to_char_type(static_cast<EI>(i)))); });
            ref.tok("ok").num(as_i64(ST::to_char_type(static_cast<SI>(i))));
            return true;
        }
        // eq_int_type(i, j), not_eof(i), eq_int_type(not_eof(i), eof())
        if (what == "eqint") {
            auto i = in.num();
            auto j = in.num();
            guarded(impl, [&](Out& o) {
                auto const x = static_cast<EI>(i);
                auto const y = static_cast<EI>(j);
                o.tok("ok").b(ET::eq_int_type(x, y)).num(as_i64(ET::not_eof(x))).b(
                    ET::eq_int_type(ET::not_eof(x), ET::eof()));
            });
            auto const x = static_cast<SI>(i);
            auto const y = static_cast<SI>(j);
            ref.tok("ok").b(ST::eq_int_type(x, y)).num(as_i64(ST::not_eof(x))).b(
                ST::eq_int_type(ST::not_eof(x), ST::eof()));
            return true;
        }
        return false;
    }

    // ---- HUGE views (fix-miss round 4) -------------------------------------------------------------------------
    // A "big view" argument is `<explicit prefix list> <length>`: a view of <length> characters (up to 2^33+16) at the
    // start of a zero-filled MAP_NORESERVE mapping whose first characters are the explicit prefix.  Nothing but the
    // explicit prefix is ever written, and the operations below read only min(size) characters (or a few characters
    // at a far position, which maps the shared zero page), so views whose lengths differ by 2^31, 2^32, ... exist
    // without the memory.  Both legs run on the SAME views.
    struct BigMap {
        static constexpr std::size_t cap = (std::size_t{1} << 33) + 16;
        static Char* get(int which)
        {
            static Char* m[2] = {nullptr, nullptr};
            if (m[which] == nullptr) {
                void* r = mmap(nullptr, cap * sizeof(Char), PROT_READ | PROT_WRITE,
                    MAP_PRIVATE | MAP_ANONYMOUS | MAP_NORESERVE, -1, 0);
                if (r == MAP_FAILED) { return nullptr; }
                m[which] = static_cast<Char*>(r);
            }
            return m[which];
        }
    };
    struct BigArg {
        Char* p       = nullptr;
        std::size_t n = 0;
        std::size_t w = 0; // explicit characters written (zeroed again afterwards)
        bool bad      = false;
        BigArg(Toks& in, int which)
        {
            auto pre = in.list();
            n        = static_cast<std::size_t>(in.unum());
            p        = BigMap::get(which);
            if (p == nullptr || n > BigMap::cap || pre.size() > 256) {
                bad = true;
                return;
            }
            w = pre.size();
            for (std::size_t i = 0; i < w; ++i) { p[i] = static_cast<Char>(pre[i]); }
        }
        BigArg(BigArg const&)                    = delete;
        auto operator=(BigArg const&) -> BigArg& = delete;
        ~BigArg()
        {
            if (p != nullptr) {
                for (std::size_t i = 0; i < w; ++i) { p[i] = Char{}; }
            }
        }
    };
    // offset and size of a result view; its characters only when there are at most 16
    template <typename V>
    static void put_big(Out& o, V const& sub, Char const* origin)
    {
        o.tok("ok").num(static_cast<i64>(sub.data() - origin)).unum(sub.size());
        if (sub.size() > 16) {
            o.tok("long");
            return;
        }
        for (std::size_t i = 0; i < sub.size(); ++i) { o.num(static_cast<i64>(sub.data()[i])); }
    }

    static bool big(std::string const& what, Toks& in, Out& impl, Out& ref)
    {
        auto pc = [&](std::size_t& p, std::size_t& k) {
            p = static_cast<std::size_t>(in.unum());
            k = static_cast<std::size_t>(in.unum());
        };
        std::size_t p1 = 0;
        std::size_t k1 = 0;
        std::size_t p2 = 0;
        std::size_t k2 = 0;
        if (what == "probe") {
            bool const ok = BigMap::get(0) != nullptr && BigMap::get(1) != nullptr && sizeof(std::size_t) == 8;
            impl.tok("ok").b(ok);
            ref.tok("ok").b(true);
            return true;
        }
        BigArg a(in, 0);
        if (a.bad) {
            impl.tok("bad-case");
            return true;
        }
        E const ea(a.p, a.n);
        S const sa(a.p, a.n);
        // ---- one big view and scalars
        if (what == "substr") {
            pc(p1, k1);
            guarded(impl, [&](Out& o) { put_big(o, ea.substr(p1, k1), a.p); });
            if (p1 <= a.n) { put_big(ref, sa.substr(p1, k1), a.p); }
            return true;
        }
        if (what == "rmpre" || what == "rmsuf") {
            auto n = static_cast<std::size_t>(in.unum());
            guarded(impl, [&](Out& o) {
                auto v = ea;
                if (what == "rmpre") {
                    v.remove_prefix(n);
                } else {
                    v.remove_suffix(n);
                }
                put_big(o, v, a.p);
            });
            if (n <= a.n) {
                auto v = sa;
                if (what == "rmpre") {
                    v.remove_prefix(n);
                } else {
                    v.remove_suffix(n);
                }
                put_big(ref, v, a.p);
            }
            return true;
        }
        if (what == "copy") {
            auto cnt         = static_cast<std::size_t>(in.unum());
            auto pos         = static_cast<std::size_t>(in.unum());
            auto const avail = pos <= a.n ? a.n - pos : std::size_t{0};
            auto const rlen  = cnt < avail ? cnt : avail;
            if (rlen > 64) {
                impl.tok("bad-case");
                return true;
            }
            std::vector<i64> room(rlen, 1);
            auto run = [&](Out& o, auto view, Block<Char>& dest) {
                auto r = view.copy(dest.p, cnt, pos);
                o.tok("ok").unum(r);
                for (std::size_t i = 0; i < r && i < room.size(); ++i) { o.num(static_cast<i64>(dest.p[i])); }
#if !defined(__SANITIZE_ADDRESS__)
                for (std::size_t i = 0; i < 8; ++i) {
                    if (dest.p[room.size() + i] != static_cast<Char>(2)) {
                        o.tok("wrote-past-rlen-at").unum(room.size() + i);
                        break;
                    }
                }
#endif
            };
            {
                Block<Char> dest(room, {2});
                guarded(impl, [&](Out& o) { run(o, ea, dest); });
            }
            if (pos <= a.n) {
                Block<Char> dest(room, {2});
                run(ref, sa, dest);
            }
            return true;
        }
        if (what == "at" || what == "back") {
            auto pos = what == "at" ? static_cast<std::size_t>(in.unum()) : std::size_t{0};
            guarded(impl, [&](Out& o) {
                auto const& r = what == "back" ? ea.back() : ea[pos];
                o.tok("ok").num(static_cast<i64>(r)).num(static_cast<i64>(&r - a.p));
            });
            if (what == "at" ? pos < a.n : a.n != 0) {
                auto const& r = what == "back" ? sa.back() : sa[pos];
                ref.tok("ok").num(static_cast<i64>(r)).num(static_cast<i64>(&r - a.p));
            }
            return true;
        }
        // ---- a big view and a C string (small, in its own guarded block)
        if (what == "cmpp" || what == "cmp3p" || what == "cmp4p" || what == "startsp" || what == "endsp"
            || what == "relpl" || what == "relpr") {
            if (what == "cmp3p" || what == "cmp4p") { pc(p1, k1); }
            auto s = in.list();
            if (what == "cmp4p") { k2 = static_cast<std::size_t>(in.unum()); }
            Block<Char> bs(what == "cmp4p" ? s : with_nul(s), s);
            Char const* ptr = bs.p;
            if (what == "cmpp") {
                guarded(impl, [&](Out& o) { o.tok("ok").num(sign(ea.compare(ptr))); });
                ref.tok("ok").num(sign(sa.compare(ptr)));
            } else if (what == "cmp3p") {
                guarded(impl, [&](Out& o) { o.tok("ok").num(sign(ea.compare(p1, k1, ptr))); });
                if (p1 <= a.n) { ref.tok("ok").num(sign(sa.compare(p1, k1, ptr))); }
            } else if (what == "cmp4p") {
                guarded(impl, [&](Out& o) { o.tok("ok").num(sign(ea.compare(p1, k1, ptr, k2))); });
                if (p1 <= a.n && k2 <= s.size()) { ref.tok("ok").num(sign(sa.compare(p1, k1, ptr, k2))); }
            } else if (what == "startsp") {
                guarded(impl, [&](Out& o) { o.tok("ok").b(ea.starts_with(ptr)); });
                ref.tok("ok").b(sa.starts_with(ptr));
            } else if (what == "endsp") {
                guarded(impl, [&](Out& o) { o.tok("ok").b(ea.ends_with(ptr)); });
                ref.tok("ok").b(sa.ends_with(ptr));
            } else if (what == "relpl") {
                guarded(impl, [&](Out& o) { rel_out(o, ptr, ea); });
                rel_out(ref, ptr, sa);
            } else {
                guarded(impl, [&](Out& o) { rel_out(o, ea, ptr); });
                rel_out(ref, sa, ptr);
            }
            return true;
        }
        // ---- two big views (separate mappings)
        if (what == "cmp3" || what == "cmp5") { pc(p1, k1); }
        BigArg b(in, 1);
        if (b.bad) {
            impl.tok("bad-case");
            return true;
        }
        if (what == "cmp5") { pc(p2, k2); }
        E const eb(b.p, b.n);
        S const sb(b.p, b.n);
        if (what == "cmp") {
            guarded(impl, [&](Out& o) { o.tok("ok").num(sign(ea.compare(eb))); });
            ref.tok("ok").num(sign(sa.compare(sb)));
            return true;
        }
        if (what == "cmp3") {
            guarded(impl, [&](Out& o) { o.tok("ok").num(sign(ea.compare(p1, k1, eb))); });
            if (p1 <= a.n) { ref.tok("ok").num(sign(sa.compare(p1, k1, sb))); }
            return true;
        }
        if (what == "cmp5") {
            guarded(impl, [&](Out& o) { o.tok("ok").num(sign(ea.compare(p1, k1, eb, p2, k2))); });
            if (p1 <= a.n && p2 <= b.n) { ref.tok("ok").num(sign(sa.compare(p1, k1, sb, p2, k2))); }
            return true;
        }
        if (what == "rel") {
            guarded(impl, [&](Out& o) { rel_out(o, ea, eb); });
            rel_out(ref, sa, sb);
            return true;
        }
        // the six search families: a huge haystack searched forwards from a position near its end or backwards from
        // a small position (the index range the search may visit is at most 4096 characters; bad-case otherwise)
        if (what == "find" || what == "rfind" || what == "ffo" || what == "ffno" || what == "flo" || what == "flno") {
            auto pos           = static_cast<std::size_t>(in.unum());
            bool const forward = what == "find" || what == "ffo" || what == "ffno";
            auto const range   = forward ? (pos > a.n ? std::size_t{0} : a.n - pos) : (pos < a.n ? pos : a.n);
            bool const byset = what != "find" && what != "rfind";
            if (range > 4096 || (b.n > 64 && (byset || a.n > 4096))) {
                impl.tok("bad-case");
                return true;
            }
            auto call = [&](auto const& hv, auto const& nv) -> std::size_t {
                if (what == "find") { return hv.find(nv, pos); }
                if (what == "rfind") { return hv.rfind(nv, pos); }
                if (what == "ffo") { return hv.find_first_of(nv, pos); }
                if (what == "ffno") { return hv.find_first_not_of(nv, pos); }
                if (what == "flo") { return hv.find_last_of(nv, pos); }
                return hv.find_last_not_of(nv, pos);
            };
            guarded(impl, [&](Out& o) { o.tok("ok").unum(call(ea, eb)); });
            ref.tok("ok").unum(call(sa, sb));
            return true;
        }
        if (what == "starts" || what == "ends") {
            guarded(impl, [&](Out& o) { o.tok("ok").b(what == "starts" ? ea.starts_with(eb) : ea.ends_with(eb)); });
            ref.tok("ok").b(what == "starts" ? sa.starts_with(sb) : sa.ends_with(sb));
            return true;
        }
        return false;
    }

    static bool run(std::string const& op, Toks& in, Out& impl, Out& ref)
    {
        if (op.rfind("big", 0) == 0) { return big(op.substr(3), in, impl, ref); }
        auto us      = op.find('_');
        auto base    = us == std::string::npos ? op : op.substr(0, us);
        auto variant = us == std::string::npos ? std::string{} : op.substr(us + 1);

        if (base == "find") {
            return search(variant, in, impl, ref, [](auto const& v, auto... a) { return v.find(a...); });
        }
        if (base == "rfind") {
            return search(variant, in, impl, ref, [](auto const& v, auto... a) { return v.rfind(a...); });
        }
        if (base == "ffo") {
            return search(variant, in, impl, ref, [](auto const& v, auto... a) { return v.find_first_of(a...); });
        }
        if (base == "ffno") {
            return search(variant, in, impl, ref, [](auto const& v, auto... a) { return v.find_first_not_of(a...); });
        }
        if (base == "flo") {
            return search(variant, in, impl, ref, [](auto const& v, auto... a) { return v.find_last_of(a...); });
        }
        if (base == "flno") {
            return search(variant, in, impl, ref, [](auto const& v, auto... a) { return v.find_last_not_of(a...); });
        }
        if (base == "contains") {
            // std::basic_string_view::contains is C++23; its definition is find(x) != npos
            return predicate(variant, in, impl, ref, [](auto const& v, auto a) {
                using V = std::remove_cvref_t<decltype(v)>;
                if constexpr (std::is_same_v<V, E>) {
                    return v.contains(a);
                } else {
                    return v.find(a) != V::npos;
                }
            });
        }
        if (base == "starts") {
            return predicate(variant, in, impl, ref, [](auto const& v, auto a) { return v.starts_with(a); });
        }
        if (base == "ends") {
            return predicate(variant, in, impl, ref, [](auto const& v, auto a) { return v.ends_with(a); });
        }
        if (base == "compare") { return compare(variant, in, impl, ref); }
        if (base == "tr") { return traits(variant, in, impl, ref); }
        if (op == "rel") {
            auto a = in.list();
            auto b = in.list();
            Block<Char> ba(a, b);
            Block<Char> bb(b, a);
            guarded(impl, [&](Out& o) {
                rel_out(o, E(ba.p, ba.n), E(bb.p, bb.n));
                null_probe(o, a.empty(), b.empty(), rel_mask(E(ba.p, ba.n), E(bb.p, bb.n)), E(ba.p, ba.n),
                    E(bb.p, bb.n), [&](E x, E y) -> int { return rel_mask(x, y); });
            });
            rel_out(ref, S(ba.p, ba.n), S(bb.p, bb.n));
            return true;
        }
        // heterogeneous comparisons: one operand is a Char const* (converted to a view by the operator's
        // type_identity parameter).  rel_pl: C string OP view;  rel_pr: view OP C string
        if (op == "rel_pl" || op == "rel_pr") {
            auto first  = in.list();
            auto second = in.list();
            bool const ptrLeft = op == "rel_pl";
            auto const& sv     = ptrLeft ? second : first; // the view operand
            auto const& cs     = ptrLeft ? first : second; // the C string operand
            Block<Char> bv(sv, cs);
            Block<Char> bs(with_nul(cs), sv);
            Char const* ptr = bs.p;
            if (ptrLeft) {
                guarded(impl, [&](Out& o) { rel_out(o, ptr, E(bv.p, bv.n)); });
                rel_out(ref, ptr, S(bv.p, bv.n));
            } else {
                guarded(impl, [&](Out& o) { rel_out(o, E(bv.p, bv.n), ptr); });
                rel_out(ref, S(bv.p, bv.n), ptr);
            }
            return true;
        }
        if (op == "front" || op == "back" || op == "at") {
            auto h   = in.list();
            auto pos = op == "at" ? static_cast<std::size_t>(in.unum()) : std::size_t{0};
            Block<Char> bh(h, h);
            guarded(impl, [&](Out& o) {
                auto v        = E(bh.p, bh.n);
                auto const& r = op == "front" ? v.front() : op == "back" ? v.back() : v[pos];
                o.tok("ok").num(static_cast<i64>(r)).num(static_cast<i64>(&r - bh.p));
            });
            bool const valid = op == "at" ? pos < h.size() : !h.empty();
            if (valid) {
                auto v        = S(bh.p, bh.n);
                auto const& r = op == "front" ? v.front() : op == "back" ? v.back() : v[pos];
                ref.tok("ok").num(static_cast<i64>(r)).num(static_cast<i64>(&r - bh.p));
            }
            return true;
        }
        if (op == "swap") {
            auto a = in.list();
            auto b = in.list();
            Block<Char> ba(a, b);
            Block<Char> bb(b, a);
            guarded(impl, [&](Out& o) {
                auto x = E(ba.p, ba.n);
                auto y = E(bb.p, bb.n);
                x.swap(y);
                put_view(o, x, bb.p); // x now views b's block
                put_view(o, y, ba.p);
            });
            {
                auto x = S(ba.p, ba.n);
                auto y = S(bb.p, bb.n);
                x.swap(y);
                put_view(ref, x, bb.p);
                put_view(ref, y, ba.p);
            }
            return true;
        }
        // basic_string_view(first, last): the view every other operation would then work on
        if (op == "ctor_it") {
            auto h = in.list();
            Block<Char> bh(h, h);
            Char const* first = bh.p;
            Char const* last  = bh.p + bh.n;
            guarded(impl, [&](Out& o) { put_view(o, E(first, last), bh.p); });
            put_view(ref, S(first, last), bh.p);
            return true;
        }
        if (op == "substr_d0" || op == "substr_d1") {
            auto h   = in.list();
            auto pos = op == "substr_d1" ? static_cast<std::size_t>(in.unum()) : std::size_t{0};
            Block<Char> bh(h, h);
            if (op == "substr_d0") {
                guarded(impl, [&](Out& o) { put_view(o, E(bh.p, bh.n).substr(), bh.p); });
                put_view(ref, S(bh.p, bh.n).substr(), bh.p);
            } else {
                guarded(impl, [&](Out& o) { put_view(o, E(bh.p, bh.n).substr(pos), bh.p); });
                if (pos <= h.size()) { put_view(ref, S(bh.p, bh.n).substr(pos), bh.p); }
            }
            return true;
        }
        if (op == "substr") {
            auto h   = in.list();
            auto pos = static_cast<std::size_t>(in.unum());
            auto cnt = static_cast<std::size_t>(in.unum());
            Block<Char> bh(h, h);
            guarded(impl, [&](Out& o) { put_view(o, E(bh.p, bh.n).substr(pos, cnt), bh.p); });
            if (pos <= h.size()) { put_view(ref, S(bh.p, bh.n).substr(pos, cnt), bh.p); }
            return true;
        }
        if (op == "copy" || op == "copy_d") {
            auto h   = in.list();
            auto cnt = static_cast<std::size_t>(in.unum());
            auto pos = op == "copy" ? static_cast<std::size_t>(in.unum()) : std::size_t{0};
            Block<Char> bh(h, h);
            // the destination has exactly the number of cells the standard says are written ([string.view.ops]:
            // rlen = min(n, size() - pos)); a write beyond them lands in the guard zone: poisoned in the sanitizer
            // build, filled with the value 2 (in no alphabet) and inspected afterwards in the plain build.  The cells themselves
            // start as 1 (neither a terminator nor a character of the alphabets).
            auto const avail = pos <= h.size() ? h.size() - pos : std::size_t{0};
            std::vector<i64> room((cnt < avail ? cnt : avail), 1);
            // (the Block is constructed outside guarded(): a contract failure leaves by longjmp)
            auto run = [&](Out& o, auto view, Block<Char>& dest) {
                auto r = op == "copy" ? view.copy(dest.p, cnt, pos) : view.copy(dest.p, cnt);
                o.tok("ok").unum(r).num(static_cast<i64>(r));
                for (std::size_t i = 0; i < r && i < room.size(); ++i) { o.num(static_cast<i64>(dest.p[i])); }
#if !defined(__SANITIZE_ADDRESS__)
                for (std::size_t i = 0; i < 8; ++i) {
                    if (dest.p[room.size() + i] != static_cast<Char>(2)) {
                        o.tok("wrote-past-rlen-at").unum(room.size() + i);
                        break;
                    }
                }
                if (*(dest.p - 1) != static_cast<Char>(2)) { o.tok("wrote-before-dest"); }
#endif
            };
            {
                Block<Char> dest(room, {2});
                guarded(impl, [&](Out& o) { run(o, E(bh.p, bh.n), dest); });
            }
            if (pos <= h.size()) {
                Block<Char> dest(room, {2});
                run(ref, S(bh.p, bh.n), dest);
            }
            return true;
        }
        if (op == "rmpre" || op == "rmsuf") {
            auto h = in.list();
            auto n = static_cast<std::size_t>(in.unum());
            Block<Char> bh(h, h);
            guarded(impl, [&](Out& o) {
                auto v = E(bh.p, bh.n);
                if (op == "rmpre") {
                    v.remove_prefix(n);
                } else {
                    v.remove_suffix(n);
                }
                put_view(o, v, bh.p);
            });
            if (n <= h.size()) {
                auto v = S(bh.p, bh.n);
                if (op == "rmpre") {
                    v.remove_prefix(n);
                } else {
                    v.remove_suffix(n);
                }
                put_view(ref, v, bh.p);
            }
            return true;
        }
        return false;
    }
};

static bool dispatch(std::string const& op, Toks& in, Out& impl, Out& ref);

bool vh::run_case(std::string const& op, Toks& in, Out& impl, Out& ref)
{
#if defined(__SANITIZE_ADDRESS__)
    auto const before   = vh_asan::hits;
    vh_asan::case_start = before;
    auto const known  = dispatch(op, in, impl, ref);
    if (vh_asan::hits != before) {
        impl.s.clear();
        impl.tok("crash").tok("asan");
    }
    return known;
#else
    return dispatch(op, in, impl, ref);
#endif
}

static bool dispatch(std::string const& op, Toks& in, Out& impl, Out& ref)
{
    auto ck = in.str();
    if (ck == "c") { return Run<char>::run(op, in, impl, ref); }
    if (ck == "w") { return Run<wchar_t>::run(op, in, impl, ref); }
    if (ck == "u") { return Run<char32_t>::run(op, in, impl, ref); }
#if defined(VH_FEWER_TYPES)
    // the sanitizer build instantiates three of the five character types (compile time)
    if (ck == "s" || ck == "b") {
        impl.tok("skip");
        return true;
    }
#else
    if (ck == "s") { return Run<char16_t>::run(op, in, impl, ref); }
    if (ck == "b") { return Run<char8_t>::run(op, in, impl, ref); }
#endif
    return false;
}

VERIF_MAIN()
