// C08 harness: etl::basic_string_view (impl leg) vs std::basic_string_view (reference leg)
// on the same character data.
//
// Every haystack / needle / C-string argument lives in its own heap block with guard zones on
// both sides.  In the sanitizer build the guards are poisoned, so the view is flush against
// inaccessible memory at BOTH ends (also for an empty view) and a read one character outside is
// a crash, not a silent read; nothing is NUL-terminated unless the overload takes a C string.
// In the plain build the guards are readable and filled with the OTHER argument's characters
// (an over-read then continues a partial match instead of hitting a harmless terminator).
#include "common.hpp"

#include <etl/string_view.hpp>

#include <string_view>
#include <type_traits>

#if defined(__SANITIZE_ADDRESS__)
    #include <fcntl.h>
    #include <sanitizer/asan_interface.h>
    #define VH_POISON(p, n)   __asan_poison_memory_region((p), (n))
    #define VH_UNPOISON(p, n) __asan_unpoison_memory_region((p), (n))
// The sanitizer build runs AddressSanitizer in recover mode (-fsanitize-recover=address,
// halt_on_error=0, suppress_equal_pcs=0): an out-of-view read is reported through this callback and
// the case's impl leg becomes "crash asan"; the process is not re-forked per faulty case (a defect
// that over-reads makes tens of thousands of cases faulty).  Only the first reports are printed.
namespace vh_asan {
inline unsigned long hits       = 0;
inline unsigned long case_start = 0;
inline void on_report(char const* /*text*/)
{
    ++hits;
    // a loop that runs away through poisoned memory never ends in recover mode: give up on the
    // case (the supervisor reports it as a crash and re-forks)
    if (hits - case_start > 64) { std::_Exit(86); }
    if (hits == 3) {
        int fd = open("/dev/null", O_WRONLY);
        if (fd >= 0) {
            dup2(fd, 2);
            close(fd);
        }
    }
}
inline bool const installed = (__asan_set_error_report_callback(on_report), true);
} // namespace vh_asan
#else
    #define VH_POISON(p, n)   ((void)0)
    #define VH_UNPOISON(p, n) ((void)0)
#endif

using namespace vh;

// Blocks come from a small static arena (LIFO, one slot per live block) so that the sanitizer
// build does not pay for a heap allocation + quarantine per argument; oversized requests fall back
// to the heap.  Guard zones are (re)poisoned on every use.
namespace arena {
constexpr std::size_t slot_bytes = 4096;
constexpr std::size_t slots      = 8;
alignas(64) inline unsigned char mem[slots][slot_bytes];
inline std::size_t live = 0;
} // namespace arena

template <typename Char>
struct Block {
    static constexpr std::size_t G = 64; // guard bytes on each side
    unsigned char* raw = nullptr;
    std::size_t total  = 0;
    Char* p            = nullptr;
    std::size_t n      = 0;
    bool heap          = false;

    Block(std::vector<i64> const& v, std::vector<i64> const& pad)
    {
        n                = v.size();
        auto const bytes = n * sizeof(Char);
        total            = G + ((bytes + 63) / 64) * 64 + G;
        if (total <= arena::slot_bytes && arena::live < arena::slots) {
            raw = arena::mem[arena::live];
        } else {
            raw  = static_cast<unsigned char*>(std::aligned_alloc(64, total));
            heap = true;
        }
        ++arena::live;
        auto* all        = reinterpret_cast<Char*>(raw);
        auto const cells = total / sizeof(Char);
        for (std::size_t i = 0; i < cells; ++i) {
            all[i] = pad.empty() ? static_cast<Char>('a') : static_cast<Char>(pad[i % pad.size()]);
        }
        p = reinterpret_cast<Char*>(raw + G);
        for (std::size_t i = 0; i < n; ++i) { p[i] = static_cast<Char>(v[i]); }
        VH_POISON(raw, G);
        VH_POISON(raw + G + bytes, total - G - bytes);
    }
    Block(Block const&)                    = delete;
    auto operator=(Block const&) -> Block& = delete;
    ~Block()
    {
        VH_UNPOISON(raw, total);
        --arena::live;
        if (heap) { std::free(raw); }
    }
};

static std::vector<i64> with_nul(std::vector<i64> v)
{
    v.push_back(0);
    return v;
}

template <typename Char>
struct Run {
    using E = etl::basic_string_view<Char>;
    using S = std::basic_string_view<Char>;

    template <typename V>
    static void put_view(Out& o, V const& sub, Char const* origin)
    {
        o.tok("ok").num(static_cast<i64>(sub.data() - origin)).num(static_cast<i64>(sub.size()));
        for (std::size_t i = 0; i < sub.size(); ++i) { o.num(static_cast<i64>(sub.data()[i])); }
    }

    // the six search families: f(view, args...) calls the member under test
    template <typename F>
    static bool search(std::string const& variant, Toks& in, Out& impl, Out& ref, F f)
    {
        auto h = in.list();
        if (variant.empty()) {
            auto n   = in.list();
            auto pos = static_cast<std::size_t>(in.unum());
            Block<Char> bh(h, n);
            Block<Char> bn(n, h);
            guarded(impl, [&](Out& o) { o.tok("ok").unum(f(E(bh.p, bh.n), E(bn.p, bn.n), pos)); });
            ref.tok("ok").unum(f(S(bh.p, bh.n), S(bn.p, bn.n), pos));
            return true;
        }
        if (variant == "c") {
            auto c   = static_cast<Char>(in.num());
            auto pos = static_cast<std::size_t>(in.unum());
            Block<Char> bh(h, {static_cast<i64>(c)});
            guarded(impl, [&](Out& o) { o.tok("ok").unum(f(E(bh.p, bh.n), c, pos)); });
            ref.tok("ok").unum(f(S(bh.p, bh.n), c, pos));
            return true;
        }
        if (variant == "p") {
            auto s   = in.list();
            auto pos = static_cast<std::size_t>(in.unum());
            Block<Char> bh(h, s);
            Block<Char> bs(with_nul(s), h);
            Char const* ptr = bs.p;
            guarded(impl, [&](Out& o) { o.tok("ok").unum(f(E(bh.p, bh.n), ptr, pos)); });
            ref.tok("ok").unum(f(S(bh.p, bh.n), ptr, pos));
            return true;
        }
        if (variant == "pc") {
            auto s   = in.list();
            auto pos = static_cast<std::size_t>(in.unum());
            auto cnt = static_cast<std::size_t>(in.unum());
            Block<Char> bh(h, s);
            Block<Char> bs(s, h);
            Char const* ptr = bs.p;
            guarded(impl, [&](Out& o) { o.tok("ok").unum(f(E(bh.p, bh.n), ptr, pos, cnt)); });
            if (cnt <= s.size()) { ref.tok("ok").unum(f(S(bh.p, bh.n), ptr, pos, cnt)); }
            return true;
        }
        return false;
    }

    // bool-valued members with (view) / (Char) / (Char const*) overloads
    template <typename F>
    static bool predicate(std::string const& variant, Toks& in, Out& impl, Out& ref, F f)
    {
        auto h = in.list();
        if (variant.empty()) {
            auto n = in.list();
            Block<Char> bh(h, n);
            Block<Char> bn(n, h);
            guarded(impl, [&](Out& o) { o.tok("ok").b(f(E(bh.p, bh.n), E(bn.p, bn.n))); });
            ref.tok("ok").b(f(S(bh.p, bh.n), S(bn.p, bn.n)));
            return true;
        }
        if (variant == "c") {
            auto c = static_cast<Char>(in.num());
            Block<Char> bh(h, {static_cast<i64>(c)});
            guarded(impl, [&](Out& o) { o.tok("ok").b(f(E(bh.p, bh.n), c)); });
            ref.tok("ok").b(f(S(bh.p, bh.n), c));
            return true;
        }
        if (variant == "p") {
            auto s = in.list();
            Block<Char> bh(h, s);
            Block<Char> bs(with_nul(s), h);
            Char const* ptr = bs.p;
            guarded(impl, [&](Out& o) { o.tok("ok").b(f(E(bh.p, bh.n), ptr)); });
            ref.tok("ok").b(f(S(bh.p, bh.n), ptr));
            return true;
        }
        return false;
    }

    static bool compare(std::string const& variant, Toks& in, Out& impl, Out& ref)
    {
        auto a = in.list();
        if (variant.empty()) {
            auto b = in.list();
            Block<Char> ba(a, b);
            Block<Char> bb(b, a);
            guarded(impl, [&](Out& o) { o.tok("ok").num(sign(E(ba.p, ba.n).compare(E(bb.p, bb.n)))); });
            ref.tok("ok").num(sign(S(ba.p, ba.n).compare(S(bb.p, bb.n))));
            return true;
        }
        auto readpc = [&](std::size_t& p, std::size_t& k) {
            p = static_cast<std::size_t>(in.unum());
            k = static_cast<std::size_t>(in.unum());
        };
        std::size_t p1 = 0;
        std::size_t k1 = 0;
        std::size_t p2 = 0;
        std::size_t k2 = 0;
        if (variant == "3") {
            readpc(p1, k1);
            auto b = in.list();
            Block<Char> ba(a, b);
            Block<Char> bb(b, a);
            guarded(impl, [&](Out& o) { o.tok("ok").num(sign(E(ba.p, ba.n).compare(p1, k1, E(bb.p, bb.n)))); });
            if (p1 <= a.size()) { ref.tok("ok").num(sign(S(ba.p, ba.n).compare(p1, k1, S(bb.p, bb.n)))); }
            return true;
        }
        if (variant == "5") {
            readpc(p1, k1);
            auto b = in.list();
            readpc(p2, k2);
            Block<Char> ba(a, b);
            Block<Char> bb(b, a);
            guarded(impl, [&](Out& o) {
                o.tok("ok").num(sign(E(ba.p, ba.n).compare(p1, k1, E(bb.p, bb.n), p2, k2)));
            });
            if (p1 <= a.size() && p2 <= b.size()) {
                ref.tok("ok").num(sign(S(ba.p, ba.n).compare(p1, k1, S(bb.p, bb.n), p2, k2)));
            }
            return true;
        }
        if (variant == "p") {
            auto s = in.list();
            Block<Char> ba(a, s);
            Block<Char> bs(with_nul(s), a);
            Char const* ptr = bs.p;
            guarded(impl, [&](Out& o) { o.tok("ok").num(sign(E(ba.p, ba.n).compare(ptr))); });
            ref.tok("ok").num(sign(S(ba.p, ba.n).compare(ptr)));
            return true;
        }
        if (variant == "3p") {
            readpc(p1, k1);
            auto s = in.list();
            Block<Char> ba(a, s);
            Block<Char> bs(with_nul(s), a);
            Char const* ptr = bs.p;
            guarded(impl, [&](Out& o) { o.tok("ok").num(sign(E(ba.p, ba.n).compare(p1, k1, ptr))); });
            if (p1 <= a.size()) { ref.tok("ok").num(sign(S(ba.p, ba.n).compare(p1, k1, ptr))); }
            return true;
        }
        if (variant == "4p") {
            readpc(p1, k1);
            auto s = in.list();
            k2     = static_cast<std::size_t>(in.unum());
            Block<Char> ba(a, s);
            Block<Char> bs(s, a);
            Char const* ptr = bs.p;
            guarded(impl, [&](Out& o) { o.tok("ok").num(sign(E(ba.p, ba.n).compare(p1, k1, ptr, k2))); });
            if (p1 <= a.size() && k2 <= s.size()) {
                ref.tok("ok").num(sign(S(ba.p, ba.n).compare(p1, k1, ptr, k2)));
            }
            return true;
        }
        return false;
    }

    template <typename V>
    static void rel_out(Out& o, V const& a, V const& b)
    {
        o.tok("ok").b(a == b).b(a != b).b(a < b).b(a <= b).b(a > b).b(a >= b);
    }

    static bool run(std::string const& op, Toks& in, Out& impl, Out& ref)
    {
        auto us      = op.find('_');
        auto base    = us == std::string::npos ? op : op.substr(0, us);
        auto variant = us == std::string::npos ? std::string{} : op.substr(us + 1);

        if (base == "find") {
            return search(variant, in, impl, ref, [](auto const& v, auto... a) { return v.find(a...); });
        }
        if (base == "rfind") {
            return search(variant, in, impl, ref, [](auto const& v, auto... a) { return v.rfind(a...); });
        }
        if (base == "ffo") {
            return search(variant, in, impl, ref, [](auto const& v, auto... a) { return v.find_first_of(a...); });
        }
        if (base == "ffno") {
            return search(variant, in, impl, ref, [](auto const& v, auto... a) { return v.find_first_not_of(a...); });
        }
        if (base == "flo") {
            return search(variant, in, impl, ref, [](auto const& v, auto... a) { return v.find_last_of(a...); });
        }
        if (base == "flno") {
            return search(variant, in, impl, ref, [](auto const& v, auto... a) { return v.find_last_not_of(a...); });
        }
        if (base == "contains") {
            // std::basic_string_view::contains is C++23; its definition is find(x) != npos
            return predicate(variant, in, impl, ref, [](auto const& v, auto a) {
                using V = std::remove_cvref_t<decltype(v)>;
                if constexpr (std::is_same_v<V, E>) {
                    return v.contains(a);
                } else {
                    return v.find(a) != V::npos;
                }
            });
        }
        if (base == "starts") {
            return predicate(variant, in, impl, ref, [](auto const& v, auto a) { return v.starts_with(a); });
        }
        if (base == "ends") {
            return predicate(variant, in, impl, ref, [](auto const& v, auto a) { return v.ends_with(a); });
        }
        if (base == "compare") { return compare(variant, in, impl, ref); }
        if (op == "rel") {
            auto a = in.list();
            auto b = in.list();
            Block<Char> ba(a, b);
            Block<Char> bb(b, a);
            guarded(impl, [&](Out& o) { rel_out(o, E(ba.p, ba.n), E(bb.p, bb.n)); });
            rel_out(ref, S(ba.p, ba.n), S(bb.p, bb.n));
            return true;
        }
        if (op == "substr") {
            auto h   = in.list();
            auto pos = static_cast<std::size_t>(in.unum());
            auto cnt = static_cast<std::size_t>(in.unum());
            Block<Char> bh(h, h);
            guarded(impl, [&](Out& o) { put_view(o, E(bh.p, bh.n).substr(pos, cnt), bh.p); });
            if (pos <= h.size()) { put_view(ref, S(bh.p, bh.n).substr(pos, cnt), bh.p); }
            return true;
        }
        if (op == "copy") {
            auto h   = in.list();
            auto cnt = static_cast<std::size_t>(in.unum());
            auto pos = static_cast<std::size_t>(in.unum());
            Block<Char> bh(h, h);
            std::vector<i64> room((cnt < h.size() ? cnt : h.size()), 0);
            {
                Block<Char> dest(room, {});
                guarded(impl, [&](Out& o) {
                    auto r = E(bh.p, bh.n).copy(dest.p, cnt, pos);
                    o.tok("ok").unum(r).num(static_cast<i64>(r));
                    for (std::size_t i = 0; i < r; ++i) { o.num(static_cast<i64>(dest.p[i])); }
                });
            }
            if (pos <= h.size()) {
                Block<Char> dest(room, {});
                auto r = S(bh.p, bh.n).copy(dest.p, cnt, pos);
                ref.tok("ok").unum(r).num(static_cast<i64>(r));
                for (std::size_t i = 0; i < r; ++i) { ref.num(static_cast<i64>(dest.p[i])); }
            }
            return true;
        }
        if (op == "rmpre" || op == "rmsuf") {
            auto h = in.list();
            auto n = static_cast<std::size_t>(in.unum());
            Block<Char> bh(h, h);
            guarded(impl, [&](Out& o) {
                auto v = E(bh.p, bh.n);
                if (op == "rmpre") {
                    v.remove_prefix(n);
                } else {
                    v.remove_suffix(n);
                }
                put_view(o, v, bh.p);
            });
            if (n <= h.size()) {
                auto v = S(bh.p, bh.n);
                if (op == "rmpre") {
                    v.remove_prefix(n);
                } else {
                    v.remove_suffix(n);
                }
                put_view(ref, v, bh.p);
            }
            return true;
        }
        return false;
    }
};

static bool dispatch(std::string const& op, Toks& in, Out& impl, Out& ref);

bool vh::run_case(std::string const& op, Toks& in, Out& impl, Out& ref)
{
#if defined(__SANITIZE_ADDRESS__)
    auto const before   = vh_asan::hits;
    vh_asan::case_start = before;
    auto const known  = dispatch(op, in, impl, ref);
    if (vh_asan::hits != before) {
        impl.s.clear();
        impl.tok("crash").tok("asan");
    }
    return known;
#else
    return dispatch(op, in, impl, ref);
#endif
}

static bool dispatch(std::string const& op, Toks& in, Out& impl, Out& ref)
{
    auto ck = in.str();
    if (ck == "c") { return Run<char>::run(op, in, impl, ref); }
    if (ck == "w") { return Run<wchar_t>::run(op, in, impl, ref); }
    if (ck == "u") { return Run<char32_t>::run(op, in, impl, ref); }
#if defined(VH_FEWER_TYPES)
    // the sanitizer build instantiates three of the five character types (compile time)
    if (ck == "s" || ck == "b") {
        impl.tok("skip");
        return true;
    }
#else
    if (ck == "s") { return Run<char16_t>::run(op, in, impl, ref); }
    if (ck == "b") { return Run<char8_t>::run(op, in, impl, ref); }
#endif
    return false;
}

VERIF_MAIN()
