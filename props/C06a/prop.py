"""C06a — mutating algorithms: case generators."""
import itertools

ID = "C06a"
LEVEL = "proof"
HARNESSES = [
    {"name": "main", "src": "harness.cpp", "flags": ["-O1", "-DTETL_ENABLE_CONTRACT_CHECKS=1"]},
    {"name": "asan", "src": "harness.cpp", "flags": ["-O1", "-g", "-fsanitize=address,undefined", "-fno-sanitize-recover=all",
                                                      "-DTETL_ENABLE_CONTRACT_CHECKS=1"], "thorough_only": True},
]
RULE = ("exhaustive: every sequence of length <= 5 (quick) / 6 (thorough) over 3 keys with position tags (so stability and "
        "identity are observable) x every predicate/comparator id; every (first,middle,last) split for rotate/reverse on lengths <= 7/9; "
        "every n in [-1,len+1] for shifts/copy_n; plus seeded random longer sequences; non-trivial = distinct case line with a non-empty range")
TRUSTED_BASE = ["reference leg: libstdc++ 12 <algorithm> on a copy of the same input"]
ASSUMPTIONS = ["element type int (moves are copies); predicates/comparators from the shared id family (coq/C06a/Instances.v)"]


def L(xs):
    return " ".join([str(len(xs))] + [str(x) for x in xs])


def key(v):
    return v // 16


def cmpkey(cid):
    if cid == 0:
        return lambda v: key(v)
    if cid == 1:
        return lambda v: -key(v)
    return lambda v: key(v) % 3


def seqs(maxlen, nkeys=3, tagged=True):
    for n in range(0, maxlen + 1):
        for ks in itertools.product(range(nkeys), repeat=n):
            yield [k * 16 + (i if tagged else 0) for i, k in enumerate(ks)]


def gen(tier, rng):
    quick = tier == "quick"
    out = []
    ML = 5 if quick else 6
    # value-independent permutations: distinct labels
    for n in range(0, (7 if quick else 9) + 1):
        l = list(range(10, 10 + n))
        for f in range(0, n + 1):
            for m in range(f, n + 1):
                for la in range(m, n + 1):
                    out.append(f"rotate {f} {m} {la} {L(l)}")
                    out.append(f"rotate_fwd {f} {m} {la} {L(l)}")
            for la in range(f, n + 1):
                out.append(f"reverse_ra {f} {la} {L(l)}")
                out.append(f"reverse_bidi {f} {la} {L(l)}")
        for k in range(-1, n + 2):
            for op in ("shift_left", "shift_left_full", "shift_left_fwd", "shift_right", "shift_right_full", "shift_right_bidi"):
                out.append(f"{op} {k} {L(l)}")
            if 0 <= k <= n:
                out.append(f"copy_n {k} {L(l)}")
                out.append(f"rotate_copy {k} {L(l)}")
            if k == -1:
                out.append(f"copy_n {k} {L(l)}")
        for op in ("copy", "move", "copy_in", "copy_backward", "move_backward", "reverse_copy"):
            out.append(f"{op} {L(l)}")
        for n2 in range(n, n + 3):
            l2 = list(range(100, 100 + n2))
            out.append(f"swap_ranges {L(l)} {L(l2)}")
            out.append(f"transform2 0 {L(l)} {L(l2)}")
            out.append(f"transform2 1 {L(l)} {L(l2)}")
        for cnt in range(-1, n + 1):
            out.append(f"fill_n {cnt} 7 {n}")
            out.append(f"generate_n {cnt} 5 {n}")
        out.append(f"fill 0 9 {n}")
        out.append(f"generate 0 3 {n}")
    allseqs = list(seqs(ML)) + [s for s in seqs(ML, tagged=False) if len(s) >= 2]
    for l in allseqs:
        ls = L(l)
        for pid in range(0, 5):
            out.append(f"remove_if {pid} {ls}")
            out.append(f"remove_if_full {pid} {ls}")
            out.append(f"partition {pid} {ls}")
            out.append(f"partition_full {pid} {ls}")
            out.append(f"stable_partition {pid} {ls}")
            if len(l) <= 4:
                out.append(f"remove_fwd {pid} {ls}")
                out.append(f"partition_fwd {pid} {ls}")
                out.append(f"copy_if {pid} {ls}")
                out.append(f"remove_copy_if {pid} {ls}")
                out.append(f"partition_copy {pid} {ls}")
                out.append(f"replace_if {pid} 99 {ls}")
        for v in sorted(set(l))[:2] + [999]:
            out.append(f"remove {v} {ls}")
            if len(l) <= 4:
                out.append(f"remove_copy {v} {ls}")
                out.append(f"replace {v} 5 {ls}")
        for eid in range(0, 3):
            out.append(f"unique {eid} {ls}")
            out.append(f"unique_full {eid} {ls}")
            if len(l) <= 4:
                out.append(f"unique_fwd {eid} {ls}")
                out.append(f"unique_copy {eid} {ls}")
        for cid in range(0, 3):
            for s in ("sort", "stable_sort", "insertion_sort", "gnome_sort", "bubble_sort", "exchange_sort", "merge_sort"):
                out.append(f"{s} {cid} {ls}")
                out.append(f"{s}_full {cid} {ls}")
            if len(l) <= 4:
                for k in range(0, len(l) + 1):
                    out.append(f"partial_sort {cid} {k} {ls}")
                    if k < len(l) or len(l) == 0:
                        out.append(f"nth_element {cid} {k} {ls}")
            for mid in range(0, len(l) + 1):
                a = sorted(l[:mid], key=cmpkey(cid))
                b = sorted(l[mid:], key=cmpkey(cid))
                out.append(f"inplace_merge {cid} {mid} {L(a + b)}")
        if len(l) <= 4:
            out.append(f"transform1 0 {ls}")
            out.append(f"transform1 1 {ls}")
    # random longer sequences
    for _ in range(600 if quick else 20000):
        n = rng.randint(6, 14)
        l = [rng.randint(0, 4) * 16 + rng.randint(0, 15) for _ in range(n)]
        ls = L(l)
        pid = rng.randint(0, 4)
        cid = rng.randint(0, 2)
        eid = rng.randint(0, 2)
        f = rng.randint(0, n)
        m = rng.randint(f, n)
        la = rng.randint(m, n)
        out.append(f"rotate {f} {m} {la} {ls}")
        out.append(f"stable_partition {pid} {ls}")
        out.append(f"partition_full {pid} {ls}")
        out.append(f"remove_if_full {pid} {ls}")
        out.append(f"unique_full {eid} {ls}")
        out.append(f"unique {eid} {ls}")
        s = rng.choice(["sort", "stable_sort", "insertion_sort", "gnome_sort", "bubble_sort", "exchange_sort", "merge_sort"])
        out.append(f"{s} {cid} {ls}")
        out.append(f"{s}_full {cid} {ls}")
        mid = rng.randint(0, n)
        a = sorted(l[:mid], key=cmpkey(cid))
        b = sorted(l[mid:], key=cmpkey(cid))
        out.append(f"inplace_merge {cid} {mid} {L(a + b)}")
        out.append(f"shift_right_full {rng.randint(0, n)} {ls}")
        out.append(f"shift_left_full {rng.randint(0, n)} {ls}")
    return out


def nontrivial(case, impl):
    toks = case.split()
    return impl.startswith("ok") and any(t not in ("0",) for t in toks[1:]) and len(toks) > 3
