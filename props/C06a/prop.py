"""C06a — mutating algorithms: case generators."""
import itertools

ID = "C06a"
LEVEL = "proof"
HARNESSES = [
    {"name": "main", "src": "harness.cpp", "flags": ["-O1", "-DTETL_ENABLE_CONTRACT_CHECKS=1"]},
    {"name": "asan", "src": "harness.cpp", "flags": ["-O1", "-g", "-fsanitize=address,undefined", "-fno-sanitize-recover=all",
                                                      "-DTETL_ENABLE_CONTRACT_CHECKS=1"], "thorough_only": True},
    # another build mode: full optimisation, contract checks compiled out (undefined behaviour that only -O2 exploits would show here)
    {"name": "o2", "src": "harness.cpp", "flags": ["-O2"], "thorough_only": True},
    # the class-type predicate result (_t4) has ONLY an explicit operator bool: a use of a predicate result that is not a
    # contextual conversion to bool (arithmetic, copy-initialisation of a bool, comparison with true) does not compile
    {"name": "xbool", "src": "harness.cpp", "flags": ["-O1", "-DTETL_ENABLE_CONTRACT_CHECKS=1", "-DTRUTH_EXPLICIT"], "thorough_only": True},
]
SORTS = ("sort", "stable_sort", "insertion_sort", "gnome_sort", "bubble_sort", "exchange_sort", "merge_sort")


def fl(s_, d_):
    """iterator flavour suffix: source kind 0 pointer / 1 input / 2 forward / 3 bidirectional,
    destination kind 0 pointer / 1 output-iterator proxy / 2 back_insert_iterator / 3 forward-or-bidirectional wrapper"""
    return "" if (s_, d_) == (0, 0) else f"_s{s_}d{d_}"


RULE = ("exhaustive: every sequence of length <= 5 (quick) / 6 (thorough) over 3 keys with position tags (so stability and "
        "identity are observable) x every predicate/comparator id; every (first,middle,last) split for rotate/reverse on lengths <= 7/9; "
        "every n in [-1,len+1] for shifts/copy_n; copies inside one array for every (first,last,dest) on both permitted sides; "
        "the copying family with every compiling (source, destination) iterator flavour incl. output-iterator proxy and "
        "back_insert_iterator; the overloads without comparator (comparator id 3); sorts / reverse on reverse_iterator; "
        "reverse_iterator operators and advance/next/prev/distance for every category, position and distance on a length-6 range; "
        "every predicate- / comparator-taking algorithm also with predicates returning int (truthy 2, -1, 4096) or a class type "
        "contextually convertible to bool (suffix _t1.._t4) on every sequence of length <= 4; every algorithm that moves elements "
        "inside its range also on a move-tracking element type (suffix _mv / _mv_full: a move marks its source, no self test) - "
        "sequences of length <= 4 x predicate / comparator ids, every (first,middle,last) / (first,last,dest) / n on lengths <= 6; "
        "every algorithm that swaps (iter_swap, swap_ranges, array swap, reverse, partition, rotate, stable_partition, sort / gnome / "
        "bubble / exchange sort, nth_element, partial_sort) also on an element type with its own ADL swap (suffix _sw: table slot whose id "
        "stays in place, swap calls counted) - every (i,j) / (first,middle,last) on lengths <= 6, sequences of length <= 4 x ids; "
        "plus seeded random longer sequences; non-trivial = distinct case line with a non-empty range")
TRUSTED_BASE = ["reference leg: libstdc++ 12 <algorithm> on a copy of the same input"]
ASSUMPTIONS = ["element type int (moves are copies), the move-tracking type Mv (ops _mv) or the slot type with its own swap (ops _sw) of the harness; predicates/comparators from the "
               "shared id family (coq/C06a/Instances.v), result type bool / int / class (ops _t<k>)"]


def L(xs):
    return " ".join([str(len(xs))] + [str(x) for x in xs])


def key(v):
    return v // 16


def cmpkey(cid):
    if cid == 0:
        return lambda v: key(v)
    if cid == 1:
        return lambda v: -key(v)
    if cid == 3:
        return lambda v: v          # plain `<`: the overloads without a comparator argument
    return lambda v: key(v) % 3


def seqs(maxlen, nkeys=3, tagged=True):
    for n in range(0, maxlen + 1):
        for ks in itertools.product(range(nkeys), repeat=n):
            yield [k * 16 + (i if tagged else 0) for i, k in enumerate(ks)]


def gen(tier, rng):
    quick = tier == "quick"
    out = []
    ML = 5 if quick else 6
    # value-independent permutations: distinct labels
    for n in range(0, (7 if quick else 9) + 1):
        l = list(range(10, 10 + n))
        for f in range(0, n + 1):
            for m in range(f, n + 1):
                for la in range(m, n + 1):
                    out.append(f"rotate {f} {m} {la} {L(l)}")
                    out.append(f"rotate_fwd {f} {m} {la} {L(l)}")
            for la in range(f, n + 1):
                out.append(f"reverse_ra {f} {la} {L(l)}")
                out.append(f"reverse_bidi {f} {la} {L(l)}")
        for k in range(-1, n + 2):
            for op in ("shift_left", "shift_left_full", "shift_left_fwd", "shift_right", "shift_right_full", "shift_right_bidi"):
                out.append(f"{op} {k} {L(l)}")
            if 0 <= k <= n:
                out.append(f"copy_n {k} {L(l)}")
                out.append(f"rotate_copy {k} {L(l)}")
            if k == -1:
                out.append(f"copy_n {k} {L(l)}")
        for op in ("copy", "move", "copy_in", "copy_backward", "move_backward", "reverse_copy"):
            out.append(f"{op} {L(l)}")
        for d_ in (0, 1, 2):
            for s_ in (0, 1, 2, 3):
                if (s_, d_) != (0, 0):
                    out.append(f"copy{fl(s_, d_)} {L(l)}")
                    out.append(f"move{fl(s_, d_)} {L(l)}")
            for s_ in (0, 3):
                if (s_, d_) != (0, 0):
                    out.append(f"reverse_copy{fl(s_, d_)} {L(l)}")
            for s_ in (0, 2):
                for k in range(0, n + 1):
                    if (s_, d_) != (0, 0):
                        out.append(f"rotate_copy{fl(s_, d_)} {k} {L(l)}")
            for s_ in (0, 1):
                for k in range(-1, n + 1):
                    if (s_, d_) != (0, 0):
                        out.append(f"copy_n{fl(s_, d_)} {k} {L(l)}")
        for (s_, d_) in ((3, 0), (0, 3), (3, 3)):
            out.append(f"copy_backward{fl(s_, d_)} {L(l)}")
            out.append(f"move_backward{fl(s_, d_)} {L(l)}")
        # copies inside ONE array: every destination on both permitted sides of the source
        if n <= 6:
            for f in range(0, n + 1):
                for la in range(f, n + 1):
                    for d in range(0, n + 1):
                        if (d <= f or la <= d) and d + (la - f) <= n:
                            out.append(f"copy_ov {f} {la} {d} {L(l)}")
                            out.append(f"move_ov {f} {la} {d} {L(l)}")
                        if (la <= d or d <= f) and d - (la - f) >= 0:
                            out.append(f"copy_backward_ov {f} {la} {d} {L(l)}")
                            out.append(f"move_backward_ov {f} {la} {d} {L(l)}")
        for f in range(0, n + 1):
            for la in range(f, n + 1):
                out.append(f"reverse_rev {f} {la} {L(l)}")
        for n2 in range(n, n + 3):
            l2 = list(range(100, 100 + n2))
            out.append(f"swap_ranges {L(l)} {L(l2)}")
            out.append(f"swap_ranges_fwd {L(l)} {L(l2)}")
            if n == 3 and n2 == 3:
                out.append(f"swap_array {L(l)} {L(l2)}")
            out.append(f"transform2 0 {L(l)} {L(l2)}")
            out.append(f"transform2 1 {L(l)} {L(l2)}")
            for (s_, d_) in ((1, 0), (0, 1), (1, 1), (0, 2), (1, 2)):
                out.append(f"transform2{fl(s_, d_)} 1 {L(l)} {L(l2)}")
        for cnt in range(-1, n + 1):
            for d_ in (0, 1, 2):
                out.append(f"fill_n{fl(0, d_)} {cnt} 7 {n}")
                out.append(f"generate_n{fl(0, d_)} {cnt} 5 {n}")
        for s_ in (0, 2):
            out.append(f"fill{fl(s_, 0)} 0 9 {n}")
            out.append(f"generate{fl(s_, 0)} 0 3 {n}")
        # reverse_iterator operators at every pair of reversed positions
        if n <= 4:
            for i in range(0, n + 1):
                for j in range(0, n + 1):
                    out.append(f"revit_cmp {n} {i} {j}")
    # advance / next / prev / distance: every category, position and distance on a range of length 6
    for cat in range(0, 4):
        for pos in range(0, 7):
            for k in range(-pos if cat in (0, 3) else 0, 6 - pos + 1):
                out.append(f"iter_fn {cat} 6 {pos} {k}")
    allseqs = list(seqs(ML)) + [s for s in seqs(ML, tagged=False) if len(s) >= 2]
    FL9 = [(s_, d_) for s_ in (0, 1, 2) for d_ in (0, 1, 2) if (s_, d_) != (0, 0)]
    nfl = {}

    def cyc(name, table):
        nfl[name] = nfl.get(name, 0) + 1
        return table[nfl[name] % len(table)]
    for l in allseqs:
        ls = L(l)
        for pid in range(0, 5):
            out.append(f"remove_if {pid} {ls}")
            out.append(f"remove_if_full {pid} {ls}")
            out.append(f"partition {pid} {ls}")
            out.append(f"partition_full {pid} {ls}")
            out.append(f"stable_partition {pid} {ls}")
            if len(l) <= 4:
                out.append(f"remove_fwd {pid} {ls}")
                out.append(f"partition_fwd {pid} {ls}")
                out.append(f"copy_if {pid} {ls}")
                out.append(f"remove_copy_if {pid} {ls}")
                out.append(f"partition_copy {pid} {ls}")
                out.append(f"replace_if {pid} 99 {ls}")
                # one further (source, destination) flavour per case, cycling through all of them
                s_, d_ = cyc("p", FL9)
                out.append(f"copy_if{fl(s_, d_)} {pid} {ls}")
                out.append(f"remove_copy_if{fl(s_, d_)} {pid} {ls}")
                out.append(f"partition_copy{fl(s_, d_)} {pid} {ls}")
                out.append(f"replace_if{fl(2, 0)} {pid} 99 {ls}")
        for v in sorted(set(l))[:2] + [999]:
            out.append(f"remove {v} {ls}")
            if len(l) <= 4:
                out.append(f"remove_copy {v} {ls}")
                out.append(f"replace {v} 5 {ls}")
                s_, d_ = cyc("v", FL9)
                out.append(f"remove_copy{fl(s_, d_)} {v} {ls}")
                out.append(f"replace{fl(2, 0)} {v} 5 {ls}")
        for eid in range(0, 3):
            out.append(f"unique {eid} {ls}")
            out.append(f"unique_full {eid} {ls}")
            if len(l) <= 4:
                out.append(f"unique_fwd {eid} {ls}")
                out.append(f"unique_copy {eid} {ls}")
                s_, d_ = cyc("u", ((1, 0), (2, 0), (0, 3), (1, 3), (2, 3)))
                out.append(f"unique_copy{fl(s_, d_)} {eid} {ls}")
        for cid in range(0, 4):
            if cid == 3 and len(l) > 4:
                continue                      # comparator id 3 = the overload WITHOUT a comparator
            for s in SORTS:
                out.append(f"{s} {cid} {ls}")
                out.append(f"{s}_full {cid} {ls}")
            if len(l) <= 4 and cid in (0, 3):
                for s in SORTS:               # the same algorithms on etl::reverse_iterator<int*>
                    out.append(f"{s}_rev {cid} {ls}")
                    out.append(f"{s}_rev_full {cid} {ls}")
                for k in range(0, len(l) + 1):
                    out.append(f"partial_sort_rev {cid} {k} {ls}")
                    if k < len(l) or len(l) == 0:
                        out.append(f"nth_element_rev {cid} {k} {ls}")
            if len(l) <= 4 and cid != 3:
                out.append(f"gnome_sort_bidi {cid} {ls}")
                out.append(f"gnome_sort_bidi_full {cid} {ls}")
            if len(l) <= 4:
                for k in range(0, len(l) + 1):
                    out.append(f"partial_sort {cid} {k} {ls}")
                    if k < len(l) or len(l) == 0:
                        out.append(f"nth_element {cid} {k} {ls}")
            for mid in range(0, len(l) + 1):
                a = sorted(l[:mid], key=cmpkey(cid))
                b = sorted(l[mid:], key=cmpkey(cid))
                out.append(f"inplace_merge {cid} {mid} {L(a + b)}")
        if len(l) <= 4:
            out.append(f"transform1 0 {ls}")
            out.append(f"transform1 1 {ls}")
            s_, d_ = cyc("t", FL9)
            out.append(f"transform1{fl(s_, d_)} 1 {ls}")
    # random longer sequences
    for _ in range(600 if quick else 20000):
        n = rng.randint(6, 14)
        l = [rng.randint(0, 4) * 16 + rng.randint(0, 15) for _ in range(n)]
        ls = L(l)
        pid = rng.randint(0, 4)
        cid = rng.randint(0, 3)
        eid = rng.randint(0, 2)
        f = rng.randint(0, n)
        m = rng.randint(f, n)
        la = rng.randint(m, n)
        out.append(f"rotate {f} {m} {la} {ls}")
        out.append(f"stable_partition {pid} {ls}")
        out.append(f"partition_full {pid} {ls}")
        out.append(f"remove_if_full {pid} {ls}")
        out.append(f"unique_full {eid} {ls}")
        out.append(f"unique {eid} {ls}")
        s = rng.choice(SORTS)
        out.append(f"{s} {cid} {ls}")
        out.append(f"{s}_full {cid} {ls}")
        out.append(f"{s}_rev_full {cid} {ls}")
        out.append(f"gnome_sort_bidi_full {cid} {ls}")
        out.append(f"nth_element {cid} {rng.randint(0, n - 1)} {ls}")
        out.append(f"partial_sort {cid} {rng.randint(0, n)} {ls}")
        mid = rng.randint(0, n)
        a = sorted(l[:mid], key=cmpkey(cid))
        b = sorted(l[mid:], key=cmpkey(cid))
        out.append(f"inplace_merge {cid} {mid} {L(a + b)}")
        out.append(f"shift_right_full {rng.randint(0, n)} {ls}")
        out.append(f"shift_left_full {rng.randint(0, n)} {ls}")
    # ---- fix-miss round 4 -------------------------------------------------------------------------------------------
    # (a) predicates / comparators whose result is NOT bool (suffix _t1 int 2, _t2 int -1, _t3 int 4096, _t4 class type
    #     contextually convertible to bool): every predicate-taking algorithm, kinds cycling per operation
    # (b) move-tracking element type (suffix _mv / _mv_full): every algorithm that moves elements inside the range
    small = [l for l in allseqs if len(l) <= 4]
    tk = {}

    def tcyc(name):
        tk[name] = tk.get(name, 0) + 1
        return 1 + tk[name] % 4
    for l in small:
        ls = L(l)
        for pid in range(0, 5):
            for op in ("remove_if", "partition", "stable_partition", "copy_if", "remove_copy_if", "partition_copy"):
                out.append(f"{op}_t{tcyc(op)} {pid} {ls}")
            out.append(f"replace_if_t{tcyc('replace_if')} {pid} 99 {ls}")
            out.append(f"remove_if_full_t{tcyc('rf')} {pid} {ls}")
            out.append(f"partition_full_t{tcyc('pf')} {pid} {ls}")
            s_, d_ = cyc("pt", FL9)
            out.append(f"copy_if{fl(s_, d_)}_t{tcyc('cif')} {pid} {ls}")
            out.append(f"remove_fwd_t{tcyc('rfw')} {pid} {ls}")
            out.append(f"partition_fwd_t{tcyc('pfw')} {pid} {ls}")
            for op in ("remove_if", "partition", "stable_partition"):
                out.append(f"{op}_mv {pid} {ls}")
            out.append(f"remove_if_mv_full {pid} {ls}")
            out.append(f"partition_mv_full {pid} {ls}")
        for v in sorted(set(l))[:2] + [999]:
            out.append(f"remove_mv {v} {ls}")
        for eid in (0, 2):                       # eid 1 calls the overload without a predicate
            for op in ("unique", "unique_full", "unique_fwd", "unique_copy"):
                out.append(f"{op}_t{tcyc(op)} {eid} {ls}")
        for eid in range(0, 3):
            out.append(f"unique_mv {eid} {ls}")
            out.append(f"unique_mv_full {eid} {ls}")
        for cid in range(0, 3):
            for s in SORTS:
                if cid == 0 or s == "stable_sort":
                    out.append(f"{s}_t{tcyc(s)} {cid} {ls}")
                if cid != 1:
                    out.append(f"{s}_full_t{tcyc(s + 'f')} {cid} {ls}")
            k = len(l) // 2
            out.append(f"partial_sort_t{tcyc('ps')} {cid} {k} {ls}")
            if l:
                out.append(f"nth_element_t{tcyc('ne')} {cid} {k} {ls}")
            if cid != 1:
                for mid in range(0, len(l) + 1):
                    a = sorted(l[:mid], key=cmpkey(cid))
                    b = sorted(l[mid:], key=cmpkey(cid))
                    out.append(f"inplace_merge_t{tcyc('im')} {cid} {mid} {L(a + b)}")
        for cid in (0, 2, 3):
            for s in SORTS:
                if cid == 0 or s == "stable_sort":
                    out.append(f"{s}_mv {cid} {ls}")
                if cid != 2:
                    out.append(f"{s}_mv_full {cid} {ls}")
            out.append(f"partial_sort_mv {cid} {len(l) // 2} {ls}")
            if l:
                out.append(f"nth_element_mv {cid} {len(l) // 2} {ls}")
            if cid != 2:
                for mid in range(0, len(l) + 1):
                    a = sorted(l[:mid], key=cmpkey(cid))
                    b = sorted(l[mid:], key=cmpkey(cid))
                    out.append(f"inplace_merge_mv {cid} {mid} {L(a + b)}")
    for n in range(0, 6 + 1):
        l = list(range(10, 10 + n))
        for f in range(0, n + 1):
            for m in range(f, n + 1):
                for la in range(m, n + 1):
                    out.append(f"rotate_mv {f} {m} {la} {L(l)}")
                    out.append(f"rotate_fwd_mv {f} {m} {la} {L(l)}")
            for la in range(f, n + 1):
                out.append(f"reverse_ra_mv {f} {la} {L(l)}")
                out.append(f"reverse_bidi_mv {f} {la} {L(l)}")
                for d in range(0, n + 1):
                    # [alg.move]: the destination is not in [first, last); move_backward: dLast is not in (first, last]
                    if (d < f or la <= d or f == la) and d + (la - f) <= n:
                        out.append(f"move_ov_mv {f} {la} {d} {L(l)}")
                        if d < f or f == la:
                            out.append(f"move_ov_mv_full {f} {la} {d} {L(l)}")
                    if (la < d or d <= f or f == la) and d - (la - f) >= 0:
                        out.append(f"move_backward_ov_mv {f} {la} {d} {L(l)}")
                        if la < d or f == la:
                            out.append(f"move_backward_ov_mv_full {f} {la} {d} {L(l)}")
        for k in range(-1, n + 2):
            for op in ("shift_left_mv", "shift_left_mv_full", "shift_right_mv", "shift_right_mv_full"):
                out.append(f"{op} {k} {L(l)}")
        for n2 in range(n, n + 2):
            out.append(f"swap_ranges_mv {L(l)} {L(list(range(100, 100 + n2)))}")
    for _ in range(150 if quick else 5000):
        n = rng.randint(5, 12)
        l = [rng.randint(0, 4) * 16 + rng.randint(0, 15) for _ in range(n)]
        ls = L(l)
        pid = rng.randint(0, 4)
        cid = rng.randint(0, 3)
        eid = rng.randint(0, 2)
        t_ = rng.randint(1, 4)
        s = rng.choice(SORTS)
        for op in ("remove_if", "stable_partition", "partition_full", "copy_if", "partition_copy"):
            out.append(f"{op}_t{t_} {pid} {ls}")
        out.append(f"unique_full_t{t_} {eid if eid != 1 else 0} {ls}")
        if cid != 3:
            out.append(f"{s}_full_t{t_} {cid} {ls}")
        out.append(f"{s}_mv_full {cid} {ls}")
        out.append(f"unique_mv_full {eid} {ls}")
        out.append(f"unique_mv {eid} {ls}")
        out.append(f"remove_if_mv_full {pid} {ls}")
        out.append(f"remove_if_mv {pid} {ls}")
        out.append(f"stable_partition_mv {pid} {ls}")
        f = rng.randint(0, n)
        m = rng.randint(f, n)
        la = rng.randint(m, n)
        out.append(f"rotate_mv {f} {m} {la} {ls}")
        mid = rng.randint(0, n)
        a = sorted(l[:mid], key=cmpkey(cid))
        b = sorted(l[mid:], key=cmpkey(cid))
        out.append(f"inplace_merge_mv {cid} {mid} {L(a + b)}")
    # ---- fix-miss round 5: element type with its OWN swap found by argument-dependent lookup (suffix _sw / _sw_full): a table
    #      slot whose id stays in place while the payload travels; every algorithm that is specified by swaps (iter_swap,
    #      swap_ranges, reverse - with the number of swaps; partition) or that etl builds from iter_swap (rotate,
    #      stable_partition, sort = gnome_sort = nth_element = partial_sort, bubble_sort, exchange_sort)
    for n in range(0, 6 + 1):
        l = list(range(10, 10 + n))
        for f in range(0, n + 1):
            for m in range(f, n + 1):
                for la in range(m, n + 1):
                    out.append(f"rotate_sw {f} {m} {la} {L(l)}")
                    out.append(f"rotate_fwd_sw {f} {m} {la} {L(l)}")
            for la in range(f, n + 1):
                out.append(f"reverse_ra_sw {f} {la} {L(l)}")
                out.append(f"reverse_bidi_sw {f} {la} {L(l)}")
                out.append(f"reverse_rev_sw {f} {la} {L(l)}")
        for i in range(0, n):
            for j in range(0, n):
                out.append(f"iter_swap_sw {i} {j} {L(l)}")
        if n == 3:
            out.append(f"swap_array_sw {L(l)} {L(list(range(100, 103)))}")
            out.append(f"swap_array_sw {L([7, 7, 8])} {L([7, 9, 8])}")
        for n2 in range(n, n + 2):
            out.append(f"swap_ranges_sw {L(l)} {L(list(range(100, 100 + n2)))}")
            out.append(f"swap_ranges_fwd_sw {L(l)} {L(list(range(100, 100 + n2)))}")
    for l in small:
        ls = L(l)
        for pid in range(0, 5):
            for op in ("partition_sw", "partition_fwd_sw", "partition_sw_full", "stable_partition_sw"):
                out.append(f"{op} {pid} {ls}")
        for cid in (0, 2, 3):
            for s in ("sort", "gnome_sort", "bubble_sort", "exchange_sort"):
                out.append(f"{s}_sw {cid} {ls}")
                if cid != 2:
                    out.append(f"{s}_sw_full {cid} {ls}")
            out.append(f"partial_sort_sw {cid} {len(l) // 2} {ls}")
            if l:
                out.append(f"nth_element_sw {cid} {len(l) // 2} {ls}")
    for _ in range(100 if quick else 3000):
        n = rng.randint(5, 12)
        l = [rng.randint(0, 4) * 16 + rng.randint(0, 15) for _ in range(n)]
        ls = L(l)
        f = rng.randint(0, n)
        m = rng.randint(f, n)
        la = rng.randint(m, n)
        out.append(f"rotate_sw {f} {m} {la} {ls}")
        out.append(f"reverse_ra_sw {f} {la} {ls}")
        out.append(f"reverse_bidi_sw {f} {la} {ls}")
        out.append(f"partition_sw_full {rng.randint(0, 4)} {ls}")
        out.append(f"stable_partition_sw {rng.randint(0, 4)} {ls}")
        out.append(f"{rng.choice(('sort', 'bubble_sort', 'exchange_sort'))}_sw_full {rng.randint(0, 3)} {ls}")
    return out


def nontrivial(case, impl):
    toks = case.split()
    return impl.startswith("ok") and any(t not in ("0",) for t in toks[1:]) and len(toks) > 3
