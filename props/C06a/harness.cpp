// C06a harness: mutating etl algorithms (impl leg) vs libstdc++ (reference leg).
// Elements are ints v = key*16 + tag; predicates/comparators by id (coq/C06a/Instances.v).
#include "common.hpp"
#include "iters.hpp"

#include <algorithm>
#include <numeric>
#include <vector>

#include <etl/algorithm.hpp>
#include <etl/iterator.hpp>
#include <etl/numeric.hpp>
#include <etl/vector.hpp>

using namespace vh;
using V = std::vector<int>;

static int keyof(int v) { return v >= 0 ? v / 16 : -((-v + 15) / 16); }   // floor division
// every range sits between guard cells: a functor that is ever handed a guard value was applied to something
// outside the range -> the impl leg ends in the token `oob`
static bool g_oob = false;
static inline void seen(int v) { if (v == -777777 || v == -888888) { g_oob = true; } }
static bool pred_of(int id, int v)
{
    seen(v);
    switch (id) {
    case 0: return (keyof(v) % 2) == 0;
    case 1: return keyof(v) == 1;
    case 2: return keyof(v) < 2;
    case 3: return true;
    default: return false;
    }
}
static int mod3(int k) { return ((k % 3) + 3) % 3; }
static bool cmp_of(int id, int a, int b)
{
    seen(a); seen(b);
    switch (id) {
    case 0: return keyof(a) < keyof(b);
    case 1: return keyof(b) < keyof(a);
    case 3: return a < b;   // the comparator of the overloads WITHOUT a comparator argument (etl::less)
    default: return mod3(keyof(a)) < mod3(keyof(b));
    }
}
static bool eqv_of(int id, int a, int b)
{
    seen(a); seen(b);
    switch (id) {
    case 0: return keyof(a) == keyof(b);
    case 1: return a == b;
    default: return mod3(keyof(a)) == mod3(keyof(b));
    }
}
static int fun1_of(int id, int a) { seen(a); return id == 0 ? a + 16 : 2 * a; }
static int fun2_of(int id, int a, int b) { seen(a); seen(b); return id == 0 ? a + b : a - b; }

static V tov(std::vector<i64> const& l) { return V(l.begin(), l.end()); }
static constexpr int GUARD  = -777777;
static constexpr int SGUARD = -888888;   // guard cells of SOURCE ranges: an over-read shows up in the destination

// exact-size heap array with guard cells on both sides
struct Buf {
    V store;
    std::size_t n;
    int g = GUARD;
    explicit Buf(V const& v, int guard = GUARD) : store(v.size() + 2, guard), n(v.size()), g(guard) { std::copy(v.begin(), v.end(), store.begin() + 1); }
    explicit Buf(std::size_t len) : store(len + 2, GUARD), n(len) { }
    int* b() { return store.data() + 1; }
    int* e() { return store.data() + 1 + n; }
    bool guards_ok() const { return store.front() == g && store.back() == g; }
    // a destination buffer starts as all-GUARD: nothing behind position r may have been written
    bool tail_untouched(std::ptrdiff_t r) const
    {
        for (std::size_t i = 1 + static_cast<std::size_t>(r < 0 ? 0 : r); i < 1 + n; ++i) { if (store[i] != GUARD) { return false; } }
        return true;
    }
    V vec() const { return V(store.begin() + 1, store.begin() + 1 + static_cast<std::ptrdiff_t>(n)); }
};

static void put(Out& o, V const& v) { o.list(v); }
static void put_prefix(Out& o, int const* b, std::ptrdiff_t k)
{
    o.num(k);
    for (std::ptrdiff_t i = 0; i < k; ++i) { o.num(b[i]); }
}
static void guard_tok(Out& o, Buf const& b) { if (!b.guards_ok()) { o.tok("GUARD-HIT"); } }

static bool is_perm(V a, V b) { std::sort(a.begin(), a.end()); std::sort(b.begin(), b.end()); return a == b; }

// ---- iterator flavours of the copying family: op suffix "_s<k>d<k>" --------------------------------------
//   source k: 0 pointer, 1 input wrapper, 2 forward wrapper, 3 bidirectional wrapper
//   dest   k: 0 pointer, 1 output-iterator wrapper (write-only proxy), 2 etl::back_insert_iterator into a
//             static_vector, 3 forward/bidirectional wrapper (for algorithms that read or decrement the destination)
using InIt = WrapIt<int, etl::input_iterator_tag>;
struct OutW {
    using iterator_category = etl::output_iterator_tag;
    using value_type        = void;
    using difference_type   = etl::ptrdiff_t;
    using pointer           = void;
    using reference         = void;
    int* p{nullptr};
    struct Proxy {
        int* q;
        void operator=(int v) const { *q = v; }
    };
    auto operator*() const -> Proxy { return Proxy{p}; }
    auto operator++() -> OutW& { ++p; return *this; }
    auto operator++(int) -> OutW { auto t = *this; ++p; return t; }
};
using SVec = etl::static_vector<int, 64>;

static bool split_flavour(std::string& op, int& sk, int& dk)
{
    auto n = op.size();
    sk = dk = 0;
    if (n > 5 && op[n - 5] == '_' && op[n - 4] == 's' && op[n - 2] == 'd' && op[n - 3] >= '0' && op[n - 3] <= '3' && op[n - 1] >= '0'
        && op[n - 1] <= '3') {
        sk = op[n - 3] - '0';
        dk = op[n - 1] - '0';
        op.resize(n - 5);
        return true;
    }
    return false;
}
static bool strip_suffix(std::string& op, char const* suf)
{
    std::string s = suf;
    if (op.size() > s.size() && op.compare(op.size() - s.size(), s.size(), s) == 0) { op.resize(op.size() - s.size()); return true; }
    return false;
}

// M = bit mask of the source kinds the algorithm compiles with; f(first, last) must not return a source iterator
template <unsigned M, typename F>
static auto with_src(int sk, int* b, int* e, F f)
{
    if constexpr ((M & 2U) != 0) { if (sk == 1) { return f(InIt(b), InIt(e)); } }
    if constexpr ((M & 4U) != 0) { if (sk == 2) { return f(FwdIt<int>(b), FwdIt<int>(e)); } }
    if constexpr ((M & 8U) != 0) { if (sk == 3) { return f(BidiIt<int>(b), BidiIt<int>(e)); } }
    return f(b, e);
}

static void emit_dest(Out& o, Buf& d, std::ptrdiff_t r)
{
    o.tok("ok"); put_prefix(o, d.b(), r); guard_tok(o, d);
    if (!d.tail_untouched(r)) { o.tok("WROTE-PAST-RETURN"); }
}

// f(dest) returns the destination iterator behind the last element written
template <unsigned M, typename F>
static void with_dest(int dk, Out& o, std::size_t cap, F f)
{
    if constexpr ((M & 4U) != 0) {
        if (dk == 2) {
            SVec vec;
            (void)f(etl::back_inserter(vec));
            o.tok("ok"); o.num(static_cast<i64>(vec.size()));
            for (auto x : vec) { o.num(x); }
            return;
        }
    }
    Buf d(cap);
    if constexpr ((M & 2U) != 0) { if (dk == 1) { auto r = f(OutW{d.b()}).p - d.b(); emit_dest(o, d, r); return; } }
    if constexpr ((M & 8U) != 0) { if (dk == 3) { auto r = f(FwdIt<int>(d.b())).p - d.b(); emit_dest(o, d, r); return; } }
    auto r = f(d.b()) - d.b();
    emit_dest(o, d, r);
}
static void src_tok(Out& o, Buf const& s, V const& v) { if (s.vec() != v || !s.guards_ok()) { o.tok("SOURCE-MODIFIED"); } }

// ---- result type of the predicates / comparators: op suffix "_t<k>" ------------------------------------------
//   (none) bool; _t1 int with truthy value 2 (a masked bit); _t2 int, truthy value -1; _t3 int, truthy value 4096 (lost by a
//   narrowing to 8 bits); _t4 a class type contextually convertible to bool (through operator int; in the build xbool: explicit operator bool only).
//   [algorithms.requirements]: the algorithm may use the result of a predicate only through its conversion to bool.
static int g_tv = 2;
struct Truthy {
    int v;
#ifdef TRUTH_EXPLICIT
    explicit operator bool() const { return v != 0; }   // build "xbool": every use that is not a contextual conversion fails to compile
#else
    operator int() const { return v; }                  // contextually convertible to bool through int; arithmetic on it shows at run time
#endif
};
struct TPBool { static bool of(bool b) { return b; } };
struct TPInt { static int of(bool b) { return b ? g_tv : 0; } };
struct TPCls { static Truthy of(bool b) { return Truthy{b ? g_tv : 0}; } };

template <typename TP>
static bool run_case_inner(std::string const& op_in, Toks& in, Out& impl, Out& ref);
static bool run_case_mv(std::string op, Toks& in, Out& impl, Out& ref);
static bool run_case_sw(std::string op, Toks& in, Out& impl, Out& ref);
bool vh::run_case(std::string const& op_in, Toks& in, Out& impl, Out& ref)
{
    g_oob = false;
    std::string op = op_in;
    int tk = 0;
    auto n = op.size();
    if (n > 3 && op[n - 3] == '_' && op[n - 2] == 't' && op[n - 1] >= '1' && op[n - 1] <= '4') { tk = op[n - 1] - '0'; op.resize(n - 3); }
    bool r;
    std::string swop = op;
    bool swfull = strip_suffix(swop, "_full");
    if (tk == 0 && strip_suffix(swop, "_sw")) { r = run_case_sw(swop + (swfull ? "_full" : ""), in, impl, ref); }
    else if (op.find("_mv") != std::string::npos) { r = tk == 0 && run_case_mv(op, in, impl, ref); }
    else if (tk == 0) { r = run_case_inner<TPBool>(op, in, impl, ref); }
    else if (tk == 4) { g_tv = 2; r = run_case_inner<TPCls>(op, in, impl, ref); }
    else { g_tv = tk == 1 ? 2 : (tk == 2 ? -1 : 4096); r = run_case_inner<TPInt>(op, in, impl, ref); }
    if (g_oob && !impl.empty() && impl.s != "contract") { impl.tok("oob"); }
    return r;
}
template <typename TP>
static bool run_case_inner(std::string const& op_in, Toks& in, Out& impl, Out& ref)
{
    std::string op = op_in;
    int sk = 0;
    int dk = 0;
    split_flavour(op, sk, dk);
    // ------------------------------------------------------------------ rotate
    if (op == "rotate" || op == "rotate_fwd") {
        auto f = in.num(); auto m = in.num(); auto n = in.num();
        V v = tov(in.list());
        Buf a(v);
        guarded(impl, [&](Out& o) {
            std::ptrdiff_t r;
            if (op == "rotate") { r = etl::rotate(a.b() + f, a.b() + m, a.b() + n) - a.b(); }
            else { r = etl::rotate(FwdIt<int>(a.b() + f), FwdIt<int>(a.b() + m), FwdIt<int>(a.b() + n)).p - a.b(); }
            o.tok("ok").num(r); put(o, a.vec()); guard_tok(o, a);
        });
        V s = v;
        auto r = std::rotate(s.begin() + f, s.begin() + m, s.begin() + n) - s.begin();
        ref.tok("ok").num(r); put(ref, s);
        return true;
    }
    if (op == "reverse_ra" || op == "reverse_bidi") {
        auto f = in.num(); auto n = in.num();
        V v = tov(in.list());
        Buf a(v);
        guarded(impl, [&](Out& o) {
            if (op == "reverse_ra") { etl::reverse(a.b() + f, a.b() + n); }
            else { etl::reverse(BidiIt<int>(a.b() + f), BidiIt<int>(a.b() + n)); }
            o.tok("ok"); put(o, a.vec()); guard_tok(o, a);
        });
        V s = v; std::reverse(s.begin() + f, s.begin() + n);
        ref.tok("ok"); put(ref, s);
        return true;
    }
    if (op == "swap_ranges") {
        V v1 = tov(in.list()); V v2 = tov(in.list());
        Buf a(v1), b(v2);
        guarded(impl, [&](Out& o) {
            auto r = etl::swap_ranges(a.b(), a.e(), b.b()) - b.b();
            o.tok("ok").num(r); put(o, a.vec()); put(o, b.vec()); guard_tok(o, a); guard_tok(o, b);
        });
        V s1 = v1, s2 = v2;
        auto r = std::swap_ranges(s1.begin(), s1.end(), s2.begin()) - s2.begin();
        ref.tok("ok").num(r); put(ref, s1); put(ref, s2);
        return true;
    }
    // ------------------------------------------------------------------ remove / unique / partition
    if (op == "remove_if" || op == "remove_if_full" || op == "remove" || op == "remove_fwd") {
        auto id = static_cast<int>(in.num());
        V v = tov(in.list());
        Buf a(v);
        bool full = op == "remove_if_full";
        guarded(impl, [&](Out& o) {
            std::ptrdiff_t r;
            if (op == "remove") { r = etl::remove(a.b(), a.e(), id) - a.b(); }
            else if (op == "remove_fwd") { r = etl::remove_if(FwdIt<int>(a.b()), FwdIt<int>(a.e()), [&](int x) { return TP::of(pred_of(id, x)); }).p - a.b(); }
            else { r = etl::remove_if(a.b(), a.e(), [&](int x) { return TP::of(pred_of(id, x)); }) - a.b(); }
            o.tok("ok");
            if (full) { o.num(r); put(o, a.vec()); } else { put_prefix(o, a.b(), r); }
            guard_tok(o, a);
        });
        if (!full) {
            V s = v;
            std::ptrdiff_t r;
            if (op == "remove") { r = std::remove(s.begin(), s.end(), id) - s.begin(); }
            else { r = std::remove_if(s.begin(), s.end(), [&](int x) { return TP::of(pred_of(id, x)); }) - s.begin(); }
            ref.tok("ok"); put_prefix(ref, s.data(), r);
        }
        return true;
    }
    if (op == "unique" || op == "unique_full" || op == "unique_fwd") {
        auto id = static_cast<int>(in.num());
        V v = tov(in.list());
        Buf a(v);
        bool full = op == "unique_full";
        guarded(impl, [&](Out& o) {
            std::ptrdiff_t r;
            if (op == "unique_fwd") { r = etl::unique(FwdIt<int>(a.b()), FwdIt<int>(a.e()), [&](int x, int y) { return TP::of(eqv_of(id, x, y)); }).p - a.b(); }
            else if (id == 1) { r = etl::unique(a.b(), a.e()) - a.b(); }
            else { r = etl::unique(a.b(), a.e(), [&](int x, int y) { return TP::of(eqv_of(id, x, y)); }) - a.b(); }
            o.tok("ok");
            if (full) { o.num(r); put(o, a.vec()); } else { put_prefix(o, a.b(), r); }
            guard_tok(o, a);
        });
        if (!full) {
            V s = v;
            auto r = std::unique(s.begin(), s.end(), [&](int x, int y) { return TP::of(eqv_of(id, x, y)); }) - s.begin();
            ref.tok("ok"); put_prefix(ref, s.data(), r);
        }
        return true;
    }
    if (op == "partition" || op == "partition_full" || op == "partition_fwd") {
        auto id = static_cast<int>(in.num());
        V v = tov(in.list());
        Buf a(v);
        bool full = op == "partition_full";
        auto p = [&](int x) { return TP::of(pred_of(id, x)); };
        guarded(impl, [&](Out& o) {
            std::ptrdiff_t r;
            if (op == "partition_fwd") { r = etl::partition(FwdIt<int>(a.b()), FwdIt<int>(a.e()), p).p - a.b(); }
            else { r = etl::partition(a.b(), a.e(), p) - a.b(); }
            o.tok("ok").num(r);
            if (full) { put(o, a.vec()); }
            else {
                V res = a.vec();
                o.b(std::all_of(res.begin(), res.begin() + r, p) && std::none_of(res.begin() + r, res.end(), p)).b(is_perm(res, v));
            }
            guard_tok(o, a);
        });
        if (!full) {
            V s = v;
            auto r = std::partition(s.begin(), s.end(), p) - s.begin();
            ref.tok("ok").num(r).b(std::all_of(s.begin(), s.begin() + r, p) && std::none_of(s.begin() + r, s.end(), p)).b(is_perm(s, v));
        }
        return true;
    }
    if (op == "stable_partition") {
        auto id = static_cast<int>(in.num());
        V v = tov(in.list());
        Buf a(v);
        auto p = [&](int x) { return TP::of(pred_of(id, x)); };
        guarded(impl, [&](Out& o) {
            auto r = etl::stable_partition(a.b(), a.e(), p) - a.b();
            o.tok("ok").num(r); put(o, a.vec()); guard_tok(o, a);
        });
        V s = v;
        auto r = std::stable_partition(s.begin(), s.end(), p) - s.begin();
        ref.tok("ok").num(r); put(ref, s);
        return true;
    }
    // ------------------------------------------------------------------ shift
    if (op == "shift_left" || op == "shift_left_full" || op == "shift_left_fwd" || op == "shift_right" || op == "shift_right_full"
        || op == "shift_right_bidi") {
        auto n = in.num();
        V v = tov(in.list());
        Buf a(v);
        bool left = op.rfind("shift_left", 0) == 0;
        bool full = op.size() > 5 && op.substr(op.size() - 5) == "_full";
        auto len = static_cast<i64>(v.size());
        guarded(impl, [&](Out& o) {
            std::ptrdiff_t r;
            if (op == "shift_left_fwd") { r = etl::shift_left(FwdIt<int>(a.b()), FwdIt<int>(a.e()), n).p - a.b(); }
            else if (op == "shift_right_bidi") { r = etl::shift_right(BidiIt<int>(a.b()), BidiIt<int>(a.e()), n).p - a.b(); }
            else if (left) { r = etl::shift_left(a.b(), a.e(), n) - a.b(); }
            else { r = etl::shift_right(a.b(), a.e(), n) - a.b(); }
            o.tok("ok").num(r);
            if (full) { put(o, a.vec()); }
            else if (left) { put_prefix(o, a.b(), r); }
            else { put_prefix(o, a.b() + r, len - r); }
            guard_tok(o, a);
        });
        if (!full && n >= 0) {
            V s = v;
            if (left) { auto r = std::shift_left(s.begin(), s.end(), n) - s.begin(); ref.tok("ok").num(r); put_prefix(ref, s.data(), r); }
            else { auto r = std::shift_right(s.begin(), s.end(), n) - s.begin(); ref.tok("ok").num(r); put_prefix(ref, s.data() + r, len - r); }
        }
        return true;
    }
    // ------------------------------------------------------------------ inplace_merge + sorts
    if (op == "inplace_merge") {
        auto id = static_cast<int>(in.num());
        auto mid = in.num();
        V v = tov(in.list());
        Buf a(v);
        auto c = [&](int x, int y) { return TP::of(cmp_of(id, x, y)); };
        guarded(impl, [&](Out& o) {
            if (id == 3) { etl::inplace_merge(a.b(), a.b() + mid, a.e()); } else { etl::inplace_merge(a.b(), a.b() + mid, a.e(), c); }
            o.tok("ok"); put(o, a.vec()); guard_tok(o, a);
        });
        V s = v; std::inplace_merge(s.begin(), s.begin() + mid, s.end(), c);
        ref.tok("ok"); put(ref, s);
        return true;
    }
    {
        // <sort>[_rev|_bidi][_full] <cid> [k] <list>
        //   _rev : the algorithm runs on etl::reverse_iterator<int*> over the array; all legs show the REVERSED view
        //   _bidi: bidirectional wrapper (gnome_sort only needs ++/--)
        //   cid 3: the overload WITHOUT a comparator is called (etl::less)
        static char const* sorts[] = {"sort", "stable_sort", "insertion_sort", "gnome_sort", "bubble_sort", "exchange_sort", "merge_sort",
            "nth_element", "partial_sort"};
        std::string base = op;
        bool full = strip_suffix(base, "_full");
        bool rev  = strip_suffix(base, "_rev");
        bool bidi = !rev && strip_suffix(base, "_bidi");
        for (auto* name : sorts) {
            std::string nm = name;
            if (base != nm) { continue; }
            if (bidi && nm != "gnome_sort") { return false; }
            auto id = static_cast<int>(in.num());
            i64 k = 0;
            if (nm == "nth_element" || nm == "partial_sort") { k = in.num(); }
            V v = tov(in.list());
            Buf a(v);
            auto c = [&](int x, int y) { return TP::of(cmp_of(id, x, y)); };
            bool stable = nm == "stable_sort";
            bool dflt = id == 3;
            auto call = [&](auto b, auto e) {
                if (nm == "gnome_sort") { if (dflt) { etl::gnome_sort(b, e); } else { etl::gnome_sort(b, e, c); } return; }
                if constexpr (requires { b + 1; }) {
                    if (nm == "sort") { if (dflt) { etl::sort(b, e); } else { etl::sort(b, e, c); } }
                    else if (nm == "stable_sort") { if (dflt) { etl::stable_sort(b, e); } else { etl::stable_sort(b, e, c); } }
                    else if (nm == "insertion_sort") { if (dflt) { etl::insertion_sort(b, e); } else { etl::insertion_sort(b, e, c); } }
                    else if (nm == "bubble_sort") { if (dflt) { etl::bubble_sort(b, e); } else { etl::bubble_sort(b, e, c); } }
                    else if (nm == "exchange_sort") { if (dflt) { etl::exchange_sort(b, e); } else { etl::exchange_sort(b, e, c); } }
                    else if (nm == "merge_sort") { if (dflt) { etl::merge_sort(b, e); } else { etl::merge_sort(b, e, c); } }
                    else if (nm == "nth_element") { if (dflt) { etl::nth_element(b, b + k, e); } else { etl::nth_element(b, b + k, e, c); } }
                    else { if (dflt) { etl::partial_sort(b, b + k, e); } else { etl::partial_sort(b, b + k, e, c); } }
                }
            };
            guarded(impl, [&](Out& o) {
                if (rev) { call(etl::reverse_iterator<int*>(a.e()), etl::reverse_iterator<int*>(a.b())); }
                else if (bidi) { call(BidiIt<int>(a.b()), BidiIt<int>(a.e())); }
                else { call(a.b(), a.e()); }
                V r = a.vec();
                V v0 = v;
                if (rev) { std::reverse(r.begin(), r.end()); std::reverse(v0.begin(), v0.end()); }
                o.tok("ok");
                if (full || stable) { put(o, r); }
                else if (nm == "nth_element") {
                    // [alg.nth.element]: nothing before nth is greater than anything from nth on
                    bool okp = true;
                    for (i64 i = 0; i < k && okp; ++i) { for (i64 j = k; j < static_cast<i64>(r.size()); ++j) { if (c(r[j], r[i])) { okp = false; break; } } }
                    // ... and *nth is the element that a full sort would put there (up to equivalence)
                    if (okp && k < static_cast<i64>(r.size())) {
                        V s = v0; std::sort(s.begin(), s.end(), c);
                        okp = !c(s[k], r[k]) && !c(r[k], s[k]);
                    }
                    o.b(okp).b(is_perm(r, v0));
                } else if (nm == "partial_sort") {
                    bool okp = std::is_sorted(r.begin(), r.begin() + k, c);
                    for (i64 i = 0; i < k && okp; ++i) { for (i64 j = k; j < static_cast<i64>(r.size()); ++j) { if (c(r[j], r[i])) { okp = false; break; } } }
                    o.b(okp).b(is_perm(r, v0));
                } else { o.b(std::is_sorted(r.begin(), r.end(), c)).b(is_perm(r, v0)); }
                guard_tok(o, a);
            });
            if (!full) {
                V s = v;
                if (rev) { std::reverse(s.begin(), s.end()); }
                ref.tok("ok");
                if (stable) { std::stable_sort(s.begin(), s.end(), c); put(ref, s); }
                else { ref.b(true).b(true); }
            }
            return true;
        }
    }
    // ------------------------------------------------------------------ algorithms on reverse iterators / other wrappers
    if (op == "reverse_rev") {
        // etl::reverse on reverse_iterator<int*> (random-access path: uses operator< of reverse_iterator)
        auto f = in.num(); auto n = in.num();
        V v = tov(in.list());
        Buf a(v);
        guarded(impl, [&](Out& o) {
            etl::reverse(etl::reverse_iterator<int*>(a.b() + n), etl::reverse_iterator<int*>(a.b() + f));
            o.tok("ok"); put(o, a.vec()); guard_tok(o, a);
        });
        V s = v; std::reverse(s.begin() + f, s.begin() + n);
        ref.tok("ok"); put(ref, s);
        return true;
    }
    if (op == "revit_cmp") {
        // relational operators, difference, indexing of reverse_iterator<int*> at reversed positions i, j of an array of length n
        auto n = in.num(); auto i = in.num(); auto j = in.num();
        V v(static_cast<std::size_t>(n) + 5, 0);       // two spare cells on each side: ++/-- at the ends stay inside
        for (std::size_t q = 0; q < v.size(); ++q) { v[q] = static_cast<int>(98 + q); }
        int* base = v.data() + 2;
        auto mk  = [&](i64 q) { return etl::reverse_iterator<int*>(base + (n - q)); };
        auto mks = [&](i64 q) { return std::reverse_iterator<int*>(base + (n - q)); };
        guarded(impl, [&](Out& o) {
            auto x = mk(i); auto y = mk(j);
            o.tok("ok").b(x == y).b(x != y).b(x < y).b(x <= y).b(x > y).b(x >= y).num(y - x).num((x + (j - i)).base() - base)
                .num((y - (j - i)).base() - base).num(((j - i) + x).base() - base);
            if (i < n) { o.num(*x).num(x[0]); } else { o.num(-1).num(-1); }
            if (i < j) { o.num(x[j - i - 1]); } else { o.num(-1); }
            auto z = x; z += (j - i); o.b(z == y); z -= (j - i); o.b(z == x);
            // ++ / -- (pre and post), converting construction / assignment, make_reverse_iterator
            auto w = x; auto w0 = w++; o.num(w0.base() - base).num(w.base() - base);
            auto w1 = ++w; o.num(w1.base() - base).num(w.base() - base);
            auto w2 = w--; o.num(w2.base() - base).num(w.base() - base);
            auto w3 = --w; o.num(w3.base() - base).num(w.base() - base);
            etl::reverse_iterator<int const*> cx(x); etl::reverse_iterator<int const*> cy; cy = y;
            o.num(cx.base() - base).num(cy.base() - base).b(cx == x).b(cy != x).num(etl::make_reverse_iterator(base + (n - i)).base() - base);
            if (i < n) { o.num(*x.operator->()); } else { o.num(-1); }
        });
        {
            auto x = mks(i); auto y = mks(j);
            ref.tok("ok").b(x == y).b(x != y).b(x < y).b(x <= y).b(x > y).b(x >= y).num(y - x).num((x + (j - i)).base() - base)
                .num((y - (j - i)).base() - base).num(((j - i) + x).base() - base);
            if (i < n) { ref.num(*x).num(x[0]); } else { ref.num(-1).num(-1); }
            if (i < j) { ref.num(x[j - i - 1]); } else { ref.num(-1); }
            auto z = x; z += (j - i); ref.b(z == y); z -= (j - i); ref.b(z == x);
            auto w = x; auto w0 = w++; ref.num(w0.base() - base).num(w.base() - base);
            auto w1 = ++w; ref.num(w1.base() - base).num(w.base() - base);
            auto w2 = w--; ref.num(w2.base() - base).num(w.base() - base);
            auto w3 = --w; ref.num(w3.base() - base).num(w.base() - base);
            std::reverse_iterator<int const*> cx(x); std::reverse_iterator<int const*> cy; cy = y;
            ref.num(cx.base() - base).num(cy.base() - base).b(cx == x).b(cy != x).num(std::make_reverse_iterator(base + (n - i)).base() - base);
            if (i < n) { ref.num(*x.operator->()); } else { ref.num(-1); }
        }
        return true;
    }
    if (op == "iter_fn") {
        // etl::next / prev / advance / distance per iterator category: <cat> <len> <pos> <n>
        auto cat = in.num(); auto len = in.num(); auto pos = in.num(); auto n = in.num();
        V v(static_cast<std::size_t>(len) + 1, 0);
        int* base = v.data();
        auto run = [&](Out& o, auto mk, auto unwrap) {
            auto it = mk(base + pos);
            o.tok("ok");
            o.num(unwrap(etl::next(it, n)) - base);
            if (n == 1) { o.num(unwrap(etl::next(it)) - base); } else { o.num(-1); }
            auto a2 = it; etl::advance(a2, n); o.num(unwrap(a2) - base);
            o.num(etl::distance(it, mk(base + pos + n)));
        };
        auto run_std = [&](Out& o) {
            int* it = base + pos;
            o.tok("ok");
            o.num(std::next(it, n) - base);
            if (n == 1) { o.num(std::next(it) - base); } else { o.num(-1); }
            auto a2 = it; std::advance(a2, n); o.num(a2 - base);
            o.num(std::distance(it, base + pos + n));
        };
        // bidirectional and better: negative n and prev
        auto runb = [&](Out& o, auto mk, auto unwrap) {
            auto it = mk(base + pos);
            o.num(unwrap(etl::prev(it, -n)) - base);
            if (n == -1) { o.num(unwrap(etl::prev(it)) - base); } else { o.num(-1); }
            auto a2 = it; etl::advance(a2, n); o.num(unwrap(a2) - base);
        };
        auto runb_std = [&](Out& o) {
            int* it = base + pos;
            o.num(std::prev(it, -n) - base);
            if (n == -1) { o.num(std::prev(it) - base); } else { o.num(-1); }
            auto a2 = it; std::advance(a2, n); o.num(a2 - base);
        };
        auto idp = [](int* p) { return p; };
        auto unp = [](int* p) { return p; };
        auto unw = [](auto w) { return w.p; };
        bool neg = n < 0;
        guarded(impl, [&](Out& o) {
            if (cat == 0) { if (neg) { o.tok("ok"); } else { run(o, idp, unp); } runb(o, idp, unp); }
            else if (cat == 1) { run(o, [](int* p) { return InIt(p); }, unw); }
            else if (cat == 2) { run(o, [](int* p) { return FwdIt<int>(p); }, unw); }
            else { if (neg) { o.tok("ok"); } else { run(o, [](int* p) { return BidiIt<int>(p); }, unw); } runb(o, [](int* p) { return BidiIt<int>(p); }, unw); }
        });
        // reference: the same calls of namespace std on the raw pointer (positions do not depend on the category)
        if (neg) { ref.tok("ok"); } else { run_std(ref); }
        if (cat == 0 || cat == 3) { runb_std(ref); }
        return true;
    }
    if (op == "swap_array") {
        // _utility/swap.hpp: the overload for built-in arrays (element-wise), three elements each
        V v1 = tov(in.list()); V v2 = tov(in.list());
        int a[3] = {v1[0], v1[1], v1[2]}; int b[3] = {v2[0], v2[1], v2[2]};
        int c[3] = {v1[0], v1[1], v1[2]}; int d[3] = {v2[0], v2[1], v2[2]};
        guarded(impl, [&](Out& o) { etl::swap(a, b); o.tok("ok").num(3); o.list(a, a + 3); o.list(b, b + 3); });
        std::swap(c, d);
        ref.tok("ok").num(3); ref.list(c, c + 3); ref.list(d, d + 3);
        return true;
    }
    if (op == "swap_ranges_fwd") {
        V v1 = tov(in.list()); V v2 = tov(in.list());
        Buf a(v1), b(v2);
        guarded(impl, [&](Out& o) {
            auto r = etl::swap_ranges(FwdIt<int>(a.b()), FwdIt<int>(a.e()), FwdIt<int>(b.b())).p - b.b();
            o.tok("ok").num(r); put(o, a.vec()); put(o, b.vec()); guard_tok(o, a); guard_tok(o, b);
        });
        V s1 = v1, s2 = v2;
        auto r = std::swap_ranges(s1.begin(), s1.end(), s2.begin()) - s2.begin();
        ref.tok("ok").num(r); put(ref, s1); put(ref, s2);
        return true;
    }
    // ------------------------------------------------------------------ overlapping copies inside ONE array
    if (op == "copy_ov" || op == "move_ov" || op == "copy_backward_ov" || op == "move_backward_ov") {
        // forward: <first> <last> <dest>   (dest outside [first,last));  backward: <first> <last> <dLast>  (dLast outside (first,last])
        auto f = in.num(); auto l = in.num(); auto d = in.num();
        V v = tov(in.list());
        Buf a(v);
        guarded(impl, [&](Out& o) {
            std::ptrdiff_t r;
            if (op == "copy_ov") { r = etl::copy(a.b() + f, a.b() + l, a.b() + d) - a.b(); }
            else if (op == "move_ov") { r = etl::move(a.b() + f, a.b() + l, a.b() + d) - a.b(); }
            else if (op == "copy_backward_ov") { r = etl::copy_backward(a.b() + f, a.b() + l, a.b() + d) - a.b(); }
            else { r = etl::move_backward(a.b() + f, a.b() + l, a.b() + d) - a.b(); }
            o.tok("ok").num(r); put(o, a.vec()); guard_tok(o, a);
        });
        V s = v;
        std::ptrdiff_t r;
        if (op == "copy_ov" || op == "move_ov") { r = std::copy(s.begin() + f, s.begin() + l, s.begin() + d) - s.begin(); }
        else { r = std::copy_backward(s.begin() + f, s.begin() + l, s.begin() + d) - s.begin(); }
        ref.tok("ok").num(r); put(ref, s);
        return true;
    }
    // ------------------------------------------------------------------ copying family (destination = fresh guarded buffer)
    if (op == "copy" || op == "move" || op == "copy_in" || op == "reverse_copy") {
        V v = tov(in.list());
        Buf s(v, SGUARD);
        if (op == "copy_in") { sk = 1; }
        guarded(impl, [&](Out& o) {
            if (op == "reverse_copy") {
                with_dest<2U | 4U>(dk, o, v.size(), [&](auto d) { return with_src<8U>(sk, s.b(), s.e(), [&](auto b, auto e) { return etl::reverse_copy(b, e, d); }); });
            } else if (op == "move") {
                with_dest<2U | 4U>(dk, o, v.size(), [&](auto d) { return with_src<2U | 4U | 8U>(sk, s.b(), s.e(), [&](auto b, auto e) { return etl::move(b, e, d); }); });
            } else {
                with_dest<2U | 4U>(dk, o, v.size(), [&](auto d) { return with_src<2U | 4U | 8U>(sk, s.b(), s.e(), [&](auto b, auto e) { return etl::copy(b, e, d); }); });
            }
            src_tok(o, s, v);
        });
        V out(v.size());
        if (op == "reverse_copy") { std::reverse_copy(v.begin(), v.end(), out.begin()); } else { out = v; }
        ref.tok("ok"); put_prefix(ref, out.data(), static_cast<std::ptrdiff_t>(out.size()));
        return true;
    }
    if (op == "copy_backward" || op == "move_backward") {
        V v = tov(in.list());
        Buf s(v, SGUARD), d(v.size());
        guarded(impl, [&](Out& o) {
            std::ptrdiff_t r;
            bool cb = op == "copy_backward";
            if (sk == 3 && dk == 3) {
                BidiIt<int> b(s.b()), e(s.e()), de(d.e());
                r = d.e() - (cb ? etl::copy_backward(b, e, de) : etl::move_backward(b, e, de)).p;
            } else if (sk == 3) {
                BidiIt<int> b(s.b()), e(s.e());
                r = d.e() - (cb ? etl::copy_backward(b, e, d.e()) : etl::move_backward(b, e, d.e()));
            } else if (dk == 3) {
                BidiIt<int> de(d.e());
                r = d.e() - (cb ? etl::copy_backward(s.b(), s.e(), de) : etl::move_backward(s.b(), s.e(), de)).p;
            } else {
                r = d.e() - (cb ? etl::copy_backward(s.b(), s.e(), d.e()) : etl::move_backward(s.b(), s.e(), d.e()));
            }
            // the destination is filled from its end: [n - r, n)
            o.tok("ok"); put_prefix(o, d.e() - r, r); guard_tok(o, d);
            for (std::ptrdiff_t i = 0; i < static_cast<std::ptrdiff_t>(v.size()) - r; ++i) { if (d.b()[i] != GUARD) { o.tok("WROTE-PAST-RETURN"); break; } }
            src_tok(o, s, v);
        });
        ref.tok("ok"); put_prefix(ref, v.data(), static_cast<std::ptrdiff_t>(v.size()));
        return true;
    }
    if (op == "copy_n") {
        auto n = in.num();
        V v = tov(in.list());
        Buf s(v, SGUARD);
        guarded(impl, [&](Out& o) {
            with_dest<2U | 4U>(dk, o, v.size(), [&](auto d) {
                if (sk == 1) { return etl::copy_n(InIt(s.b()), n, d); }
                return etl::copy_n(s.b(), n, d);
            });
            src_tok(o, s, v);
        });
        V out(v.size());
        auto r = std::copy_n(v.begin(), n, out.begin()) - out.begin();
        ref.tok("ok"); put_prefix(ref, out.data(), r);
        return true;
    }
    if (op == "copy_if" || op == "remove_copy_if" || op == "remove_copy") {
        auto id = static_cast<int>(in.num());
        V v = tov(in.list());
        Buf s(v, SGUARD);
        auto p = [&](int x) { return TP::of(pred_of(id, x)); };
        guarded(impl, [&](Out& o) {
            with_dest<2U | 4U>(dk, o, v.size(), [&](auto d) {
                return with_src<2U | 4U>(sk, s.b(), s.e(), [&](auto b, auto e) {
                    if (op == "copy_if") { return etl::copy_if(b, e, d, p); }
                    if (op == "remove_copy_if") { return etl::remove_copy_if(b, e, d, p); }
                    return etl::remove_copy(b, e, d, id);
                });
            });
            src_tok(o, s, v);
        });
        V out(v.size());
        std::ptrdiff_t r;
        if (op == "copy_if") { r = std::copy_if(v.begin(), v.end(), out.begin(), p) - out.begin(); }
        else if (op == "remove_copy_if") { r = std::remove_copy_if(v.begin(), v.end(), out.begin(), p) - out.begin(); }
        else { r = std::remove_copy(v.begin(), v.end(), out.begin(), id) - out.begin(); }
        ref.tok("ok"); put_prefix(ref, out.data(), r);
        return true;
    }
    if (op == "fill" || op == "fill_n" || op == "generate" || op == "generate_n") {
        auto n = in.num(); auto val = static_cast<int>(in.num()); auto len = in.num();
        V out(static_cast<std::size_t>(len), GUARD);
        int g = val; int g2 = val;
        guarded(impl, [&](Out& o) {
            if (op == "fill" || op == "generate") {
                Buf d(static_cast<std::size_t>(len));
                if (op == "fill") { if (sk == 2) { etl::fill(FwdIt<int>(d.b()), FwdIt<int>(d.e()), val); } else { etl::fill(d.b(), d.e(), val); } }
                else { if (sk == 2) { etl::generate(FwdIt<int>(d.b()), FwdIt<int>(d.e()), [&] { return g++; }); } else { etl::generate(d.b(), d.e(), [&] { return g++; }); } }
                emit_dest(o, d, len);
            } else if (op == "fill_n") {
                with_dest<2U | 4U>(dk, o, static_cast<std::size_t>(len), [&](auto d) { return etl::fill_n(d, n, val); });
            } else {
                with_dest<2U | 4U>(dk, o, static_cast<std::size_t>(len), [&](auto d) { return etl::generate_n(d, n, [&] { return g++; }); });
            }
        });
        std::ptrdiff_t r = len;
        if (op == "fill") { std::fill(out.begin(), out.end(), val); }
        else if (op == "fill_n") { r = std::fill_n(out.begin(), n, val) - out.begin(); }
        else if (op == "generate") { std::generate(out.begin(), out.end(), [&] { return g2++; }); }
        else { r = std::generate_n(out.begin(), n, [&] { return g2++; }) - out.begin(); }
        ref.tok("ok"); put_prefix(ref, out.data(), r);
        return true;
    }
    if (op == "replace_if" || op == "replace") {
        auto id = static_cast<int>(in.num()); auto nv = static_cast<int>(in.num());
        V v = tov(in.list());
        Buf a(v);
        guarded(impl, [&](Out& o) {
            auto p = [&](int x) { return TP::of(pred_of(id, x)); };
            if (op == "replace_if") { if (sk == 2) { etl::replace_if(FwdIt<int>(a.b()), FwdIt<int>(a.e()), p, nv); } else { etl::replace_if(a.b(), a.e(), p, nv); } }
            else { if (sk == 2) { etl::replace(FwdIt<int>(a.b()), FwdIt<int>(a.e()), id, nv); } else { etl::replace(a.b(), a.e(), id, nv); } }
            o.tok("ok"); put(o, a.vec()); guard_tok(o, a);
        });
        V s = v;
        if (op == "replace_if") { std::replace_if(s.begin(), s.end(), [&](int x) { return TP::of(pred_of(id, x)); }, nv); }
        else { std::replace(s.begin(), s.end(), id, nv); }
        ref.tok("ok"); put(ref, s);
        return true;
    }
    if (op == "transform1") {
        auto id = static_cast<int>(in.num());
        V v = tov(in.list());
        Buf s(v, SGUARD);
        auto fn = [&](int x) { return fun1_of(id, x); };
        guarded(impl, [&](Out& o) {
            with_dest<2U | 4U>(dk, o, v.size(), [&](auto d) { return with_src<2U | 4U>(sk, s.b(), s.e(), [&](auto b, auto e) { return etl::transform(b, e, d, fn); }); });
            src_tok(o, s, v);
        });
        V out(v.size());
        auto r = std::transform(v.begin(), v.end(), out.begin(), fn) - out.begin();
        ref.tok("ok"); put_prefix(ref, out.data(), r);
        return true;
    }
    if (op == "transform2") {
        auto id = static_cast<int>(in.num());
        V v1 = tov(in.list()); V v2 = tov(in.list());
        Buf s1(v1, SGUARD), s2(v2, SGUARD);
        auto fn = [&](int x, int y) { return fun2_of(id, x, y); };
        guarded(impl, [&](Out& o) {
            with_dest<2U | 4U>(dk, o, v1.size(), [&](auto d) {
                if (sk == 1) { return etl::transform(InIt(s1.b()), InIt(s1.e()), InIt(s2.b()), d, fn); }
                return etl::transform(s1.b(), s1.e(), s2.b(), d, fn);
            });
            src_tok(o, s1, v1); src_tok(o, s2, v2);
        });
        V out(v1.size());
        auto r = std::transform(v1.begin(), v1.end(), v2.begin(), out.begin(), fn) - out.begin();
        ref.tok("ok"); put_prefix(ref, out.data(), r);
        return true;
    }
    if (op == "rotate_copy") {
        auto m = in.num();
        V v = tov(in.list());
        Buf s(v, SGUARD);
        guarded(impl, [&](Out& o) {
            with_dest<2U | 4U>(dk, o, v.size(), [&](auto d) {
                if (sk == 2) { return etl::rotate_copy(FwdIt<int>(s.b()), FwdIt<int>(s.b() + m), FwdIt<int>(s.e()), d); }
                return etl::rotate_copy(s.b(), s.b() + m, s.e(), d);
            });
            src_tok(o, s, v);
        });
        V out(v.size());
        auto r = std::rotate_copy(v.begin(), v.begin() + m, v.end(), out.begin()) - out.begin();
        ref.tok("ok"); put_prefix(ref, out.data(), r);
        return true;
    }
    if (op == "unique_copy") {
        auto id = static_cast<int>(in.num());
        V v = tov(in.list());
        Buf s(v, SGUARD);
        auto e = [&](int x, int y) { return TP::of(eqv_of(id, x, y)); };
        guarded(impl, [&](Out& o) {
            // etl::unique_copy reads *destination: the destination must be a forward iterator (kinds 0 and 3)
            with_dest<8U>(dk, o, v.size(), [&](auto d) {
                return with_src<2U | 4U>(sk, s.b(), s.e(), [&](auto b, auto en) {
                    if (id == 1) { return etl::unique_copy(b, en, d); }
                    return etl::unique_copy(b, en, d, e);
                });
            });
            src_tok(o, s, v);
        });
        V out(v.size());
        auto r = std::unique_copy(v.begin(), v.end(), out.begin(), e) - out.begin();
        ref.tok("ok"); put_prefix(ref, out.data(), r);
        return true;
    }
    if (op == "partition_copy") {
        auto id = static_cast<int>(in.num());
        V v = tov(in.list());
        Buf s(v, SGUARD), d1(v.size()), d2(v.size());
        auto p = [&](int x) { return TP::of(pred_of(id, x)); };
        guarded(impl, [&](Out& o) {
            o.tok("ok");
            if (dk == 2) {
                SVec a1; SVec a2;
                (void)with_src<2U | 4U>(sk, s.b(), s.e(), [&](auto b, auto e) { (void)etl::partition_copy(b, e, etl::back_inserter(a1), etl::back_inserter(a2), p); return 0; });
                o.num(static_cast<i64>(a1.size())); for (auto x : a1) { o.num(x); }
                o.num(static_cast<i64>(a2.size())); for (auto x : a2) { o.num(x); }
            } else {
                std::ptrdiff_t r1 = 0;
                std::ptrdiff_t r2 = 0;
                (void)with_src<2U | 4U>(sk, s.b(), s.e(), [&](auto b, auto e) {
                    if (dk == 1) { auto r = etl::partition_copy(b, e, OutW{d1.b()}, OutW{d2.b()}, p); r1 = r.first.p - d1.b(); r2 = r.second.p - d2.b(); }
                    else { auto r = etl::partition_copy(b, e, d1.b(), d2.b(), p); r1 = r.first - d1.b(); r2 = r.second - d2.b(); }
                    return 0;
                });
                put_prefix(o, d1.b(), r1); put_prefix(o, d2.b(), r2); guard_tok(o, d1); guard_tok(o, d2);
                if (!d1.tail_untouched(r1) || !d2.tail_untouched(r2)) { o.tok("WROTE-PAST-RETURN"); }
            }
            src_tok(o, s, v);
        });
        V o1(v.size()), o2(v.size());
        auto r = std::partition_copy(v.begin(), v.end(), o1.begin(), o2.begin(), p);
        ref.tok("ok"); put_prefix(ref, o1.data(), r.first - o1.begin()); put_prefix(ref, o2.data(), r.second - o2.begin());
        return true;
    }
    return false;
}

// ---- move-tracking element type: op suffix "_mv" (specified part only) / "_mv_full" (whole array) -------------------
// The move constructor / move assignment take the value over and MARK THE SOURCE (value MOVED), with no self test - like
// a handle or buffer owner.  A move-assignment of an element onto itself therefore destroys it, and every move the
// algorithm makes is visible afterwards: the legs show the element sequence with the moved-from marks.
// Tokens of the impl leg: SELF-MOVE k (k move assignments of a live element onto itself), COPIED k (k element copies: the
// in-place algorithms may only move / swap), A k (number of move assignments, where the moves are modelled one by one).
static constexpr int MOVED = -999;
static long g_massign  = 0;
static long g_selfmove = 0;
static long g_copies   = 0;   // [alg.*]: the in-place algorithms require only move-constructible / move-assignable / swappable elements
struct Mv {
    int v{0};
    Mv() = default;
    explicit Mv(int x) : v{x} { }
    Mv(Mv const& o) : v{o.v} { ++g_copies; }
    auto operator=(Mv const& o) -> Mv&
    {
        ++g_copies;
        v = o.v;
        return *this;
    }
    Mv(Mv&& o) noexcept : v{o.v} { o.v = MOVED; }
    auto operator=(Mv&& o) noexcept -> Mv&
    {
        ++g_massign;
        if (this == &o && v != MOVED) { ++g_selfmove; }   // a LIVE element assigned onto itself (the middle step of swap(a, a) is not)
        v   = o.v;
        o.v = MOVED;
        return *this;
    }
    friend bool operator==(Mv const& a, Mv const& b) { return a.v == b.v; }
    friend bool operator<(Mv const& a, Mv const& b) { return a.v < b.v; }
};
struct MBuf {
    std::vector<Mv> st;
    std::size_t n;
    explicit MBuf(V const& v) : st(v.size() + 2), n(v.size())
    {
        st.front().v = GUARD;
        st.back().v  = GUARD;
        for (std::size_t i = 0; i < n; ++i) { st[i + 1].v = v[i]; }
        g_massign  = 0;
        g_selfmove = 0;
        g_copies   = 0;
    }
    Mv* b() { return st.data() + 1; }
    Mv* e() { return st.data() + 1 + n; }
    bool guards_ok() const { return st.front().v == GUARD && st.back().v == GUARD; }
    V vec() const
    {
        V r(n);
        for (std::size_t i = 0; i < n; ++i) { r[i] = st[i + 1].v; }
        return r;
    }
};
static void put_range(Out& o, Mv const* b, std::ptrdiff_t k)
{
    o.num(k);
    for (std::ptrdiff_t i = 0; i < k; ++i) { o.num(b[i].v); }
}
// `count`: the number of move assignments is part of the leg (the algorithms whose moves are modelled one by one)
static void mv_tail(Out& o, MBuf const& a, bool count)
{
    if (!a.guards_ok()) { o.tok("GUARD-HIT"); }
    if (count) { o.tok("A").num(g_massign); }
    if (g_selfmove != 0) { o.tok("SELF-MOVE").num(g_selfmove); }
    if (g_copies != 0) { o.tok("COPIED").num(g_copies); }
}

// ---- element type with its OWN swap (found by argument-dependent lookup): op suffix "_sw" -------------------------------
// A slot of a fixed table: `id` belongs to the position, only the payload `v` travels when two slots are swapped
// (app::swap exchanges the payloads and counts its calls); move construction / assignment carry both members.  Where the
// standard says an algorithm "swaps" (iter_swap, swap_ranges, reverse - with the exact number of swaps) or requires only
// ValueSwappable (partition), the element type's swap must be the one used: unqualified call after `using etl::swap`.
// Tokens: `S k` = k calls of app::swap (where the number is specified), IDS-MOVED = some id left its position (the
// algorithm moved a whole element instead of swapping; shown for the algorithms that are specified / implemented by swaps
// only), COPIED k = k element copies.
namespace app {
static long g_uswaps = 0;
static long g_scopies = 0;
struct Slot {
    int id{0};
    int v{0};
    Slot() = default;
    Slot(int i, int x) : id{i}, v{x} { }
    Slot(Slot const& o) : id{o.id}, v{o.v} { ++g_scopies; }
    auto operator=(Slot const& o) -> Slot& { ++g_scopies; id = o.id; v = o.v; return *this; }
    Slot(Slot&& o) noexcept : id{o.id}, v{o.v} { }
    auto operator=(Slot&& o) noexcept -> Slot& { id = o.id; v = o.v; return *this; }
    friend bool operator==(Slot const& a, Slot const& b) { return a.v == b.v; }
    friend bool operator<(Slot const& a, Slot const& b) { return a.v < b.v; }
};
inline void swap(Slot& a, Slot& b) noexcept
{
    ++g_uswaps;
    int const t = a.v;
    a.v = b.v;
    b.v = t;
}
} // namespace app
using app::Slot;
struct SBuf {
    std::vector<Slot> st;
    std::size_t n;
    explicit SBuf(V const& v) : st(v.size() + 2), n(v.size())
    {
        for (std::size_t i = 0; i < st.size(); ++i) { st[i].id = static_cast<int>(i); }
        st.front().v = GUARD;
        st.back().v  = GUARD;
        for (std::size_t i = 0; i < n; ++i) { st[i + 1].v = v[i]; }
        app::g_uswaps  = 0;
        app::g_scopies = 0;
    }
    Slot* b() { return st.data() + 1; }
    Slot* e() { return st.data() + 1 + n; }
    bool guards_ok() const { return st.front().v == GUARD && st.back().v == GUARD; }
    bool ids_ok() const
    {
        for (std::size_t i = 0; i < st.size(); ++i) { if (st[i].id != static_cast<int>(i)) { return false; } }
        return true;
    }
    V vec() const
    {
        V r(n);
        for (std::size_t i = 0; i < n; ++i) { r[i] = st[i + 1].v; }
        return r;
    }
};
// count: the number of swaps is specified; ids: the ids must have stayed in place
static void sw_tail(Out& o, SBuf const& a, bool count, bool ids, long swaps)
{
    if (!a.guards_ok()) { o.tok("GUARD-HIT"); }
    if (count) { o.tok("S").num(swaps); }
    if (ids && !a.ids_ok()) { o.tok("IDS-MOVED"); }
    if (app::g_scopies != 0) { o.tok("COPIED").num(app::g_scopies); }
}

static bool run_case_sw(std::string op, Toks& in, Out& impl, Out& ref)
{
    bool full = strip_suffix(op, "_full");
    if (op == "iter_swap") {
        auto i = in.num(); auto j = in.num();
        V v = tov(in.list());
        SBuf a(v);
        guarded(impl, [&](Out& o) {
            etl::iter_swap(a.b() + i, a.b() + j);
            long k = app::g_uswaps;
            o.tok("ok"); put(o, a.vec()); sw_tail(o, a, true, true, k);
        });
        SBuf s(v);
        std::iter_swap(s.b() + i, s.b() + j);
        long k = app::g_uswaps;
        ref.tok("ok"); put(ref, s.vec()); sw_tail(ref, s, true, true, k);
        return true;
    }
    if (op == "rotate" || op == "rotate_fwd") {
        auto f = in.num(); auto m = in.num(); auto n = in.num();
        V v = tov(in.list());
        SBuf a(v);
        guarded(impl, [&](Out& o) {
            std::ptrdiff_t r;
            if (op == "rotate") { r = etl::rotate(a.b() + f, a.b() + m, a.b() + n) - a.b(); }
            else { r = etl::rotate(FwdIt<Slot>(a.b() + f), FwdIt<Slot>(a.b() + m), FwdIt<Slot>(a.b() + n)).p - a.b(); }
            o.tok("ok").num(r); put(o, a.vec()); sw_tail(o, a, false, true, 0);
        });
        SBuf s(v);
        auto r = std::rotate(s.b() + f, s.b() + m, s.b() + n) - s.b();
        ref.tok("ok").num(r); put(ref, s.vec());
        return true;
    }
    if (op == "reverse_ra" || op == "reverse_bidi" || op == "reverse_rev") {
        auto f = in.num(); auto n = in.num();
        V v = tov(in.list());
        SBuf a(v);
        guarded(impl, [&](Out& o) {
            if (op == "reverse_ra") { etl::reverse(a.b() + f, a.b() + n); }
            else if (op == "reverse_rev") { etl::reverse(etl::reverse_iterator<Slot*>(a.b() + n), etl::reverse_iterator<Slot*>(a.b() + f)); }
            else { etl::reverse(BidiIt<Slot>(a.b() + f), BidiIt<Slot>(a.b() + n)); }
            long k = app::g_uswaps;
            o.tok("ok"); put(o, a.vec()); sw_tail(o, a, true, true, k);
        });
        SBuf s(v);
        std::reverse(s.b() + f, s.b() + n);
        long k = app::g_uswaps;
        ref.tok("ok"); put(ref, s.vec()); sw_tail(ref, s, true, true, k);
        return true;
    }
    if (op == "swap_ranges" || op == "swap_ranges_fwd") {
        V v1 = tov(in.list()); V v2 = tov(in.list());
        SBuf a(v1); SBuf b(v2);
        app::g_uswaps = 0;
        guarded(impl, [&](Out& o) {
            std::ptrdiff_t r;
            if (op == "swap_ranges") { r = etl::swap_ranges(a.b(), a.e(), b.b()) - b.b(); }
            else { r = etl::swap_ranges(FwdIt<Slot>(a.b()), FwdIt<Slot>(a.e()), FwdIt<Slot>(b.b())).p - b.b(); }
            long k = app::g_uswaps;
            o.tok("ok").num(r); put(o, a.vec()); put(o, b.vec());
            if (!b.guards_ok()) { o.tok("GUARD-HIT"); }
            if (!b.ids_ok()) { o.tok("IDS-MOVED"); }
            sw_tail(o, a, true, true, k);
        });
        SBuf s1(v1); SBuf s2(v2);
        app::g_uswaps = 0;
        auto r = std::swap_ranges(s1.b(), s1.e(), s2.b()) - s2.b();
        long k = app::g_uswaps;
        ref.tok("ok").num(r); put(ref, s1.vec()); put(ref, s2.vec());
        if (!s2.ids_ok()) { ref.tok("IDS-MOVED"); }
        sw_tail(ref, s1, true, true, k);
        return true;
    }
    if (op == "swap_array") {
        // _utility/swap.hpp, the overload for built-in arrays: [utility.swap] "As if by swap_ranges(a, a + N, b)" - N element swaps
        V v1 = tov(in.list()); V v2 = tov(in.list());
        auto run = [&](Out& o, bool etl_) {
            Slot a[3] = {{0, v1[0]}, {1, v1[1]}, {2, v1[2]}}; Slot b[3] = {{0, v2[0]}, {1, v2[1]}, {2, v2[2]}};
            app::g_uswaps = 0; app::g_scopies = 0;
            if (etl_) { etl::swap(a, b); } else { std::swap(a, b); }
            long k = app::g_uswaps;
            o.tok("ok").num(3);
            o.num(3); for (auto const& x : a) { o.num(x.v); }
            o.num(3); for (auto const& x : b) { o.num(x.v); }
            bool idb = b[0].id == 0 && b[1].id == 1 && b[2].id == 2;
            bool ida = a[0].id == 0 && a[1].id == 1 && a[2].id == 2;
            if (!idb) { o.tok("IDS-MOVED"); }
            o.tok("S").num(k);
            if (!ida) { o.tok("IDS-MOVED"); }
            if (app::g_scopies != 0) { o.tok("COPIED").num(app::g_scopies); }
        };
        guarded(impl, [&](Out& o) { run(o, true); });
        run(ref, false);
        return true;
    }
    if (op == "partition" || op == "partition_fwd" || op == "stable_partition") {
        auto id = static_cast<int>(in.num());
        V v = tov(in.list());
        SBuf a(v);
        auto p  = [&](Slot const& x) { return pred_of(id, x.v); };
        auto pi = [&](int x) { return pred_of(id, x); };
        bool st = op == "stable_partition";
        guarded(impl, [&](Out& o) {
            std::ptrdiff_t r;
            if (st) { r = etl::stable_partition(a.b(), a.e(), p) - a.b(); }
            else if (op == "partition_fwd") { r = etl::partition(FwdIt<Slot>(a.b()), FwdIt<Slot>(a.e()), p).p - a.b(); }
            else { r = etl::partition(a.b(), a.e(), p) - a.b(); }
            V res = a.vec();
            o.tok("ok").num(r);
            if (full || st) { put(o, res); }
            else { o.b(std::all_of(res.begin(), res.begin() + r, pi) && std::none_of(res.begin() + r, res.end(), pi)).b(is_perm(res, v)); }
            sw_tail(o, a, false, true, 0);
        });
        if (!full || st) {
            SBuf s(v);
            auto r = (st ? std::stable_partition(s.b(), s.e(), p) : std::partition(s.b(), s.e(), p)) - s.b();
            V res = s.vec();
            ref.tok("ok").num(r);
            if (st) { put(ref, res); }
            else {
                ref.b(std::all_of(res.begin(), res.begin() + r, pi) && std::none_of(res.begin() + r, res.end(), pi)).b(is_perm(res, v));
                sw_tail(ref, s, false, true, 0);   // [alg.partitions]: partition requires ValueSwappable only - it can only swap
            }
        }
        return true;
    }
    {
        // the sorts that etl implements by swaps only (gnome_sort = sort = nth_element = partial_sort, bubble_sort, exchange_sort)
        static char const* sorts[] = {"sort", "gnome_sort", "bubble_sort", "exchange_sort", "nth_element", "partial_sort"};
        for (auto* name : sorts) {
            std::string nm = name;
            if (op != nm) { continue; }
            auto id = static_cast<int>(in.num());
            i64 k = 0;
            if (nm == "nth_element" || nm == "partial_sort") { k = in.num(); }
            V v = tov(in.list());
            SBuf a(v);
            auto c  = [&](Slot const& x, Slot const& y) { return cmp_of(id, x.v, y.v); };
            auto ci = [&](int x, int y) { return cmp_of(id, x, y); };
            bool dflt = id == 3;
            guarded(impl, [&](Out& o) {
                auto b = a.b(); auto e = a.e();
                if (nm == "gnome_sort") { if (dflt) { etl::gnome_sort(b, e); } else { etl::gnome_sort(b, e, c); } }
                else if (nm == "sort") { if (dflt) { etl::sort(b, e); } else { etl::sort(b, e, c); } }
                else if (nm == "bubble_sort") { if (dflt) { etl::bubble_sort(b, e); } else { etl::bubble_sort(b, e, c); } }
                else if (nm == "exchange_sort") { if (dflt) { etl::exchange_sort(b, e); } else { etl::exchange_sort(b, e, c); } }
                else if (nm == "nth_element") { if (dflt) { etl::nth_element(b, b + k, e); } else { etl::nth_element(b, b + k, e, c); } }
                else { if (dflt) { etl::partial_sort(b, b + k, e); } else { etl::partial_sort(b, b + k, e, c); } }
                V r = a.vec();
                o.tok("ok");
                if (full) { put(o, r); }
                else { o.b(std::is_sorted(r.begin(), r.end(), ci)).b(is_perm(r, v)); }
                sw_tail(o, a, false, true, 0);
            });
            if (!full) { ref.tok("ok").b(true).b(true); }
            return true;
        }
    }
    return false;
}

static bool run_case_mv(std::string op, Toks& in, Out& impl, Out& ref)
{
    bool full = strip_suffix(op, "_full");
    if (!strip_suffix(op, "_mv")) { return false; }
    if (op == "rotate" || op == "rotate_fwd") {
        auto f = in.num(); auto m = in.num(); auto n = in.num();
        V v = tov(in.list());
        MBuf a(v);
        guarded(impl, [&](Out& o) {
            std::ptrdiff_t r;
            if (op == "rotate") { r = etl::rotate(a.b() + f, a.b() + m, a.b() + n) - a.b(); }
            else { r = etl::rotate(FwdIt<Mv>(a.b() + f), FwdIt<Mv>(a.b() + m), FwdIt<Mv>(a.b() + n)).p - a.b(); }
            o.tok("ok").num(r); put(o, a.vec()); mv_tail(o, a, false);
        });
        MBuf s(v);
        auto r = std::rotate(s.b() + f, s.b() + m, s.b() + n) - s.b();
        ref.tok("ok").num(r); put(ref, s.vec());
        return true;
    }
    if (op == "reverse_ra" || op == "reverse_bidi") {
        auto f = in.num(); auto n = in.num();
        V v = tov(in.list());
        MBuf a(v);
        guarded(impl, [&](Out& o) {
            if (op == "reverse_ra") { etl::reverse(a.b() + f, a.b() + n); }
            else { etl::reverse(BidiIt<Mv>(a.b() + f), BidiIt<Mv>(a.b() + n)); }
            o.tok("ok"); put(o, a.vec()); mv_tail(o, a, false);
        });
        MBuf s(v);
        std::reverse(s.b() + f, s.b() + n);
        ref.tok("ok"); put(ref, s.vec());
        return true;
    }
    if (op == "swap_ranges") {
        V v1 = tov(in.list()); V v2 = tov(in.list());
        MBuf a(v1), b(v2);
        guarded(impl, [&](Out& o) {
            auto r = etl::swap_ranges(a.b(), a.e(), b.b()) - b.b();
            o.tok("ok").num(r); put(o, a.vec()); put(o, b.vec()); mv_tail(o, a, false); if (!b.guards_ok()) { o.tok("GUARD-HIT"); }
        });
        MBuf s1(v1), s2(v2);
        auto r = std::swap_ranges(s1.b(), s1.e(), s2.b()) - s2.b();
        ref.tok("ok").num(r); put(ref, s1.vec()); put(ref, s2.vec());
        return true;
    }
    if (op == "remove_if" || op == "remove" || op == "unique" || op == "shift_left" || op == "shift_right") {
        auto id = in.num();
        V v = tov(in.list());
        MBuf a(v);
        auto len = static_cast<std::ptrdiff_t>(v.size());
        auto p   = [&](Mv const& x) { return pred_of(static_cast<int>(id), x.v); };
        auto eq  = [&](Mv const& x, Mv const& y) { return eqv_of(static_cast<int>(id), x.v, y.v); };
        bool right = op == "shift_right";
        guarded(impl, [&](Out& o) {
            std::ptrdiff_t r;
            if (op == "remove_if") { r = etl::remove_if(a.b(), a.e(), p) - a.b(); }
            else if (op == "remove") { r = etl::remove(a.b(), a.e(), Mv{static_cast<int>(id)}) - a.b(); }
            else if (op == "unique") { r = (id == 1 ? etl::unique(a.b(), a.e()) : etl::unique(a.b(), a.e(), eq)) - a.b(); }
            else if (op == "shift_left") { r = etl::shift_left(a.b(), a.e(), id) - a.b(); }
            else { r = etl::shift_right(a.b(), a.e(), id) - a.b(); }
            o.tok("ok");
            if (full) { o.num(r); put(o, a.vec()); }
            else if (right) { o.num(r); put_range(o, a.b() + r, len - r); }
            else { if (op == "shift_left") { o.num(r); } put_range(o, a.b(), r); }
            mv_tail(o, a, full);
        });
        if (!full && !((op == "shift_left" || right) && id < 0)) {
            MBuf s(v);
            std::ptrdiff_t r;
            if (op == "remove_if") { r = std::remove_if(s.b(), s.e(), p) - s.b(); }
            else if (op == "remove") { r = std::remove(s.b(), s.e(), Mv{static_cast<int>(id)}) - s.b(); }
            else if (op == "unique") { r = std::unique(s.b(), s.e(), eq) - s.b(); }
            else if (op == "shift_left") { r = std::shift_left(s.b(), s.e(), id) - s.b(); }
            else { r = std::shift_right(s.b(), s.e(), id) - s.b(); }
            ref.tok("ok");
            if (right) { ref.num(r); put_range(ref, s.b() + r, len - r); }
            else { if (op == "shift_left") { ref.num(r); } put_range(ref, s.b(), r); }
        }
        return true;
    }
    if (op == "partition" || op == "stable_partition") {
        auto id = static_cast<int>(in.num());
        V v = tov(in.list());
        MBuf a(v);
        auto p  = [&](Mv const& x) { return pred_of(id, x.v); };
        auto pi = [&](int x) { return pred_of(id, x); };
        bool st = op == "stable_partition";
        guarded(impl, [&](Out& o) {
            auto r = (st ? etl::stable_partition(a.b(), a.e(), p) : etl::partition(a.b(), a.e(), p)) - a.b();
            V res = a.vec();
            o.tok("ok").num(r);
            if (full || st) { put(o, res); }
            else { o.b(std::all_of(res.begin(), res.begin() + r, pi) && std::none_of(res.begin() + r, res.end(), pi)).b(is_perm(res, v)); }
            mv_tail(o, a, false);
        });
        if (!full || st) {
            MBuf s(v);
            auto r = (st ? std::stable_partition(s.b(), s.e(), p) : std::partition(s.b(), s.e(), p)) - s.b();
            V res = s.vec();
            ref.tok("ok").num(r);
            if (st) { put(ref, res); }
            else { ref.b(std::all_of(res.begin(), res.begin() + r, pi) && std::none_of(res.begin() + r, res.end(), pi)).b(is_perm(res, v)); }
        }
        return true;
    }
    if (op == "inplace_merge") {
        auto id = static_cast<int>(in.num());
        auto mid = in.num();
        V v = tov(in.list());
        MBuf a(v);
        auto c = [&](Mv const& x, Mv const& y) { return cmp_of(id, x.v, y.v); };
        guarded(impl, [&](Out& o) {
            if (id == 3) { etl::inplace_merge(a.b(), a.b() + mid, a.e()); } else { etl::inplace_merge(a.b(), a.b() + mid, a.e(), c); }
            o.tok("ok"); put(o, a.vec()); mv_tail(o, a, false);
        });
        MBuf s(v);
        std::inplace_merge(s.b(), s.b() + mid, s.e(), c);
        ref.tok("ok"); put(ref, s.vec());
        return true;
    }
    if (op == "move_ov" || op == "move_backward_ov") {
        // forward: <first> <last> <dest> (dest outside [first,last]);  backward: <first> <last> <dLast> (dLast outside [first,last])
        auto f = in.num(); auto l = in.num(); auto d = in.num();
        V v = tov(in.list());
        MBuf a(v);
        bool fwd = op == "move_ov";
        guarded(impl, [&](Out& o) {
            auto r = (fwd ? etl::move(a.b() + f, a.b() + l, a.b() + d) : etl::move_backward(a.b() + f, a.b() + l, a.b() + d)) - a.b();
            o.tok("ok").num(r);
            if (full) { put(o, a.vec()); }
            else { put_range(o, a.b() + (fwd ? d : r), l - f); }
            mv_tail(o, a, full);
        });
        if (!full) {
            MBuf s(v);
            auto r = (fwd ? std::move(s.b() + f, s.b() + l, s.b() + d) : std::move_backward(s.b() + f, s.b() + l, s.b() + d)) - s.b();
            ref.tok("ok").num(r); put_range(ref, s.b() + (fwd ? d : r), l - f);
        }
        return true;
    }
    {
        static char const* sorts[] = {"sort", "stable_sort", "insertion_sort", "gnome_sort", "bubble_sort", "exchange_sort", "merge_sort",
            "nth_element", "partial_sort"};
        for (auto* name : sorts) {
            std::string nm = name;
            if (op != nm) { continue; }
            auto id = static_cast<int>(in.num());
            i64 k = 0;
            if (nm == "nth_element" || nm == "partial_sort") { k = in.num(); }
            V v = tov(in.list());
            MBuf a(v);
            auto c  = [&](Mv const& x, Mv const& y) { return cmp_of(id, x.v, y.v); };
            auto ci = [&](int x, int y) { return cmp_of(id, x, y); };
            bool stable = nm == "stable_sort";
            bool dflt = id == 3;
            guarded(impl, [&](Out& o) {
                auto b = a.b(); auto e = a.e();
                if (nm == "gnome_sort") { if (dflt) { etl::gnome_sort(b, e); } else { etl::gnome_sort(b, e, c); } }
                else if (nm == "sort") { if (dflt) { etl::sort(b, e); } else { etl::sort(b, e, c); } }
                else if (nm == "stable_sort") { if (dflt) { etl::stable_sort(b, e); } else { etl::stable_sort(b, e, c); } }
                else if (nm == "insertion_sort") { if (dflt) { etl::insertion_sort(b, e); } else { etl::insertion_sort(b, e, c); } }
                else if (nm == "bubble_sort") { if (dflt) { etl::bubble_sort(b, e); } else { etl::bubble_sort(b, e, c); } }
                else if (nm == "exchange_sort") { if (dflt) { etl::exchange_sort(b, e); } else { etl::exchange_sort(b, e, c); } }
                else if (nm == "merge_sort") { if (dflt) { etl::merge_sort(b, e); } else { etl::merge_sort(b, e, c); } }
                else if (nm == "nth_element") { if (dflt) { etl::nth_element(b, b + k, e); } else { etl::nth_element(b, b + k, e, c); } }
                else { if (dflt) { etl::partial_sort(b, b + k, e); } else { etl::partial_sort(b, b + k, e, c); } }
                V r = a.vec();
                o.tok("ok");
                if (full || stable) { put(o, r); }
                else if (nm == "nth_element") {
                    bool okp = true;
                    for (i64 i = 0; i < k && okp; ++i) { for (i64 j = k; j < static_cast<i64>(r.size()); ++j) { if (ci(r[j], r[i])) { okp = false; break; } } }
                    if (okp && k < static_cast<i64>(r.size())) {
                        V s = v; std::sort(s.begin(), s.end(), ci);
                        okp = !ci(s[k], r[k]) && !ci(r[k], s[k]);
                    }
                    o.b(okp).b(is_perm(r, v));
                } else if (nm == "partial_sort") {
                    bool okp = std::is_sorted(r.begin(), r.begin() + k, ci);
                    for (i64 i = 0; i < k && okp; ++i) { for (i64 j = k; j < static_cast<i64>(r.size()); ++j) { if (ci(r[j], r[i])) { okp = false; break; } } }
                    o.b(okp).b(is_perm(r, v));
                } else { o.b(std::is_sorted(r.begin(), r.end(), ci)).b(is_perm(r, v)); }
                mv_tail(o, a, false);
            });
            if (!full) {
                ref.tok("ok");
                if (stable) { MBuf s(v); std::stable_sort(s.b(), s.e(), c); put(ref, s.vec()); }
                else { ref.b(true).b(true); }
            }
            return true;
        }
    }
    return false;
}

VERIF_MAIN()
