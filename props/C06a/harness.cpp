// C06a harness: mutating etl algorithms (impl leg) vs libstdc++ (reference leg).
// Elements are ints v = key*16 + tag; predicates/comparators by id (coq/C06a/Instances.v).
#include "common.hpp"
#include "iters.hpp"

#include <algorithm>
#include <numeric>
#include <vector>

#include <etl/algorithm.hpp>
#include <etl/numeric.hpp>

using namespace vh;
using V = std::vector<int>;

static int keyof(int v) { return v >= 0 ? v / 16 : -((-v + 15) / 16); }   // floor division
static bool pred_of(int id, int v)
{
    switch (id) {
    case 0: return (keyof(v) % 2) == 0;
    case 1: return keyof(v) == 1;
    case 2: return keyof(v) < 2;
    case 3: return true;
    default: return false;
    }
}
static int mod3(int k) { return ((k % 3) + 3) % 3; }
static bool cmp_of(int id, int a, int b)
{
    switch (id) {
    case 0: return keyof(a) < keyof(b);
    case 1: return keyof(b) < keyof(a);
    default: return mod3(keyof(a)) < mod3(keyof(b));
    }
}
static bool eqv_of(int id, int a, int b)
{
    switch (id) {
    case 0: return keyof(a) == keyof(b);
    case 1: return a == b;
    default: return mod3(keyof(a)) == mod3(keyof(b));
    }
}
static int fun1_of(int id, int a) { return id == 0 ? a + 16 : 2 * a; }
static int fun2_of(int id, int a, int b) { return id == 0 ? a + b : a - b; }

static V tov(std::vector<i64> const& l) { return V(l.begin(), l.end()); }
static constexpr int GUARD = -777777;

// exact-size heap array with guard cells on both sides
struct Buf {
    V store;
    std::size_t n;
    explicit Buf(V const& v) : store(v.size() + 2, GUARD), n(v.size()) { std::copy(v.begin(), v.end(), store.begin() + 1); }
    explicit Buf(std::size_t len) : store(len + 2, GUARD), n(len) { }
    int* b() { return store.data() + 1; }
    int* e() { return store.data() + 1 + n; }
    bool guards_ok() const { return store.front() == GUARD && store.back() == GUARD; }
    V vec() const { return V(store.begin() + 1, store.begin() + 1 + static_cast<std::ptrdiff_t>(n)); }
};

static void put(Out& o, V const& v) { o.list(v); }
static void put_prefix(Out& o, int const* b, std::ptrdiff_t k)
{
    o.num(k);
    for (std::ptrdiff_t i = 0; i < k; ++i) { o.num(b[i]); }
}
static void guard_tok(Out& o, Buf const& b) { if (!b.guards_ok()) { o.tok("GUARD-HIT"); } }

static bool is_perm(V a, V b) { std::sort(a.begin(), a.end()); std::sort(b.begin(), b.end()); return a == b; }

bool vh::run_case(std::string const& op, Toks& in, Out& impl, Out& ref)
{
    // ------------------------------------------------------------------ rotate
    if (op == "rotate" || op == "rotate_fwd") {
        auto f = in.num(); auto m = in.num(); auto n = in.num();
        V v = tov(in.list());
        Buf a(v);
        guarded(impl, [&](Out& o) {
            std::ptrdiff_t r;
            if (op == "rotate") { r = etl::rotate(a.b() + f, a.b() + m, a.b() + n) - a.b(); }
            else { r = etl::rotate(FwdIt<int>(a.b() + f), FwdIt<int>(a.b() + m), FwdIt<int>(a.b() + n)).p - a.b(); }
            o.tok("ok").num(r); put(o, a.vec()); guard_tok(o, a);
        });
        V s = v;
        auto r = std::rotate(s.begin() + f, s.begin() + m, s.begin() + n) - s.begin();
        ref.tok("ok").num(r); put(ref, s);
        return true;
    }
    if (op == "reverse_ra" || op == "reverse_bidi") {
        auto f = in.num(); auto n = in.num();
        V v = tov(in.list());
        Buf a(v);
        guarded(impl, [&](Out& o) {
            if (op == "reverse_ra") { etl::reverse(a.b() + f, a.b() + n); }
            else { etl::reverse(BidiIt<int>(a.b() + f), BidiIt<int>(a.b() + n)); }
            o.tok("ok"); put(o, a.vec()); guard_tok(o, a);
        });
        V s = v; std::reverse(s.begin() + f, s.begin() + n);
        ref.tok("ok"); put(ref, s);
        return true;
    }
    if (op == "swap_ranges") {
        V v1 = tov(in.list()); V v2 = tov(in.list());
        Buf a(v1), b(v2);
        guarded(impl, [&](Out& o) {
            auto r = etl::swap_ranges(a.b(), a.e(), b.b()) - b.b();
            o.tok("ok").num(r); put(o, a.vec()); put(o, b.vec()); guard_tok(o, a); guard_tok(o, b);
        });
        V s1 = v1, s2 = v2;
        auto r = std::swap_ranges(s1.begin(), s1.end(), s2.begin()) - s2.begin();
        ref.tok("ok").num(r); put(ref, s1); put(ref, s2);
        return true;
    }
    // ------------------------------------------------------------------ remove / unique / partition
    if (op == "remove_if" || op == "remove_if_full" || op == "remove" || op == "remove_fwd") {
        auto id = static_cast<int>(in.num());
        V v = tov(in.list());
        Buf a(v);
        bool full = op == "remove_if_full";
        guarded(impl, [&](Out& o) {
            std::ptrdiff_t r;
            if (op == "remove") { r = etl::remove(a.b(), a.e(), id) - a.b(); }
            else if (op == "remove_fwd") { r = etl::remove_if(FwdIt<int>(a.b()), FwdIt<int>(a.e()), [&](int x) { return pred_of(id, x); }).p - a.b(); }
            else { r = etl::remove_if(a.b(), a.e(), [&](int x) { return pred_of(id, x); }) - a.b(); }
            o.tok("ok");
            if (full) { o.num(r); put(o, a.vec()); } else { put_prefix(o, a.b(), r); }
            guard_tok(o, a);
        });
        if (!full) {
            V s = v;
            std::ptrdiff_t r;
            if (op == "remove") { r = std::remove(s.begin(), s.end(), id) - s.begin(); }
            else { r = std::remove_if(s.begin(), s.end(), [&](int x) { return pred_of(id, x); }) - s.begin(); }
            ref.tok("ok"); put_prefix(ref, s.data(), r);
        }
        return true;
    }
    if (op == "unique" || op == "unique_full" || op == "unique_fwd") {
        auto id = static_cast<int>(in.num());
        V v = tov(in.list());
        Buf a(v);
        bool full = op == "unique_full";
        guarded(impl, [&](Out& o) {
            std::ptrdiff_t r;
            if (op == "unique_fwd") { r = etl::unique(FwdIt<int>(a.b()), FwdIt<int>(a.e()), [&](int x, int y) { return eqv_of(id, x, y); }).p - a.b(); }
            else if (id == 1) { r = etl::unique(a.b(), a.e()) - a.b(); }
            else { r = etl::unique(a.b(), a.e(), [&](int x, int y) { return eqv_of(id, x, y); }) - a.b(); }
            o.tok("ok");
            if (full) { o.num(r); put(o, a.vec()); } else { put_prefix(o, a.b(), r); }
            guard_tok(o, a);
        });
        if (!full) {
            V s = v;
            auto r = std::unique(s.begin(), s.end(), [&](int x, int y) { return eqv_of(id, x, y); }) - s.begin();
            ref.tok("ok"); put_prefix(ref, s.data(), r);
        }
        return true;
    }
    if (op == "partition" || op == "partition_full" || op == "partition_fwd") {
        auto id = static_cast<int>(in.num());
        V v = tov(in.list());
        Buf a(v);
        bool full = op == "partition_full";
        auto p = [&](int x) { return pred_of(id, x); };
        guarded(impl, [&](Out& o) {
            std::ptrdiff_t r;
            if (op == "partition_fwd") { r = etl::partition(FwdIt<int>(a.b()), FwdIt<int>(a.e()), p).p - a.b(); }
            else { r = etl::partition(a.b(), a.e(), p) - a.b(); }
            o.tok("ok").num(r);
            if (full) { put(o, a.vec()); }
            else {
                V res = a.vec();
                o.b(std::all_of(res.begin(), res.begin() + r, p) && std::none_of(res.begin() + r, res.end(), p)).b(is_perm(res, v));
            }
            guard_tok(o, a);
        });
        if (!full) {
            V s = v;
            auto r = std::partition(s.begin(), s.end(), p) - s.begin();
            ref.tok("ok").num(r).b(std::all_of(s.begin(), s.begin() + r, p) && std::none_of(s.begin() + r, s.end(), p)).b(is_perm(s, v));
        }
        return true;
    }
    if (op == "stable_partition") {
        auto id = static_cast<int>(in.num());
        V v = tov(in.list());
        Buf a(v);
        auto p = [&](int x) { return pred_of(id, x); };
        guarded(impl, [&](Out& o) {
            auto r = etl::stable_partition(a.b(), a.e(), p) - a.b();
            o.tok("ok").num(r); put(o, a.vec()); guard_tok(o, a);
        });
        V s = v;
        auto r = std::stable_partition(s.begin(), s.end(), p) - s.begin();
        ref.tok("ok").num(r); put(ref, s);
        return true;
    }
    // ------------------------------------------------------------------ shift
    if (op == "shift_left" || op == "shift_left_full" || op == "shift_left_fwd" || op == "shift_right" || op == "shift_right_full"
        || op == "shift_right_bidi") {
        auto n = in.num();
        V v = tov(in.list());
        Buf a(v);
        bool left = op.rfind("shift_left", 0) == 0;
        bool full = op.size() > 5 && op.substr(op.size() - 5) == "_full";
        auto len = static_cast<i64>(v.size());
        guarded(impl, [&](Out& o) {
            std::ptrdiff_t r;
            if (op == "shift_left_fwd") { r = etl::shift_left(FwdIt<int>(a.b()), FwdIt<int>(a.e()), n).p - a.b(); }
            else if (op == "shift_right_bidi") { r = etl::shift_right(BidiIt<int>(a.b()), BidiIt<int>(a.e()), n).p - a.b(); }
            else if (left) { r = etl::shift_left(a.b(), a.e(), n) - a.b(); }
            else { r = etl::shift_right(a.b(), a.e(), n) - a.b(); }
            o.tok("ok").num(r);
            if (full) { put(o, a.vec()); }
            else if (left) { put_prefix(o, a.b(), r); }
            else { put_prefix(o, a.b() + r, len - r); }
            guard_tok(o, a);
        });
        if (!full && n >= 0) {
            V s = v;
            if (left) { auto r = std::shift_left(s.begin(), s.end(), n) - s.begin(); ref.tok("ok").num(r); put_prefix(ref, s.data(), r); }
            else { auto r = std::shift_right(s.begin(), s.end(), n) - s.begin(); ref.tok("ok").num(r); put_prefix(ref, s.data() + r, len - r); }
        }
        return true;
    }
    // ------------------------------------------------------------------ inplace_merge + sorts
    if (op == "inplace_merge") {
        auto id = static_cast<int>(in.num());
        auto mid = in.num();
        V v = tov(in.list());
        Buf a(v);
        auto c = [&](int x, int y) { return cmp_of(id, x, y); };
        guarded(impl, [&](Out& o) { etl::inplace_merge(a.b(), a.b() + mid, a.e(), c); o.tok("ok"); put(o, a.vec()); guard_tok(o, a); });
        V s = v; std::inplace_merge(s.begin(), s.begin() + mid, s.end(), c);
        ref.tok("ok"); put(ref, s);
        return true;
    }
    {
        static char const* sorts[] = {"sort", "stable_sort", "insertion_sort", "gnome_sort", "bubble_sort", "exchange_sort", "merge_sort",
            "nth_element", "partial_sort"};
        for (auto* name : sorts) {
            std::string nm = name;
            bool full = op == nm + "_full";
            if (op != nm && !full) { continue; }
            auto id = static_cast<int>(in.num());
            i64 k = 0;
            if (nm == "nth_element" || nm == "partial_sort") { k = in.num(); }
            V v = tov(in.list());
            Buf a(v);
            auto c = [&](int x, int y) { return cmp_of(id, x, y); };
            bool stable = nm == "stable_sort";
            guarded(impl, [&](Out& o) {
                if (nm == "sort") { etl::sort(a.b(), a.e(), c); }
                else if (nm == "stable_sort") { etl::stable_sort(a.b(), a.e(), c); }
                else if (nm == "insertion_sort") { etl::insertion_sort(a.b(), a.e(), c); }
                else if (nm == "gnome_sort") { etl::gnome_sort(a.b(), a.e(), c); }
                else if (nm == "bubble_sort") { etl::bubble_sort(a.b(), a.e(), c); }
                else if (nm == "exchange_sort") { etl::exchange_sort(a.b(), a.e(), c); }
                else if (nm == "merge_sort") { etl::merge_sort(a.b(), a.e(), c); }
                else if (nm == "nth_element") { etl::nth_element(a.b(), a.b() + k, a.e(), c); }
                else { etl::partial_sort(a.b(), a.b() + k, a.e(), c); }
                V r = a.vec();
                o.tok("ok");
                if (full || stable) { put(o, r); }
                else if (nm == "nth_element") {
                    // [alg.nth.element]: nothing before nth is greater than anything from nth on
                    bool okp = true;
                    for (i64 i = 0; i < k && okp; ++i) { for (i64 j = k; j < static_cast<i64>(r.size()); ++j) { if (c(r[j], r[i])) { okp = false; break; } } }
                    o.b(okp).b(is_perm(r, v));
                } else if (nm == "partial_sort") {
                    bool okp = std::is_sorted(r.begin(), r.begin() + k, c);
                    for (i64 i = 0; i < k && okp; ++i) { for (i64 j = k; j < static_cast<i64>(r.size()); ++j) { if (c(r[j], r[i])) { okp = false; break; } } }
                    o.b(okp).b(is_perm(r, v));
                } else { o.b(std::is_sorted(r.begin(), r.end(), c)).b(is_perm(r, v)); }
                guard_tok(o, a);
            });
            if (!full) {
                V s = v;
                ref.tok("ok");
                if (stable) { std::stable_sort(s.begin(), s.end(), c); put(ref, s); }
                else { ref.b(true).b(true); }
            }
            return true;
        }
    }
    // ------------------------------------------------------------------ copying family (destination = fresh guarded buffer)
    auto emit_dest = [&](Out& o, Buf& d, std::ptrdiff_t r) { o.tok("ok"); put_prefix(o, d.b(), r); guard_tok(o, d); };
    if (op == "copy" || op == "move" || op == "copy_in" || op == "copy_backward" || op == "move_backward" || op == "reverse_copy") {
        V v = tov(in.list());
        Buf s(v), d(v.size());
        guarded(impl, [&](Out& o) {
            std::ptrdiff_t r;
            if (op == "copy") { r = etl::copy(s.b(), s.e(), d.b()) - d.b(); }
            else if (op == "copy_in") { r = etl::copy(WrapIt<int, etl::input_iterator_tag>(s.b()), WrapIt<int, etl::input_iterator_tag>(s.e()), d.b()) - d.b(); }
            else if (op == "move") { r = etl::move(s.b(), s.e(), d.b()) - d.b(); }
            else if (op == "copy_backward") { r = d.e() - etl::copy_backward(s.b(), s.e(), d.e()); }
            else if (op == "move_backward") { r = d.e() - etl::move_backward(s.b(), s.e(), d.e()); }
            else { r = etl::reverse_copy(s.b(), s.e(), d.b()) - d.b(); }
            emit_dest(o, d, r);
        });
        V out(v.size());
        if (op == "reverse_copy") { std::reverse_copy(v.begin(), v.end(), out.begin()); } else { out = v; }
        ref.tok("ok"); put_prefix(ref, out.data(), static_cast<std::ptrdiff_t>(out.size()));
        return true;
    }
    if (op == "copy_n") {
        auto n = in.num();
        V v = tov(in.list());
        Buf s(v), d(v.size());
        guarded(impl, [&](Out& o) { auto r = etl::copy_n(s.b(), n, d.b()) - d.b(); emit_dest(o, d, r); });
        V out(v.size());
        auto r = std::copy_n(v.begin(), n, out.begin()) - out.begin();
        ref.tok("ok"); put_prefix(ref, out.data(), r);
        return true;
    }
    if (op == "copy_if" || op == "remove_copy_if" || op == "remove_copy") {
        auto id = static_cast<int>(in.num());
        V v = tov(in.list());
        Buf s(v), d(v.size());
        auto p = [&](int x) { return pred_of(id, x); };
        guarded(impl, [&](Out& o) {
            std::ptrdiff_t r;
            if (op == "copy_if") { r = etl::copy_if(s.b(), s.e(), d.b(), p) - d.b(); }
            else if (op == "remove_copy_if") { r = etl::remove_copy_if(s.b(), s.e(), d.b(), p) - d.b(); }
            else { r = etl::remove_copy(s.b(), s.e(), d.b(), id) - d.b(); }
            emit_dest(o, d, r);
        });
        V out(v.size());
        std::ptrdiff_t r;
        if (op == "copy_if") { r = std::copy_if(v.begin(), v.end(), out.begin(), p) - out.begin(); }
        else if (op == "remove_copy_if") { r = std::remove_copy_if(v.begin(), v.end(), out.begin(), p) - out.begin(); }
        else { r = std::remove_copy(v.begin(), v.end(), out.begin(), id) - out.begin(); }
        ref.tok("ok"); put_prefix(ref, out.data(), r);
        return true;
    }
    if (op == "fill" || op == "fill_n" || op == "generate" || op == "generate_n") {
        auto n = in.num(); auto val = static_cast<int>(in.num()); auto len = in.num();
        Buf d(static_cast<std::size_t>(len));
        V out(static_cast<std::size_t>(len), GUARD);
        int g = val; int g2 = val;
        guarded(impl, [&](Out& o) {
            std::ptrdiff_t r = len;
            if (op == "fill") { etl::fill(d.b(), d.e(), val); }
            else if (op == "fill_n") { r = etl::fill_n(d.b(), n, val) - d.b(); }
            else if (op == "generate") { etl::generate(d.b(), d.e(), [&] { return g++; }); }
            else { r = etl::generate_n(d.b(), n, [&] { return g++; }) - d.b(); }
            emit_dest(o, d, r);
        });
        std::ptrdiff_t r = len;
        if (op == "fill") { std::fill(out.begin(), out.end(), val); }
        else if (op == "fill_n") { r = std::fill_n(out.begin(), n, val) - out.begin(); }
        else if (op == "generate") { std::generate(out.begin(), out.end(), [&] { return g2++; }); }
        else { r = std::generate_n(out.begin(), n, [&] { return g2++; }) - out.begin(); }
        ref.tok("ok"); put_prefix(ref, out.data(), r);
        return true;
    }
    if (op == "replace_if" || op == "replace") {
        auto id = static_cast<int>(in.num()); auto nv = static_cast<int>(in.num());
        V v = tov(in.list());
        Buf a(v);
        guarded(impl, [&](Out& o) {
            if (op == "replace_if") { etl::replace_if(a.b(), a.e(), [&](int x) { return pred_of(id, x); }, nv); }
            else { etl::replace(a.b(), a.e(), id, nv); }
            o.tok("ok"); put(o, a.vec()); guard_tok(o, a);
        });
        V s = v;
        if (op == "replace_if") { std::replace_if(s.begin(), s.end(), [&](int x) { return pred_of(id, x); }, nv); }
        else { std::replace(s.begin(), s.end(), id, nv); }
        ref.tok("ok"); put(ref, s);
        return true;
    }
    if (op == "transform1") {
        auto id = static_cast<int>(in.num());
        V v = tov(in.list());
        Buf s(v), d(v.size());
        guarded(impl, [&](Out& o) { auto r = etl::transform(s.b(), s.e(), d.b(), [&](int x) { return fun1_of(id, x); }) - d.b(); emit_dest(o, d, r); });
        V out(v.size());
        auto r = std::transform(v.begin(), v.end(), out.begin(), [&](int x) { return fun1_of(id, x); }) - out.begin();
        ref.tok("ok"); put_prefix(ref, out.data(), r);
        return true;
    }
    if (op == "transform2") {
        auto id = static_cast<int>(in.num());
        V v1 = tov(in.list()); V v2 = tov(in.list());
        Buf s1(v1), s2(v2), d(v1.size());
        guarded(impl, [&](Out& o) {
            auto r = etl::transform(s1.b(), s1.e(), s2.b(), d.b(), [&](int x, int y) { return fun2_of(id, x, y); }) - d.b();
            emit_dest(o, d, r);
        });
        V out(v1.size());
        auto r = std::transform(v1.begin(), v1.end(), v2.begin(), out.begin(), [&](int x, int y) { return fun2_of(id, x, y); }) - out.begin();
        ref.tok("ok"); put_prefix(ref, out.data(), r);
        return true;
    }
    if (op == "rotate_copy") {
        auto m = in.num();
        V v = tov(in.list());
        Buf s(v), d(v.size());
        guarded(impl, [&](Out& o) { auto r = etl::rotate_copy(s.b(), s.b() + m, s.e(), d.b()) - d.b(); emit_dest(o, d, r); });
        V out(v.size());
        auto r = std::rotate_copy(v.begin(), v.begin() + m, v.end(), out.begin()) - out.begin();
        ref.tok("ok"); put_prefix(ref, out.data(), r);
        return true;
    }
    if (op == "unique_copy") {
        auto id = static_cast<int>(in.num());
        V v = tov(in.list());
        Buf s(v), d(v.size());
        auto e = [&](int x, int y) { return eqv_of(id, x, y); };
        guarded(impl, [&](Out& o) {
            std::ptrdiff_t r;
            if (id == 1) { r = etl::unique_copy(s.b(), s.e(), d.b()) - d.b(); } else { r = etl::unique_copy(s.b(), s.e(), d.b(), e) - d.b(); }
            emit_dest(o, d, r);
        });
        V out(v.size());
        auto r = std::unique_copy(v.begin(), v.end(), out.begin(), e) - out.begin();
        ref.tok("ok"); put_prefix(ref, out.data(), r);
        return true;
    }
    if (op == "partition_copy") {
        auto id = static_cast<int>(in.num());
        V v = tov(in.list());
        Buf s(v), d1(v.size()), d2(v.size());
        auto p = [&](int x) { return pred_of(id, x); };
        guarded(impl, [&](Out& o) {
            auto r = etl::partition_copy(s.b(), s.e(), d1.b(), d2.b(), p);
            o.tok("ok"); put_prefix(o, d1.b(), r.first - d1.b()); put_prefix(o, d2.b(), r.second - d2.b()); guard_tok(o, d1); guard_tok(o, d2);
        });
        V o1(v.size()), o2(v.size());
        auto r = std::partition_copy(v.begin(), v.end(), o1.begin(), o2.begin(), p);
        ref.tok("ok"); put_prefix(ref, o1.data(), r.first - o1.begin()); put_prefix(ref, o2.data(), r.second - o2.begin());
        return true;
    }
    return false;
}

VERIF_MAIN()
