(* C06a driver: model leg = extracted C06a/Model.v, spec leg = extracted C06a/Spec.v *)
let zl = zlist_s
let res_s (f : 'a -> string) = function
  | Ok a -> "ok " ^ f a
  | Contract -> "contract"
  | UB _ -> "ub"
  | OutOfFuel -> "out-of-fuel"
let nat_s n = string_of_int (int_of_nat n)
let prefix_s (l : z list) (k : int) =
  let rec take n = function [] -> [] | x :: t -> if n <= 0 then [] else x :: take (n - 1) t in
  zl (take k l)
let rec drop n l = if n <= 0 then l else match l with [] -> [] | _ :: t -> drop (n - 1) t
let is_sorted lt l =
  let rec go = function a :: (b :: _ as t) -> (not (lt b a)) && go t | _ -> true in go l
let is_perm a b = List.sort compare (List.map big_of_z a) = List.sort compare (List.map big_of_z b)
let pz p = fun x -> p x
let strip_full op =
  let n = String.length op in
  if n > 5 && String.sub op (n - 5) 5 = "_full" then (String.sub op 0 (n - 5), true) else (op, false)

(* "_s<k>d<k>" = iterator flavour of source / destination: the model is the same *)
let strip_flavour op =
  let n = String.length op in
  if n > 5 && op.[n - 5] = '_' && op.[n - 4] = 's' && op.[n - 2] = 'd'
     && op.[n - 3] >= '0' && op.[n - 3] <= '3' && op.[n - 1] >= '0' && op.[n - 1] <= '3'
  then String.sub op 0 (n - 5) else op
let strip_suffix suf op =
  let n = String.length op and k = String.length suf in
  if n > k && String.sub op (n - k) k = suf then (String.sub op 0 (n - k), true) else (op, false)
let icat_of = function 0 -> CatRandom | 1 -> CatInput | 2 -> CatForward | _ -> CatBidi
let zs z = str_of_z z
let zi i = z_of_int i

let dest_kind op =
  let b = strip_flavour op in
  if b == op || String.length b = String.length op then 0 else Char.code op.[String.length op - 1] - 48
(* destination buffers of the copying family: `cap` guard cells (the harness' exact-size buffer; a back_insert_iterator
   target has room for 64); the model leg shows what the harness shows: the written prefix and the tail verdict *)
let guard = z_of_int (-777777)
let dest_buf dk cap = List.init (if dk = 2 then 64 else cap) (fun _ -> guard)
let is_guard z = big_of_z z = big_of_z guard
let fmt_out (d', r) =
  let k = int_of_nat r in
  prefix_s d' k ^ (if List.for_all is_guard (drop k d') then "" else " WROTE-PAST-RETURN")
let fmt_out_backward cap (d', pos) =
  let p = int_of_nat pos in
  let rec take n = function [] -> [] | x :: t -> if n <= 0 then [] else x :: take (n - 1) t in
  zl (drop p d') ^ (if List.for_all is_guard (take p d') then "" else " WROTE-PAST-RETURN")

let run_case0 op t =
  let dk = dest_kind op in
  let op = strip_flavour op in
  match op with
  | "swap_ranges_fwd" | "swap_array" ->
      let l1 = next_zlist t in let l2 = next_zlist t in
      let fmt (a, b) = string_of_int (List.length a) ^ " " ^ zl a ^ " " ^ zl b in
      (res_s fmt (swap_ranges l1 l2),
       if List.length l2 >= List.length l1 then "ok " ^ fmt (swap_ranges_spec l1 l2) else "na")
  | "reverse_rev" ->
      (* etl::reverse on reverse iterators over [f, n): the random-access loop runs on the reversed view *)
      let f = next_int t in let n = next_int t in let l = next_zlist t in
      let len = List.length l in
      let r = match reverse_ra (List.rev l) (nat_of_int (len - n)) (nat_of_int (len - f)) with
        | Ok l' -> Ok (List.rev l') | Contract -> Contract | UB u -> UB u | OutOfFuel -> OutOfFuel in
      (res_s zl r, "ok " ^ zl (reverse_spec l (nat_of_int f) (nat_of_int n)))
  | "copy_ov" | "move_ov" ->
      let f = next_int t in let la = next_int t in let d = next_int t in let l = next_zlist t in
      let len = List.length l in
      let fmt (l', r) = nat_s r ^ " " ^ zl l' in
      let ok = (d <= f || la <= d) && d + (la - f) <= len in
      (res_s fmt (move_fwd (nat_of_int (len + 1)) l (nat_of_int f) (nat_of_int la) (nat_of_int d)),
       if ok then "ok " ^ string_of_int (d + (la - f)) ^ " " ^ zl (copy_within_spec l (nat_of_int f) (nat_of_int la) (nat_of_int d))
       else "na")
  | "copy_backward_ov" | "move_backward_ov" ->
      let f = next_int t in let la = next_int t in let d = next_int t in let l = next_zlist t in
      let len = List.length l in
      let fmt (l', r) = nat_s r ^ " " ^ zl l' in
      let ok = (la <= d || d <= f) && la - f <= d && d <= len in
      (res_s fmt (move_bwd (nat_of_int (len + 1)) l (nat_of_int f) (nat_of_int la) (nat_of_int d)),
       if ok then "ok " ^ string_of_int (d - (la - f)) ^ " " ^ zl (copy_backward_within_spec l (nat_of_int f) (nat_of_int la) (nat_of_int d))
       else "na")
  | "revit_cmp" ->
      (* reverse iterators at reversed positions i, j of an array v[q] = 100 + q of length n (+1 sentinel) *)
      let n = next_int t in let i = next_int t in let j = next_int t in
      let x = zi (n - i) and y = zi (n - j) in          (* base positions *)
      let k = zi (j - i) in
      let elem pos = Big.to_int (big_of_z pos) + 100 in
      let m = join [
        b2s (rev_eq x y); b2s (rev_ne x y); b2s (rev_lt x y); b2s (rev_le x y); b2s (rev_gt x y); b2s (rev_ge x y);
        zs (rev_diff y x); zs (rev_plus x k); zs (rev_minus y k); zs (rev_plus x k);
        (if i < n then string_of_int (elem (rev_deref x)) else "-1");
        (if i < n then string_of_int (elem (rev_index x (zi 0))) else "-1");
        (if i < j then string_of_int (elem (rev_index x (zi (j - i - 1)))) else "-1");
        b2s (rev_eq (rev_plus x k) y); b2s (rev_eq (rev_minus (rev_plus x k) k) x);
        (* w = x; w++ (old, new); ++w (new, new); w-- (old, new); --w (new, new) *)
        zs x; zs (rev_incr x);
        zs (rev_incr (rev_incr x)); zs (rev_incr (rev_incr x));
        zs (rev_incr (rev_incr x)); zs (rev_decr (rev_incr (rev_incr x)));
        zs (rev_decr (rev_decr (rev_incr (rev_incr x)))); zs (rev_decr (rev_decr (rev_incr (rev_incr x))));
        zs x; zs y; b2s (rev_eq x x); b2s (rev_ne y x); zs x;
        (if i < n then string_of_int (elem (rev_deref x)) else "-1") ] in
      (* spec: everything follows from the reversed positions i, j *)
      let s = join [
        b2s (i = j); b2s (i <> j); b2s (i < j); b2s (i <= j); b2s (i > j); b2s (i >= j);
        string_of_int (j - i); string_of_int (n - j); string_of_int (n - i); string_of_int (n - j);
        (if i < n then string_of_int (100 + n - 1 - i) else "-1");
        (if i < n then string_of_int (100 + n - 1 - i) else "-1");
        (if i < j then string_of_int (100 + n - 1 - (j - 1)) else "-1");
        "1"; "1";
        string_of_int (n - i); string_of_int (n - (i + 1));
        string_of_int (n - (i + 2)); string_of_int (n - (i + 2));
        string_of_int (n - (i + 2)); string_of_int (n - (i + 1));
        string_of_int (n - i); string_of_int (n - i);
        string_of_int (n - i); string_of_int (n - j); "1"; b2s (i <> j); string_of_int (n - i);
        (if i < n then string_of_int (100 + n - 1 - i) else "-1") ] in
      ("ok " ^ m, "ok " ^ s)
  | "iter_fn" ->
      let c = next_int t in let _len = next_int t in let pos = next_int t in let n = next_int t in
      let cat = icat_of c in
      let p = zi pos and nz = zi n in
      let dist = match distance_m cat p (zi (pos + n)) with Ok d -> zs d | OutOfFuel -> "out-of-fuel" | _ -> "ub" in
      let fwd_m = [ zs (next_m cat p nz); (if n = 1 then zs (next_m cat p (zi 1)) else "-1"); zs (advance_m cat p nz); dist ] in
      let fwd_s = [ string_of_int (pos + n); (if n = 1 then string_of_int (pos + 1) else "-1"); string_of_int (pos + n); string_of_int n ] in
      let bwd_m = [ zs (prev_m cat p (zi (- n))); (if n = -1 then zs (prev_m cat p (zi 1)) else "-1"); zs (advance_m cat p nz) ] in
      let bwd_s = [ string_of_int (pos + n); (if n = -1 then string_of_int (pos - 1) else "-1"); string_of_int (pos + n) ] in
      let bidi = c = 0 || c = 3 in
      let m = (if n < 0 then [] else fwd_m) @ (if bidi then bwd_m else []) in
      let s = (if n < 0 then [] else fwd_s) @ (if bidi then bwd_s else []) in
      (join ("ok" :: m), join ("ok" :: s))
  | "rotate" | "rotate_fwd" ->
      let f = next_nat t in let m = next_nat t in let n = next_nat t in
      let l = next_zlist t in
      let fmt (l', r) = nat_s r ^ " " ^ zl l' in
      (res_s fmt (rotate l f m n), "ok " ^ fmt (rotate_spec l f m n))
  | "reverse_ra" | "reverse_bidi" ->
      let f = next_nat t in let n = next_nat t in let l = next_zlist t in
      let r = if op = "reverse_ra" then reverse_ra l f n else reverse_bidi l f n in
      (res_s zl r, "ok " ^ zl (reverse_spec l f n))
  | "swap_ranges" ->
      let l1 = next_zlist t in let l2 = next_zlist t in
      let fmt (a, b) = string_of_int (List.length a) ^ " " ^ zl a ^ " " ^ zl b in
      (res_s fmt (swap_ranges l1 l2),
       if List.length l2 >= List.length l1 then "ok " ^ fmt (swap_ranges_spec l1 l2) else "na")
  | "remove_if" | "remove_if_full" | "remove" | "remove_fwd" ->
      let id = next_z t in let l = next_zlist t in
      let p = if op = "remove" then (fun x -> big_of_z x = big_of_z id) else pred_of id in
      let full = op = "remove_if_full" in
      let fmt (l', r) = if full then nat_s r ^ " " ^ zl l' else prefix_s l' (int_of_nat r) in
      (res_s fmt (remove_if p l), if full then "na" else "ok " ^ zl (remove_if_spec p l))
  | "unique" | "unique_full" | "unique_fwd" ->
      let id = next_z t in let l = next_zlist t in
      let full = op = "unique_full" in
      let fmt (l', r) = if full then nat_s r ^ " " ^ zl l' else prefix_s l' (int_of_nat r) in
      (res_s fmt (unique (eqv_of id) l), if full then "na" else "ok " ^ zl (unique_spec (eqv_of id) l))
  | "partition" | "partition_full" | "partition_fwd" ->
      let id = next_z t in let l = next_zlist t in
      let p = pred_of id in
      let full = op = "partition_full" in
      let fmt (l', r) =
        let k = int_of_nat r in
        if full then nat_s r ^ " " ^ zl l'
        else
          let rec take n = function [] -> [] | x :: t -> if n <= 0 then [] else x :: take (n - 1) t in
          let okp = List.for_all p (take k l') && not (List.exists p (drop k l')) in
          nat_s r ^ " " ^ b2s okp ^ " " ^ b2s (is_perm l' l) in
      (res_s fmt (partition p l),
       if full then "na" else "ok " ^ nat_s (partition_point_spec p l) ^ " 1 1")
  | "stable_partition" ->
      let id = next_z t in let l = next_zlist t in
      let fmt (l', r) = nat_s r ^ " " ^ zl l' in
      (res_s fmt (stable_partition (pred_of id) l), "ok " ^ fmt (stable_partition_spec (pred_of id) l))
  | "shift_left" | "shift_left_full" | "shift_left_fwd" | "shift_right" | "shift_right_full" | "shift_right_bidi" ->
      let n = next_z t in let l = next_zlist t in
      let left = String.length op >= 10 && String.sub op 0 10 = "shift_left" in
      let (_, full) = strip_full op in
      let len = List.length l in
      let fmt (l', r) =
        let k = int_of_nat r in
        if full then nat_s r ^ " " ^ zl l'
        else if left then nat_s r ^ " " ^ prefix_s l' k
        else nat_s r ^ " " ^ zl (drop k l') in
      let m = if left then shift_left l n else shift_right l n in
      let ni = Big.to_int (big_of_z n) in
      let spec =
        if full || ni < 0 then "na"
        else if ni = 0 then (if left then "ok " ^ string_of_int len ^ " " ^ zl l else "ok 0 " ^ zl l)
        else if ni >= len then (if left then "ok 0 0" else "ok " ^ string_of_int len ^ " 0")
        else if left then "ok " ^ string_of_int (len - ni) ^ " " ^ zl (shift_left_spec l (nat_of_int ni))
        else "ok " ^ string_of_int ni ^ " " ^ zl (shift_right_spec l (nat_of_int ni)) in
      (res_s fmt m, spec)
  | "inplace_merge" ->
      let id = next_z t in let mid = next_nat t in let l = next_zlist t in
      let lt = cmp_of2 id in
      let k = int_of_nat mid in
      let rec take n = function [] -> [] | x :: t -> if n <= 0 then [] else x :: take (n - 1) t in
      (res_s zl (inplace_merge lt l O mid (nat_of_int (List.length l))),
       "ok " ^ zl (merge_spec lt (take k l) (drop k l)))
  | _ ->
      let (nm, full) = strip_full op in
      let (nm, rev) = strip_suffix "_rev" nm in
      let (nm, _bidi) = if rev then (nm, false) else strip_suffix "_bidi" nm in
      (match nm with
       | "sort" | "stable_sort" | "insertion_sort" | "gnome_sort" | "bubble_sort" | "exchange_sort" | "merge_sort"
       | "nth_element" | "partial_sort" ->
           let id = next_z t in
           let k = if nm = "nth_element" || nm = "partial_sort" then next_int t else 0 in
           let l = next_zlist t in
           let l = if rev then List.rev l else l in   (* the algorithm sees the reversed view; all legs print it *)
           let lt = cmp_of2 id in
           let m = match nm with
             | "stable_sort" | "insertion_sort" -> insertion_sort lt l
             | "sort" | "gnome_sort" | "nth_element" | "partial_sort" -> gnome_sort lt l
             | "bubble_sort" -> bubble_sort lt l
             | "exchange_sort" -> exchange_sort lt l
             | _ -> merge_sort lt l in
           let stable = nm = "stable_sort" in
           let fmt r =
             if full || stable then zl r
             else b2s (is_sorted lt r) ^ " " ^ b2s (is_perm r l) in
           ignore k;
           (res_s fmt m,
            if full then "na" else if stable then "ok " ^ zl (stable_sort_spec lt l) else "ok 1 1")
       | "copy" | "move" | "copy_in" ->
           let l = next_zlist t in
           (res_s fmt_out (copy_out l (dest_buf dk (List.length l)) O), "ok " ^ zl l)
       | "copy_backward" | "move_backward" ->
           let l = next_zlist t in
           let cap = List.length l in
           (res_s (fmt_out_backward cap) (copy_backward_out l (dest_buf 0 cap) (nat_of_int cap)), "ok " ^ zl l)
       | "reverse_copy" ->
           let l = next_zlist t in
           (res_s fmt_out (reverse_copy_out l (dest_buf dk (List.length l)) O), "ok " ^ zl (List.rev l))
       | "copy_n" ->
           let n = next_z t in let l = next_zlist t in
           let ni = Big.to_int (big_of_z n) in
           (res_s fmt_out (copy_n_out l n (dest_buf dk (List.length l)) O),
            if ni <= List.length l then "ok " ^ zl (copy_n_spec l (nat_of_int ni)) else "na")
       | "copy_if" -> let id = next_z t in let l = next_zlist t in
           (res_s fmt_out (copy_if_out (pred_of id) l (dest_buf dk (List.length l)) O), "ok " ^ zl (List.filter (pred_of id) l))
       | "remove_copy_if" -> let id = next_z t in let l = next_zlist t in
           (res_s fmt_out (remove_copy_if_out (pred_of id) l (dest_buf dk (List.length l)) O), "ok " ^ zl (remove_if_spec (pred_of id) l))
       | "remove_copy" -> let id = next_z t in let l = next_zlist t in
           let p = fun x -> big_of_z x = big_of_z id in
           (res_s fmt_out (remove_copy_if_out p l (dest_buf dk (List.length l)) O), "ok " ^ zl (remove_if_spec p l))
       | "fill" | "generate" ->
           (* in place over the whole range [first, last): no separate destination *)
           let _n = next_z t in let v = next_z t in let len = next_int t in
           let r = if nm = "fill" then fill_n (z_of_int len) v else generate_from v (nat_of_int len) in
           let s = List.init len (fun i -> if nm = "fill" then v else z_of_big (Big.add (big_of_z v) (Big.of_int i))) in
           ("ok " ^ zl r, "ok " ^ zl s)
       | "fill_n" | "generate_n" ->
           let n = next_z t in let v = next_z t in let len = next_int t in
           let cnt = max 0 (Big.to_int (big_of_z n)) in
           let m = if nm = "fill_n" then fill_n_out n v (dest_buf dk len) O
                   else generate_n_out n (fun s -> (s, z_of_big (Big.succ (big_of_z s)))) v (dest_buf dk len) O in
           let s = List.init cnt (fun i -> if nm = "fill_n" then v else z_of_big (Big.add (big_of_z v) (Big.of_int i))) in
           (res_s fmt_out m, "ok " ^ zl s)
       | "replace_if" | "replace" ->
           let id = next_z t in let nv = next_z t in let l = next_zlist t in
           let p = if nm = "replace" then (fun x -> big_of_z x = big_of_z id) else pred_of id in
           ("ok " ^ zl (replace_if p nv l), "ok " ^ zl (List.map (fun x -> if p x then nv else x) l))
       | "transform1" -> let id = next_z t in let l = next_zlist t in
           (res_s fmt_out (transform1_out (fun1_of id) l (dest_buf dk (List.length l)) O), "ok " ^ zl (List.map (fun1_of id) l))
       | "transform2" -> let id = next_z t in let l1 = next_zlist t in let l2 = next_zlist t in
           (res_s fmt_out (transform2_out (fun2_of id) l1 l2 (dest_buf dk (List.length l1)) O),
            if List.length l2 >= List.length l1 then
              "ok " ^ zl (List.mapi (fun i a -> fun2_of id a (List.nth l2 i)) l1) else "na")
       | "rotate_copy" -> let m = next_nat t in let l = next_zlist t in
           (res_s fmt_out (rotate_copy_out l m (dest_buf dk (List.length l)) O), "ok " ^ zl (rotate_copy_spec l m))
       | "unique_copy" -> let id = next_z t in let l = next_zlist t in
           (res_s fmt_out (unique_copy_out (eqv_of id) l (dest_buf 0 (List.length l)) O), "ok " ^ zl (unique_spec (eqv_of id) l))
       | "partition_copy" -> let id = next_z t in let l = next_zlist t in
           let fmt (a, b) = zl a ^ " " ^ zl b in
           let fmt2 ((d1, r1), (d2, r2)) =
             let k1 = int_of_nat r1 and k2 = int_of_nat r2 in
             prefix_s d1 k1 ^ " " ^ prefix_s d2 k2
             ^ (if List.for_all is_guard (drop k1 d1) && List.for_all is_guard (drop k2 d2) then "" else " WROTE-PAST-RETURN") in
           let cap = List.length l in
           (res_s fmt2 (partition_copy_out (pred_of id) l (dest_buf dk cap) O (dest_buf dk cap) O),
            "ok " ^ fmt (partition_copy_spec (pred_of id) l))
       | _ -> raise Not_found)

(* "_t<k>": result type of the predicate / comparator (int with truthy value 2, -1, 4096; class type convertible to bool):
   the code may use the result only through its conversion to bool, so the model is that of the bool predicate *)
let strip_truth op =
  let n = String.length op in
  if n > 3 && op.[n - 3] = '_' && op.[n - 2] = 't' && op.[n - 1] >= '1' && op.[n - 1] <= '4' then String.sub op 0 (n - 3) else op

(* "_mv" / "_mv_full": move-tracking element type (a move marks its source with -999, no self test).
   _mv_full of unique / remove_if / shift_left / shift_right / move_ov / move_backward_ov: the model with explicit moves
   (coq/C06a/ModelMove.v): whole array with the marks + number of move assignments.  Everything else: the values are
   those of the copy model (no mark may survive in the part of the array that is shown). *)
let mvz = z_of_int (-999)
let rec take n = function [] -> [] | x :: t -> if n <= 0 then [] else x :: take (n - 1) t
let run_mv base full t =
  let fmt_mv ((l', r), tr) = nat_s r ^ " " ^ zl l' ^ " A " ^ string_of_int (List.length tr) in
  match base, full with
  | "unique", true -> let id = next_z t in let l = next_zlist t in (res_s fmt_mv (unique_mv mvz (eqv_of id) l), "na")
  | "remove_if", true -> let id = next_z t in let l = next_zlist t in (res_s fmt_mv (remove_if_mv mvz (pred_of id) l), "na")
  | "shift_left", true -> let n = next_z t in let l = next_zlist t in (res_s fmt_mv (shift_left_mv mvz l n), "na")
  | "shift_right", true -> let n = next_z t in let l = next_zlist t in (res_s fmt_mv (shift_right_mv mvz l n), "na")
  | ("move_ov" | "move_backward_ov"), _ ->
      let f = next_int t in let la = next_int t in let d = next_int t in let l = next_zlist t in
      let len = List.length l in
      let fwd = base = "move_ov" in
      let fuel = nat_of_int (len + 1) in
      if full then
        ((if fwd then res_s fmt_mv (move_fwd_mv mvz fuel l (nat_of_int f) (nat_of_int la) (nat_of_int d) [])
          else res_s fmt_mv (move_bwd_mv mvz fuel l (nat_of_int f) (nat_of_int la) (nat_of_int d) [])), "na")
      else
        let n = la - f in
        let start r = if fwd then d else r in
        let fmt (l', r) = let r = int_of_nat r in string_of_int r ^ " " ^ zl (take n (drop (start r) l')) in
        let m = if fwd then move_fwd fuel l (nat_of_int f) (nat_of_int la) (nat_of_int d)
                else move_bwd fuel l (nat_of_int f) (nat_of_int la) (nat_of_int d) in
        let sp = if fwd then (copy_within_spec l (nat_of_int f) (nat_of_int la) (nat_of_int d), nat_of_int (d + n))
                 else (copy_backward_within_spec l (nat_of_int f) (nat_of_int la) (nat_of_int d), nat_of_int (d - n)) in
        (res_s fmt m, "ok " ^ fmt sp)
  | _ -> run_case0 (base ^ (if full then "_full" else "")) t

(* "_sw" / "_sw_full": element type with its OWN swap (a table slot: the id stays in place, the payload travels; coq/C06a/ModelSwap.v).
   iter_swap / reverse / swap_ranges / partition: the swap-parameterised loops run with the slot swap `uswap` - payloads, number
   of swaps (`S k`, where the standard fixes it) and IDS-MOVED if an id left its position.  The other swap-built algorithms
   (rotate, stable_partition, gnome/bubble/exchange sort and what is built on them): the payloads are those of the whole-element
   model and no id may move (the harness prints IDS-MOVED if one does). *)
let run_sw base full t =
  let slots l = List.mapi (fun i x -> (i, x)) l in
  let ids_tok l sl' = if List.map fst sl' = List.mapi (fun i _ -> i) l then "" else " IDS-MOVED" in
  let pay sl' = List.map snd sl' in
  match base with
  | "iter_swap" ->
      let i = next_int t in let j = next_int t in let l = next_zlist t in
      let fmt sl' = zl (pay sl') ^ " S 1" ^ ids_tok l sl' in
      let sp = List.mapi (fun k x -> if k = i then List.nth l j else if k = j then List.nth l i else x) l in
      (res_s fmt (iter_swap_sw uswap (slots l) (nat_of_int i) (nat_of_int j)), "ok " ^ zl sp ^ " S 1")
  | "reverse_ra" | "reverse_bidi" | "reverse_rev" ->
      let f = next_int t in let n = next_int t in let l = next_zlist t in
      let len = List.length l in
      let fmt (sl', c) = zl (pay sl') ^ " S " ^ nat_s c ^ ids_tok l sl' in
      let m =
        if base = "reverse_ra" then reverse_ra_sw uswap (slots l) (nat_of_int f) (nat_of_int n)
        else if base = "reverse_bidi" then reverse_bidi_sw uswap (slots l) (nat_of_int f) (nat_of_int n)
        else (match reverse_ra_sw uswap (List.rev (slots l)) (nat_of_int (len - n)) (nat_of_int (len - f)) with
              | Ok (sl', c) -> Ok (List.rev sl', c) | Contract -> Contract | UB u -> UB u | OutOfFuel -> OutOfFuel) in
      (res_s fmt m, "ok " ^ zl (reverse_spec l (nat_of_int f) (nat_of_int n)) ^ " S " ^ string_of_int ((n - f) / 2))
  | "swap_ranges" | "swap_ranges_fwd" | "swap_array" ->
      let l1 = next_zlist t in let l2 = next_zlist t in
      let fmt ((a, b), c) =
        string_of_int (List.length a) ^ " " ^ zl (pay a) ^ " " ^ zl (pay b) ^ ids_tok l2 b ^ " S " ^ nat_s c ^ ids_tok l1 a in
      let fmts (a, b) = string_of_int (List.length a) ^ " " ^ zl a ^ " " ^ zl b ^ " S " ^ string_of_int (List.length l1) in
      (res_s fmt (swap_ranges_slots (slots l1) (slots l2) O),
       if List.length l2 >= List.length l1 then "ok " ^ fmts (swap_ranges_spec l1 l2) else "na")
  | "partition" | "partition_fwd" ->
      let id = next_z t in let l = next_zlist t in
      let p = pred_of id in
      let fmt (sl', r) =
        let l' = pay sl' in
        let k = int_of_nat r in
        if full then nat_s r ^ " " ^ zl l' ^ ids_tok l sl'
        else
          let okp = List.for_all p (take k l') && not (List.exists p (drop k l')) in
          nat_s r ^ " " ^ b2s okp ^ " " ^ b2s (is_perm l' l) ^ ids_tok l sl' in
      (res_s fmt (partition_sw uswap (fun s -> p (snd s)) (slots l)),
       if full then "na" else "ok " ^ nat_s (partition_point_spec p l) ^ " 1 1")
  | _ -> run_case0 (base ^ (if full then "_full" else "")) t

let run_case op t =
  let op = strip_truth op in
  let (ops, sfull) = strip_suffix "_full" op in
  let (sbase, issw) = strip_suffix "_sw" ops in
  if issw then run_sw sbase sfull t else
  let (opm, mfull) = strip_suffix "_full" op in
  let (base, ismv) = strip_suffix "_mv" opm in
  if ismv then run_mv base mfull t else run_case0 op t

let () = main run_case
