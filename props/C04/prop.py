"""C04 — inplace_string matches std::string and is always null-terminated: generators and configuration."""
import itertools

ID = "C04"
LEVEL = "proof"
HARNESSES = [{"name": "main", "src": "harness.cpp", "flags": ["-O0", "-DTETL_ENABLE_CONTRACT_CHECKS=1"]},
             {"name": "consteval", "src": "consteval.cpp", "flags": ["-O0", "-DTETL_ENABLE_CONTRACT_CHECKS=1"]},
             {"name": "O2", "src": "harness.cpp", "flags": ["-O2", "-DTETL_ENABLE_CONTRACT_CHECKS=1"], "thorough_only": True}]

NPOS = 2**64 - 1
FAMS = ["find", "rfind", "ffo", "ffno", "flo", "flno"]
# instantiations compiled into the harness
CAPS = {"c": [0, 1, 2, 3, 7, 15, 16, 31, 254, 255, 256], "w": [0, 3, 15, 16, 256], "u": [0, 3, 15, 16],
        "s": [0, 3, 15, 16], "b": [0, 3, 15, 16]}
ALPHA = {"c": [97, 98, -128, 0], "w": [97, 98, -128, 0], "u": [97, 98, 0x80000005, 0], "s": [97, 98, 0x8000, 0],
         "b": [97, 98, 0x80, 0]}

RULE = ("histories: (i) exhaustive single operations (clear, push_back, pop_back, append x3, insert x2, erase x2, "
        "resize, assign x2, substr, swap) from every content state of length <= 3 over {a, b, NUL} at capacities "
        "0,1,2,3 with every (pos,count) in {0..len+1, npos}^2, and the remaining overloads (append/assign/insert "
        "with a C string, another string, a substring of another string or view, operator+= / operator+, "
        "erase(position), resize(n), etl::erase / erase_if) from every content of length <= 2; (ii) seeded random "
        "histories (length <= 30, capacity-aware with deliberate overflows) on capacities 0,1,7,15,16,31,255,256 "
        "(char) and the compiled wchar_t/char32_t/char16_t/char8_t instantiations; after EVERY step size(), "
        "data()[size()], the contents and the returned iterator/count are compared; for a sample of them (capacity <= 31) "
        "a block 'fill, shrink through every shrinking operation, grow through every appending/inserting overload' "
        "(stale characters behind the end) on eight configurations; additionally the RAW storage (all Capacity+1 characters incl. the tiny layout's size byte and the stale "
        "characters behind size()) is compared with the model's array after every step (histb). queries: the six search members with explicit and default position, compare, "
        "compare(pos1,n1,str,pos2,n2), copy, replace on every content of length <= 3 x needle of length <= 2 x "
        "pos in {0..len+1, npos}; compare/compare5/search again on every pair of contents of length <= 2 over the full "
        "alphabet {a, b, top-bit character (negative for char/wchar_t), NUL} for all five character types. Added by the review: every iterator-taking "
        "overload (append / assign / constructor) with pointers, etl::reverse_iterator, a forward-only and a genuine single-pass input iterator; 23 mutator forms and 7 "
        "replace forms whose argument is the string itself or a pointer / C string / view / substring / iterator range of it (contents of length <= 2 "
        "exhaustively, lengths 3 and 5 on seven configurations, random histories); every default argument written in the header (qdz_, qdc_, erd, er1, subd, "
        "sub1, ass2, avs2, zss2, zvs2, iss3, ivs3, c4s, c4v, replace4, copy2); const members on random contents of length 4..12 with needles cut out of the "
        "content (8 configurations); needle sets containing NUL with positions around size(); right-hand sides of another capacity (compare/relational up to 31 "
        "characters, operator+ / += with capacity 5); operator=(Char), assign(str), operator=(view), operator+=(view), (count, ch) constructor, reverse iteration. "
        "Long strings (60..capacity characters at capacities 254/255/256) through the copying/filling/rotating/scanning members; iterator-based replace with pairs "
        "that are not a range of the string. Writes into a caller's buffer (copyb, copyb2, vcopyb): copy(dest, count, pos), copy(dest, count) and "
        "basic_string_view(s).copy on a destination of non-zero pairwise different sentinels between two guard characters, the WHOLE destination is "
        "compared; destination length rlen, rlen+1, rlen+3, capacity+2; count in {0, 1, left-1, left, left+1, capacity, capacity+1, npos}, pos in "
        "{0, mid, size()-1, size(), size()+1}; contents with embedded NUL / top-bit character; 13 configurations. Spec leg outside std's domain: 'contract' where the documented precondition is false, else 'na'. non-trivial = distinct case whose impl leg contains a non-empty state")

TRUSTED_BASE = ["reference leg: libstdc++ 12 std::basic_string on the same histories"]
ASSUMPTIONS = ["LP64: size_t is 64 bits", "char signed 8-bit, wchar_t signed 32-bit (x86-64 Linux)",
               "capacity < 2^62 (theorem hypothesis)"]


def L(xs):
    return " ".join([str(len(xs))] + [str(x) for x in xs])


def strings(alpha, maxlen):
    out = []
    for n in range(0, maxlen + 1):
        out += [list(t) for t in itertools.product(alpha, repeat=n)]
    return out


def hist(ck, cap, ops):
    return f"hist {ck} {cap} {len(ops)} " + " ".join(ops)


def single_ops(l, al):
    """every single operation on a string with contents l (arguments around the boundaries)"""
    n = len(l)
    pcs = list(range(0, n + 2)) + [NPOS]
    a, b = al[0], al[1]
    ops = ["clear", f"pb {a}", "pop", f"ar {L([a, b])}", f"ar {L([])}", f"sw {L([b])}", f"sw {L([])}",
           f"sw {L([a, b, a])}", f"swf {L([b, a])}", f"swf {L([])}"]
    for k in [0, 1, 2, 3, NPOS]:
        ops.append(f"af {k} {b}")
        ops.append(f"rs {k} {b}")
        ops.append(f"asf {k} {a}")
    for k in range(0, 4):
        ops.append(f"ap {L([a, b, 0])} {k}")
        ops.append(f"asp {L([b, a, 0])} {k}")
    for p in pcs:
        for k in pcs:
            ops.append(f"er {p} {k}")
            ops.append(f"sub {p} {k}")
        for k in range(0, n + 2):
            if p != NPOS:
                ops.append(f"erng {p} {k}")
    for p in list(range(0, n + 2)) + [NPOS]:      # index > size(): TETL_PRECONDITION(index <= size())
        for k in range(0, 3):
            ops.append(f"ip {p} {L([b, a])} {k}")
            ops.append(f"if {p} {k} {b}")
    return ops


def gen_exhaustive(ck, caps, maxlen, out):
    al = ALPHA[ck]
    for cap in caps:
        for l in strings([al[0], al[1], 0], min(maxlen, cap)):
            pre = [f"asp {L(l)} {len(l)}"]
            for o in single_ops(l, al):
                out.append(hist(ck, cap, pre + [o]))


def gen_queries(ck, caps, out, rng, light=False, p5=0.3):
    al = ALPHA[ck][:2]
    for cap in caps:
        C = strings(al, min(3, cap))
        N = strings(al, min(2, cap))
        for l in C:
            ps = list(range(0, len(l) + 2)) + [NPOS]
            for n in N:
                for fam in FAMS:
                    out.append(f"qd_{fam} {ck} {cap} {L(l)} {L(n)}")
                    for p in ps:
                        out.append(f"q_{fam} {ck} {cap} {L(l)} {L(n)} {p}")
                out.append(f"cmp_1 {ck} {cap} {L(l)} {L(n)}")
                if not light:
                    pn = list(range(0, len(n) + 2)) + [NPOS]
                    for p1 in ps:
                        for n1 in ps:
                            for p2 in pn:
                                for n2 in pn:
                                    if rng.random() < p5:
                                        out.append(f"cmp_5 {ck} {cap} {L(l)} {p1} {n1} {L(n)} {p2} {n2}")
                for p in ps:
                    for k in ps:
                        if len(n) == 0:
                            out.append(f"copy_m {ck} {cap} {L(l)} {k} {p}")
                        out.append(f"replace {ck} {cap} {L(l)} {p} {k} {L(n)}")
                        if light:
                            continue
                        if p != NPOS and k != NPOS and p <= cap + 1 and k <= cap + 1:
                            # iterator-based overloads: [p, k) a range of the string, or not (last < first, beyond end())
                            out.append(f"replacei {ck} {cap} {L(l)} {p} {k} {L(n)}")
                            out.append(f"replaceiz {ck} {cap} {L(l)} {p} {k} {L(n)}")
                            out.append(f"replaceip {ck} {cap} {L(l)} {p} {k} {L(n + [al[0]])} {rng.randint(0, len(n) + 1)}")
                            out.append(f"replacef {ck} {cap} {L(l)} {p} {k} {rng.choice([0, 1, 2, 5, NPOS])} {al[1]}")
                        out.append(f"replacez {ck} {cap} {L(l)} {p} {k} {L(n)}")
                        out.append(f"replacep {ck} {cap} {L(l)} {p} {k} {L(n + [al[1]])} {rng.randint(0, len(n) + 1)}")
                        for p2 in list(range(0, len(n) + 1)):
                            out.append(f"replace5 {ck} {cap} {L(l)} {p} {k} {L(n)} {p2} {rng.choice([0, 1, 2, NPOS])}")


def gen_replace_self(ck, caps, out):
    """replace whose replacement lies inside the string itself (the string, a substring, a pointer into it, a C string
    into it), index- and iterator-based, on every content of length <= 4 over {a, b, c}... reduced: distinct letters
    so that a character read after it was overwritten shows"""
    for cap in caps:
        for n in range(0, min(cap, 5) + 1):
            l = [97 + i for i in range(n)]
            ps = list(range(0, n + 2)) + [NPOS]
            for p in ps:
                for k in ps:
                    out.append(f"replaces {ck} {cap} {L(l)} {p} {k}")
                    for off in range(0, n + 1):
                        out.append(f"replacezs {ck} {cap} {L(l)} {p} {k} {off}")
                        for c2 in range(0, n - off + 1):
                            out.append(f"replaceps {ck} {cap} {L(l)} {p} {k} {off} {c2}")
                    for off in range(0, n + 2):
                        for c2 in [0, 1, 2, 3, NPOS]:
                            out.append(f"replace5s {ck} {cap} {L(l)} {p} {k} {off} {c2}")
                    if p != NPOS and k != NPOS and p <= cap + 1 and k <= cap + 1:
                        out.append(f"replaceis {ck} {cap} {L(l)} {p} {k}")
                        for off in range(0, n + 1):
                            out.append(f"replaceizs {ck} {cap} {L(l)} {p} {k} {off}")
                            for c2 in range(0, n - off + 1):
                                out.append(f"replaceips {ck} {cap} {L(l)} {p} {k} {off} {c2}")


def gen_nul_needles(ck, cap, out):
    """search members with a needle SET / needle STRING that contains the null character, on contents with and without
    an embedded null, positions around size(): the terminator at data()[size()] must never take part in a match"""
    al = ALPHA[ck]
    a, b = al[0], al[1]
    for l in strings([a, b, 0], min(3, cap)):
        n = len(l)
        ps = sorted(set([0, max(n - 1, 0), n, n + 1, n + 2, NPOS - 1, NPOS]))
        for nd in [[0], [a, 0], [0, b], [0, 0], [b, 0, a]]:
            for fam in FAMS:
                out.append(f"qd_{fam} {ck} {cap} {L(l)} {L(nd)}")
                for p in ps:
                    if len(nd) <= cap:
                        out.append(f"q_{fam} {ck} {cap} {L(l)} {L(nd)} {p}")
                    out.append(f"sp_{fam} {ck} {cap} {L(l)} {L(nd)} {p} {len(nd)}")
        for fam in FAMS:
            for p in ps:
                out.append(f"sc_{fam} {ck} {cap} {L(l)} 0 {p}")


def gen_queries_long(ck, cap, out, rng, count):
    """const members on LONGER contents (4..12 characters, the exhaustive blocks stop at 3): random content over
    {a, b} + sometimes a top-bit character / NUL, needle = a substring of the content (so that matches at positions
    > 3 and repeated matches occur), a mutated substring or random; every family and argument form, compare with
    random (pos, count) pairs, copy, starts_with / ends_with / contains, relational operators, operator[]"""
    al = ALPHA[ck]
    for _ in range(count):
        n = rng.randint(4, min(cap, 12))
        l = [rng.choice(al[:2]) if rng.random() < 0.85 else rng.choice(al) for _ in range(n)]
        k = rng.random()
        if k < 0.6:
            i = rng.randint(0, n - 1)
            nd = l[i:i + rng.randint(0, 4)]
        elif k < 0.8:
            i = rng.randint(0, n - 1)
            nd = l[i:i + rng.randint(1, 4)]
            nd[rng.randrange(len(nd))] = rng.choice(al)
        else:
            nd = [rng.choice(al) for _ in range(rng.randint(0, 4))]
        nd = nd[:cap]
        ps = list(range(0, n + 2)) + [NPOS, NPOS - 1]
        fam = rng.choice(FAMS)
        for p in rng.sample(ps, 4):
            out.append(f"q_{fam} {ck} {cap} {L(l)} {L(nd)} {p}")
            out.append(f"sp_{fam} {ck} {cap} {L(l)} {L(nd + [al[0]])} {p} {len(nd)}")
            out.append(f"sz_{fam} {ck} {cap} {L(l)} {L(nd)} {p}")
            out.append(f"sc_{fam} {ck} {cap} {L(l)} {rng.choice(l + [al[2]])} {p}")
        out.append(f"qd_{fam} {ck} {cap} {L(l)} {L(nd)}")
        out.append(f"qdz_{fam} {ck} {cap} {L(l)} {L(nd)}")
        out.append(f"qdc_{fam} {ck} {cap} {L(l)} {rng.choice(l)}")
        out.append(f"riter {ck} {cap} {L(l)}")
        out.append(f"copy2 {ck} {cap} {L(l)} {rng.choice(ps)}")
        pn = list(range(0, len(nd) + 2)) + [NPOS]
        p1, n1, p2, n2 = rng.choice(ps), rng.choice(ps), rng.choice(pn), rng.choice(pn)
        if rng.random() < 0.7:
            p1, p2 = rng.randint(0, n), rng.randint(0, len(nd))
        out.append(f"cmp_5 {ck} {cap} {L(l)} {p1} {n1} {L(nd)} {p2} {n2}")
        out.append(f"c5v {ck} {cap} {L(l)} {p1} {n1} {L(nd)} {p2} {n2}")
        out.append(f"c4v {ck} {cap} {L(l)} {p1} {n1} {L(nd)} {p2}")
        out.append(f"c4s {ck} {cap} {L(l)} {p1} {n1} {L(nd)} {p2}")
        out.append(f"c3 {ck} {cap} {L(l)} {p1} {n1} {L(nd)}")
        out.append(f"c3z {ck} {cap} {L(l)} {p1} {n1} {L(nd)}")
        out.append(f"c3v {ck} {cap} {L(l)} {p1} {n1} {L(nd)}")
        out.append(f"c4p {ck} {cap} {L(l)} {p1} {n1} {L(nd + [al[1]])} {rng.randint(0, len(nd) + 1)}")
        m = l[:]
        if rng.random() < 0.7:
            m[rng.randrange(n)] = rng.choice(al)
        m = m[:rng.randint(0, n)] if rng.random() < 0.3 else m
        out.append(f"cmp_1 {ck} {cap} {L(l)} {L(m)}")
        out.append(f"rel_ss {ck} {cap} {L(l)} {L(m)}")
        out.append(f"rel_sx {ck} {cap} {L(l)} {L(m)}")
        out.append(f"rel_sx {ck} {cap} {L(l)} {L((l + [rng.choice(al) for _ in range(rng.randint(1, 31 - n))])[:31])}")
        out.append(f"rel_sz {ck} {cap} {L(l)} {L(m)}")
        out.append(f"rel_zs {ck} {cap} {L(l)} {L(m)}")
        out.append(f"cz {ck} {cap} {L(l)} {L(m)}")
        out.append(f"cv {ck} {cap} {L(l)} {L(m)}")
        out.append(f"copy_m {ck} {cap} {L(l)} {rng.choice(ps)} {rng.choice(ps)}")
        pre = l[:rng.randint(0, n)] if rng.random() < 0.5 else l[rng.randint(0, n):]
        out.append(f"pfx_v {ck} {cap} {L(l)} {L(pre)}")
        out.append(f"pfx_z {ck} {cap} {L(l)} {L(pre)}")
        out.append(f"pfx_c {ck} {cap} {L(l)} {rng.choice([l[0], l[-1], al[2]])}")
        out.append(f"idx {ck} {cap} {L(l)} {rng.choice(ps)}")
        out.append(f"fb {ck} {cap} {L(l)}")
        out.append(f"ef {ck} {cap} {L(l)}")
        # replace on longer contents (known-finding ops: compared with the model; with std where the length is kept)
        x = [rng.choice(al[:3]) for _ in range(rng.randint(0, 4))]
        p, c = rng.choice(ps), rng.choice(ps)
        if rng.random() < 0.5:
            p = rng.randint(0, n)
            c = len(x)
        out.append(f"replace {ck} {cap} {L(l)} {p} {c} {L(x)}")
        out.append(f"replacez {ck} {cap} {L(l)} {p} {c} {L(x)}")
        out.append(f"replacep {ck} {cap} {L(l)} {p} {c} {L(x + [al[1]])} {len(x)}")
        out.append(f"replace5 {ck} {cap} {L(l)} {p} {c} {L(x)} {rng.randint(0, len(x))} {rng.choice([0, 1, 2, NPOS])}")
        out.append(f"replace4 {ck} {cap} {L(l)} {p} {c} {L(x)} {rng.randint(0, len(x))}")


def gen_queries_hi(ck, cap, out, rng):
    """compare / search on contents over the FULL alphabet of the character type (a, b, a character with the top
    bit set - negative for char/wchar_t -, NUL): ordering of characters >= 0x80 and embedded NULs"""
    al = ALPHA[ck]
    C = strings(al, min(2, cap))
    for l in C:
        for n in C:
            out.append(f"cmp_1 {ck} {cap} {L(l)} {L(n)}")
            for _ in range(2):
                p1, n1 = rng.choice([0, 1, len(l)]), rng.choice([0, 1, 2, NPOS])
                p2, n2 = rng.choice([0, 1, len(n)]), rng.choice([0, 1, 2, NPOS])
                out.append(f"cmp_5 {ck} {cap} {L(l)} {p1} {n1} {L(n)} {p2} {n2}")
            fam = rng.choice(FAMS)
            for p in [0, len(l), NPOS]:
                out.append(f"q_{fam} {ck} {cap} {L(l)} {L(n)} {p}")


def gen_overloads(ck, caps, out, rng, frac=1.0):
    """the (s, pos, count) / (s, pos) / (ch, pos) overloads of the six search families, the eight compare
    overloads, starts_with / ends_with / contains, the 18 relational operators, operator[] / front / back /
    empty / full / size / length / capacity / max_size / end() - begin(), on every content of length <= 3 over
    {a, b} (+ samples with NUL and a top-bit character) with pos in {0..len+1, npos}"""
    al2 = ALPHA[ck][:2]
    al4 = ALPHA[ck]
    for cap in caps:
        C = strings(al2, min(3, cap)) + [x for x in strings(al4, min(2, cap)) if any(c not in al2 for c in x)]
        N = strings(al2, 2) + [[al4[2]], [al4[3]], [al4[0], al4[3], al4[1]], [al4[2], al4[0]]]
        for l in C:
            ps = list(range(0, len(l) + 2)) + [NPOS]
            out.append(f"ef {ck} {cap} {L(l)}")
            out.append(f"fb {ck} {cap} {L(l)}")
            out.append(f"riter {ck} {cap} {L(l)}")
            for k in ps:
                out.append(f"copy2 {ck} {cap} {L(l)} {k}")
            for i in ps:
                out.append(f"idx {ck} {cap} {L(l)} {i}")
            for c in al4:
                out.append(f"pfx_c {ck} {cap} {L(l)} {c}")
                for fam in FAMS:
                    out.append(f"qdc_{fam} {ck} {cap} {L(l)} {c}")
                    for p in ps:
                        out.append(f"sc_{fam} {ck} {cap} {L(l)} {c} {p}")
            for n in N:
                out.append(f"pfx_v {ck} {cap} {L(l)} {L(n)}")
                out.append(f"pfx_z {ck} {cap} {L(l)} {L(n)}")
                out.append(f"cz {ck} {cap} {L(l)} {L(n)}")
                out.append(f"cv {ck} {cap} {L(l)} {L(n)}")
                out.append(f"rel_sz {ck} {cap} {L(l)} {L(n)}")
                out.append(f"rel_sx {ck} {cap} {L(l)} {L(n)}")
                out.append(f"rel_zs {ck} {cap} {L(l)} {L(n)}")
                if len(n) <= cap:
                    out.append(f"rel_ss {ck} {cap} {L(l)} {L(n)}")
                out.append(f"rel_sx {ck} {cap} {L(l)} {L(l + n)}")
                out.append(f"rel_sx {ck} {cap} {L(l)} {L((l + [al2[0]] * 31)[:31])}")
                for fam in FAMS:
                    out.append(f"qdz_{fam} {ck} {cap} {L(l)} {L(n)}")
                    for p in ps:
                        out.append(f"sz_{fam} {ck} {cap} {L(l)} {L(n)} {p}")
                        out.append(f"sp_{fam} {ck} {cap} {L(l)} {L(n + [al2[0]])} {p} {rng.randint(0, len(n) + 1)}")
                pn = list(range(0, len(n) + 2)) + [NPOS]
                for p1 in ps:
                    for n1 in ps:
                        if len(n) <= cap and rng.random() < frac:
                            out.append(f"c3 {ck} {cap} {L(l)} {p1} {n1} {L(n)}")
                        if rng.random() < frac:
                            out.append(f"c3z {ck} {cap} {L(l)} {p1} {n1} {L(n)}")
                        if rng.random() < frac:
                            out.append(f"c3v {ck} {cap} {L(l)} {p1} {n1} {L(n)}")
                        if rng.random() < frac:
                            out.append(f"c4p {ck} {cap} {L(l)} {p1} {n1} {L(n + [al2[1]])} {rng.randint(0, len(n) + 1)}")
                        if rng.random() < frac:
                            out.append(f"c5v {ck} {cap} {L(l)} {p1} {n1} {L(n)} {rng.choice(pn)} {rng.choice(pn)}")
                        if rng.random() < frac:
                            out.append(f"c4v {ck} {cap} {L(l)} {p1} {n1} {L(n)} {rng.choice(pn)}")
                        if len(n) <= cap and rng.random() < frac:
                            out.append(f"c4s {ck} {cap} {L(l)} {p1} {n1} {L(n)} {rng.choice(pn)}")
                        if len(n) <= cap and rng.random() < frac:
                            out.append(f"replace4 {ck} {cap} {L(l)} {p1} {n1} {L(n)} {rng.choice(pn)}")


def single_ops2(l, al, cap):
    """the remaining mutator overloads on a string with contents l"""
    n = len(l)
    a, b = al[0], al[1]
    pcs = list(range(0, n + 2)) + [NPOS]
    srcs = [[], [b], [a, b], [b, 0, a], [a, b, a, b]]
    ops = [f"plc {a}", f"pec {b}", "rs0 0", f"rs0 {n + 1}", f"rs0 {NPOS}", "erd", "subd", f"zch {a}", f"zch {0}"]
    for p in pcs:
        ops += [f"er1 {p}", f"sub1 {p}"]
    for k in [0, 1, 2, 3, NPOS]:
        ops.append(f"kf {k} {b}")
    for src in srcs:
        ops.append(f"zst {L(src)}")
        for p in list(range(0, len(src) + 2)) + [NPOS]:
            for o in ["ass2", "avs2", "zss2", "zvs2"]:
                ops.append(f"{o} {L(src)} {p}")
            for i in range(0, n + 2):
                ops.append(f"iss3 {i} {L(src)} {p}")
                ops.append(f"ivs3 {i} {L(src)} {p}")
    for src in srcs:
        for o in ["acs", "pez", "plz", "zcs", "zeq", "ast", "pes", "pls", "av", "zv", "kv", "kr", "kz", "plsx", "pesx", "zveq", "pev"]:
            ops.append(f"{o} {L(src)}")
        ops.append(f"plzs {L([a, b])} {L(src)}")
        ops.append(f"plzs {L([])} {L(src)}")
        ops.append(f"plcs {b} {L(src)}")
        ss = list(range(0, len(src) + 2)) + [NPOS]
        for p in ss:
            for k in [0, 1, 2, NPOS]:
                for o in ["ass", "avs", "zss", "zvs", "kss", "kvs"]:
                    ops.append(f"{o} {L(src)} {p} {k}")
            ops.append(f"ks {L(src)} {p}")
        for i in range(0, n + 2):
            for o in ["ics", "ist", "iv"]:
                ops.append(f"{o} {i} {L(src)}")
            for p in ss:
                for k in [0, 1, NPOS]:
                    ops.append(f"iss {i} {L(src)} {p} {k}")
                    ops.append(f"ivs {i} {L(src)} {p} {k}")
    for p in pcs:
        if p != NPOS:
            ops.append(f"erp {p}")
    for c in [a, b, 0]:
        ops.append(f"fer {c}")
    ops += ["fei 0", "fei 1"]
    # every iterator-taking overload with pointers, etl::reverse_iterator (random access, not contiguous), a
    # forward-only and an input-only iterator
    for src in srcs + [[a, b, b]]:
        for o in ["arr", "arf", "ari", "zr", "zrr", "zrf", "zri", "krr", "krf"]:
            ops.append(f"{o} {L(src)}")
    ops += self_ops(n)
    # another capacity (5) on the right: empty ... full ... too long for it
    for k in [4, 5, 6]:
        ops += [f"plsx {L([a, b, a, b, a, b][:k])}", f"pesx {L([b, a, b, a, b, a][:k])}"]
    return ops


def self_ops(n):
    """arguments that point into / are the string itself (n = size()): pointer + count, C string, the string, a view
    of it, a substring of it, an iterator range of it"""
    ops = ["asts", "pess", "plss", "avss", "zself", "zvself", "sws"]
    offs = list(range(0, n + 2))
    for off in offs:
        ops += [f"zeqs {off}", f"zcss {off}", f"acss {off}"]
        for k in list(range(0, n + 2)) + [NPOS]:
            ops += [f"aps {off} {k}", f"asps {off} {k}", f"ars {off} {k}", f"asss {off} {k}", f"zsss {off} {k}",
                    f"avsss {off} {k}", f"zvsss {off} {k}"]
            for i in range(0, n + 2):
                ops += [f"ips {i} {off} {k}", f"isss {i} {off} {k}", f"ivsss {i} {off} {k}"]
        for i in range(0, n + 2):
            ops.append(f"icss {i} {off}")
    for i in range(0, n + 2):
        ops += [f"ists {i}", f"ivss {i}"]
    return ops


def gen_exhaustive2(ck, caps, maxlen, out):
    al = ALPHA[ck]
    for cap in caps:
        for l in strings([al[0], al[1]], min(maxlen, cap)):
            pre = [f"asp {L(l)} {len(l)}"]
            for o in single_ops2(l, al, cap):
                out.append(hist(ck, cap, pre + [o]))


def rchars(rng, ck, n):
    al = ALPHA[ck]
    return [rng.choice(al if rng.random() < 0.3 else al[:2]) for _ in range(n)]


def gen_history(rng, ck, cap, extra=False):
    """capacity-aware random history: mostly valid, sometimes overflowing / out of range"""
    n = 0
    ops = []
    for _ in range(rng.randint(1, 30)):
        room = cap - n
        wild = rng.random() < 0.06
        k = rng.random()
        if extra and k < 0.5:
            k = 0.99
        if k < 0.12:
            ops.append(f"pb {rchars(rng, ck, 1)[0]}")
            if room > 0 or wild:
                n = min(cap, n + 1)
            if room <= 0:
                break   # contract: the rest of the history is not executed
        elif k < 0.18:
            ops.append("pop")
            if n == 0:
                break
            n -= 1
        elif k < 0.28:
            c = rng.randint(0, room + 2) if wild else rng.randint(0, min(room, 6))
            ops.append(f"af {c} {rchars(rng, ck, 1)[0]}")
            n = min(cap, n + c)
        elif k < 0.38:
            src = rchars(rng, ck, rng.randint(0, 6))
            c = rng.randint(0, len(src))
            if not wild:
                c = min(c, room)
            ops.append(f"ap {L(src)} {c}")
            n = min(cap, n + c)
        elif k < 0.44:
            src = rchars(rng, ck, rng.randint(0, min(3, max(room, 0)) if not wild else 3))
            ops.append(f"ar {L(src)}")
            if len(src) > room:
                break
            n += len(src)
        elif k < 0.56:
            src = rchars(rng, ck, rng.randint(0, 5))
            c = rng.randint(0, len(src))
            if not wild:
                c = min(c, room)
            idx = rng.randint(0, n + (1 if wild else 0))
            ops.append(f"ip {idx} {L(src)} {c}")
            if idx > n:
                break
            n = min(cap, n + c)
        elif k < 0.62:
            c = rng.randint(0, 3)
            if not wild:
                c = min(c, max(room, 0))
            idx = rng.randint(0, n + (1 if wild else 0))
            ops.append(f"if {idx} {c} {rchars(rng, ck, 1)[0]}")
            if idx > n:
                break
            n = min(cap, n + c)
        elif k < 0.72:
            p = rng.randint(0, n + (1 if wild else 0))
            c = rng.choice([0, 1, 2, n, NPOS, rng.randint(0, n + 1)])
            ops.append(f"er {p} {c}")
            if p > n:
                break
            n -= min(c, n - p)
        elif k < 0.78:
            p = rng.randint(0, n)
            c = rng.randint(0, n - p + (1 if wild else 0))
            ops.append(f"erng {p} {c}")
            if c > n - p:
                break
            n -= c
        elif k < 0.86:
            c = rng.randint(0, cap + (2 if wild else 0)) if cap <= 31 else rng.choice([0, 1, n, n + 3, cap - 1, cap])
            c = max(c, 0)
            ops.append(f"rs {c} {rchars(rng, ck, 1)[0]}")
            n = min(cap, c)
        elif k < 0.90:
            src = rchars(rng, ck, rng.randint(0, min(cap, 5) + (1 if wild else 0)))
            ops.append(f"asp {L(src)} {len(src)}")
            if len(src) > cap:
                break
            n = len(src)
        elif k < 0.93:
            p = rng.randint(0, n + (1 if wild else 0))
            c = rng.choice([0, 1, n, NPOS, rng.randint(0, n + 1)])
            ops.append(f"sub {p} {c}")
            n = 0 if p > n else min(c, n - p)
        elif k < 0.97:
            src = rchars(rng, ck, rng.randint(0, min(cap, 6)))
            ops.append(f"{rng.choice(['sw', 'swf'])} {L(src)}")
            n = len(src)
        elif k < 0.985 or not extra:
            ops.append("clear")
            n = 0
        else:
            # one of the remaining overloads (arguments chosen to stay valid most of the time)
            src = rchars(rng, ck, rng.randint(0, min(4, max(room, 0)) if not wild else 4))
            src_nz = [c for c in src if c != 0]
            o = rng.choice(["acs", "pez", "plz", "ast", "pes", "pls", "av", "ass", "avs", "ics", "ist", "iv", "iss", "ivs",
                            "erp", "plc", "pec", "rs0", "zcs", "zeq", "zv", "zss", "zvs", "fer", "fei", "kz", "kv", "kr",
                            "kss", "kvs", "ks", "plzs", "plcs", "SELF", "SELF", "SELF", "ITER", "ITER"])
            if o == "SELF":
                # an argument inside the string itself; sizes tracked so that the result fits most of the time
                off = rng.randint(0, n)
                k = rng.randint(0, n - off) if not wild else rng.randint(0, n + 1)
                k = min(k, n - off)
                if k > room and not wild:
                    k = max(room, 0)
                i = rng.randint(0, n)
                so = rng.choice(["aps", "asps", "ips", "ars", "zeqs", "zcss", "acss", "icss", "asts", "pess", "plss", "ists",
                                 "ivss", "avss", "zself", "zvself", "sws", "asss", "zsss", "avsss", "zvsss", "isss", "ivsss"])
                if so in ("aps", "ars", "asss", "avsss"):
                    ops.append(f"{so} {off} {k}")
                    if so in ("ars", "asss") and k > room:
                        break
                    n = min(cap, n + k)
                elif so in ("asps", "zsss", "zvsss"):
                    ops.append(f"{so} {off} {k}")
                    n = k
                elif so in ("ips", "isss", "ivsss"):
                    ops.append(f"{so} {i} {off} {k}")
                    n = min(cap, n + k)
                elif so in ("zself", "sws"):
                    ops.append(so)
                elif so == "zvself":
                    ops.append(so)
                else:
                    # C strings / the whole string: the generator does not track embedded NULs; the history ends here
                    ops.append(f"{so} {i} {off}" if so == "icss" else (f"{so} {i}" if so in ("ists", "ivss") else (f"{so} {off}" if so in ("zeqs", "zcss", "acss") else so)))
                    break
                continue
            if o == "ITER":
                src = rchars(rng, ck, rng.randint(0, min(4, max(room, 0)) if not wild else 4))
                io = rng.choice(["arr", "arf", "ari", "zr", "zrr", "zrf", "zri", "krr", "krf"])
                if io in ("arr", "arf", "ari"):
                    ops.append(f"{io} {L(src)}")
                    if len(src) > room:
                        break
                    n += len(src)
                else:
                    src = rchars(rng, ck, rng.randint(0, min(cap, 5) + (1 if wild else 0)))
                    ops.append(f"{io} {L(src)}")
                    if len(src) > cap:
                        break
                    n = len(src)
                continue
            if o in ("acs", "pez", "plz"):
                ops.append(f"{o} {L(src)}")
                n = min(cap, n + (src.index(0) if 0 in src else len(src)))
            elif o in ("ast", "pes", "pls"):
                ops.append(f"{o} {L(src)}")
                if len(src) > room:
                    break
                n += len(src)
            elif o == "av":
                ops.append(f"{o} {L(src)}")
                n = min(cap, n + len(src))
            elif o in ("ass", "avs"):
                p = rng.randint(0, len(src) + (1 if wild else 0))
                c = rng.choice([0, 1, 2, NPOS])
                ops.append(f"{o} {L(src)} {p} {c}")
                if p > len(src) and o == "avs":
                    break
                add = 0 if p > len(src) else min(c, len(src) - p)
                if o == "ass" and add > room:
                    break
                n = min(cap, n + add)
            elif o in ("ics", "ist", "iv"):
                ops.append(f"{o} {rng.randint(0, n)} {L(src)}")
                n = min(cap, n + (src.index(0) if (0 in src and o == "ics") else len(src)))
            elif o in ("iss", "ivs"):
                p = rng.randint(0, len(src) + (1 if wild else 0))
                c = rng.choice([0, 1, 2, NPOS])
                ops.append(f"{o} {rng.randint(0, n)} {L(src)} {p} {c}")
                if p > len(src):
                    break
                n = min(cap, n + min(c, len(src) - p))
            elif o == "fer":
                ops.append(f"fer {rchars(rng, ck, 1)[0]}")
                break   # the generator does not track contents; the history ends here
            elif o == "fei":
                ops.append(f"fei {rng.randint(0, 1)}")
                break   # the generator does not track contents; the history ends here
            elif o == "erp":
                p = rng.randint(0, n)
                ops.append(f"erp {p}")
                if p >= n:
                    break
                n -= 1
            elif o in ("plc", "pec"):
                ops.append(f"{o} {rchars(rng, ck, 1)[0]}")
                n = min(cap, n + 1)
            elif o == "rs0":
                c = rng.randint(0, min(cap, n + 3))
                ops.append(f"rs0 {c}")
                n = c
            elif o in ("zcs", "zeq", "zv", "kz", "kv", "kr"):
                src2 = rchars(rng, ck, rng.randint(0, min(cap, 5)))
                ops.append(f"{o} {L(src2)}")
                n = (src2.index(0) if (0 in src2 and o in ("zcs", "zeq", "kz")) else len(src2))
            elif o in ("plzs", "plcs"):
                src2 = rchars(rng, ck, rng.randint(0, min(cap, 3)))
                if o == "plzs":
                    lhs = [c for c in rchars(rng, ck, rng.randint(0, min(max(cap - len(src2), 0), 3))) if c != 0]
                    ops.append(f"plzs {L(lhs)} {L(src2)}")
                    n = len(lhs) + len(src2)
                else:
                    ops.append(f"plcs {rchars(rng, ck, 1)[0]} {L(src2)}")
                    n = 1 + len(src2)
                if n > cap:
                    break
            elif o == "ks":
                src2 = rchars(rng, ck, rng.randint(0, min(cap, 5)))
                p = rng.randint(0, len(src2) + (1 if wild else 0))
                ops.append(f"ks {L(src2)} {p}")
                n = 0 if p > len(src2) else len(src2) - p
            else:
                src2 = rchars(rng, ck, rng.randint(0, min(cap, 5)))
                p = rng.randint(0, len(src2) + (1 if wild else 0))
                c = rng.choice([0, 1, 3, NPOS])
                ops.append(f"{o} {L(src2)} {p} {c}")
                if p > len(src2):
                    if o in ("zvs", "kvs"):
                        break
                    n = 0
                else:
                    n = min(c, len(src2) - p)
    return hist(ck, cap, ops)


def gen_copy_buf(ck, cap, out, rng, quick):
    """the members that write into a CALLER's buffer (copy(dest, count, pos), copy(dest, count), string_view(s).copy) on
    a destination prefilled with non-zero, pairwise different sentinels and observed as a whole (plus one guard character
    on each side): destination exactly as long as the copy (the character behind the copied ones is the guard), one / three
    longer, capacity + 2; count in {0, size()-pos-1, size()-pos, size()-pos+1, capacity, capacity+1, npos}, pos in
    {0, mid, size()-1, size(), size()+1}; contents with an embedded NUL and a top-bit character (a strncpy / strcpy-like
    copy stops or pads there)"""
    al = ALPHA[ck]
    base = [al[0], al[3], al[1], al[2], 99, 100, 101, 102, 103, 104, 105, 106, 107, 108, 109, 110]
    lens = sorted(set(n for n in [0, 1, 2, 3, 6, cap - 1, cap] if 0 <= n <= cap))
    if cap > 31:
        lens = [0, 5, 17, cap - 1, cap]
    for n in lens:
        if n <= len(base):
            l = base[:n]
        else:
            l = [rng.choice([97, 98, 99, 100, 0, al[2]]) if rng.random() < 0.1 else 97 + (i % 26) for i in range(n)]
        for pos in sorted(set([0, n // 2, max(n - 1, 0), n, n + 1])):
            left = n - pos
            counts = sorted(set(c for c in [0, 1, left - 1, left, left + 1, cap, cap + 1, NPOS] if c >= 0))
            if quick and cap > 31:
                counts = sorted(set(c for c in [0, left - 1, left, left + 1, NPOS] if c >= 0))
            for c in counts:
                rlen = min(c, left) if left >= 0 else 0
                for D in sorted(set([rlen, rlen + 1, rlen + 3, cap + 2])):
                    if D < rlen or (cap > 31 and D > rlen + 3):
                        continue
                    off = rng.randint(0, 40)
                    d = [35 + (off + i) % 50 for i in range(D)]
                    out.append(f"copyb {ck} {cap} {L(l)} {L(d)} {c} {pos}")
                    if D <= rlen + 1:
                        out.append(f"vcopyb {ck} {cap} {L(l)} {L(d)} {c} {pos}")
                    if pos == 0:
                        out.append(f"copyb2 {ck} {cap} {L(l)} {L(d)} {c}")


def gen(tier, rng):
    out = []
    quick = tier != "thorough"
    for ck, caps in [("c", [0, 1, 3, 7, 15, 16, 255]), ("w", [3, 16]), ("u", [3, 16]), ("s", [15]), ("b", [16])]:
        for cap in caps:
            gen_copy_buf(ck, cap, out, rng, quick)
    gen_exhaustive("c", [0, 1, 2, 3], 3, out)
    gen_exhaustive("w", [3], 2 if quick else 3, out)
    gen_exhaustive("u", [3], 2 if quick else 3, out)
    gen_queries("c", [3, 7, 16], out, rng, p5=0.15 if quick else 0.3)
    gen_queries("c", [0, 1, 15], out, rng, light=True)
    gen_queries("w", [3, 16], out, rng, light=True)
    gen_queries("u", [3, 16], out, rng, light=True)
    for ck, cap in [("c", 3), ("c", 16), ("w", 3), ("u", 3), ("s", 15), ("b", 16)]:
        gen_queries_hi(ck, cap, out, rng)
    for ck, cap, cnt in [("c", 7, 250), ("c", 15, 250), ("c", 16, 400), ("c", 255, 100), ("w", 16, 150), ("u", 16, 100), ("s", 15, 100), ("b", 16, 100)]:
        gen_queries_long(ck, cap, out, rng, cnt if quick else cnt * 20)
    fr = 0.3 if quick else 1.0
    gen_overloads("c", [3, 16], out, rng, fr)
    gen_overloads("c", [0, 1], out, rng, fr)
    gen_overloads("w", [3], out, rng, fr)
    if not quick:
        gen_overloads("c", [7, 15, 255], out, rng)
        gen_overloads("u", [3, 16], out, rng)
        gen_overloads("s", [15], out, rng)
        gen_overloads("b", [16], out, rng)
    gen_exhaustive2("c", [0, 1, 2, 3], 2, out)
    gen_exhaustive2("w", [3], 1 if quick else 2, out)
    gen_exhaustive2("c", [16], 1 if quick else 2, out)
    gen_exhaustive2("s", [3], 1 if quick else 2, out)
    gen_exhaustive2("b", [3], 1 if quick else 2, out)
    gen_exhaustive2("u", [0], 0, out)
    gen_exhaustive("s", [0, 3], 1 if quick else 3, out)
    gen_exhaustive("b", [0, 3], 1 if quick else 3, out)
    gen_exhaustive("w", [0], 0, out)
    nh = 4000 if quick else 400000
    for ck, caps in CAPS.items():
        share = {"c": 0.6, "w": 0.15, "u": 0.15, "s": 0.05, "b": 0.05}[ck]
        for _ in range(int(nh * share)):
            out.append(gen_history(rng, ck, rng.choice(caps)))
        for _ in range(int(nh * share * 0.5)):
            out.append(gen_history(rng, ck, rng.choice(caps), extra=True))
    # full strings at both sides of the layout boundary: fill exactly to capacity, then operate
    for cap in [1, 7, 15, 16, 31, 254, 255, 256]:
        for tail in ["pop", "clear", "er 0 18446744073709551615", f"er {cap - 1} 1", "sub 0 18446744073709551615",
                     f"sw {L([98])}", f"rs {cap} 99", f"rs {cap - 1} 99", "pb 98", "af 1 98", f"if 0 1 98",
                     f"erng 0 {cap}", f"sub {cap} 1", f"ip {cap} {L([97])} 0"]:
            out.append(hist("c", cap, [f"af {cap} 97", tail, "af 1 100"]))
    for ck, cap in [("c", 7), ("c", 16), ("w", 15), ("w", 16), ("u", 3), ("s", 15), ("b", 16), ("c", 255)]:
        gen_stale(ck, cap, out)
    for ck, cap, cnt, q in [("c", 254, 6, False), ("c", 255, 12, True), ("c", 256, 6, False), ("w", 256, 6, False)]:
        gen_long(ck, cap, out, rng, cnt if quick else cnt * 15, q)
    gen_replace_self("c", [7, 16] if quick else [3, 7, 15, 16, 255], out)
    gen_replace_self("w", [3] if quick else [3, 16], out)
    if not quick:
        gen_replace_self("u", [3, 16], out)
        gen_replace_self("s", [15], out)
        gen_replace_self("b", [16], out)
    for ck, cap in [("c", 3), ("c", 16), ("w", 3)] + ([] if quick else [("c", 7), ("c", 255), ("u", 16), ("s", 15), ("b", 16)]):
        gen_nul_needles(ck, cap, out)
    # self-referential arguments and iterator flavours on longer strings at both layouts
    for ck, cap in [("c", 7), ("c", 15), ("c", 16), ("w", 16), ("u", 15), ("s", 15), ("b", 16)]:
        al = ALPHA[ck]
        for n in ([3, 5] if quick else [1, 3, 5, 7]):
            l = [al[0], al[1], al[2], 99, 100, 101, 102][:n]
            pre = [f"asp {L(l)} {len(l)}"]
            for o in self_ops(n)[::1 if not quick else 3]:
                out.append(hist(ck, cap, pre + [o]))
            # default arguments on strings that are longer than any plausible wrong default (and on a full string)
            src4 = [al[1], al[0], 99, 100]
            dops = ["erd", "subd"]
            for q in sorted(set([0, 1, n - 1, n, n + 1])):
                dops += [f"er1 {q}", f"sub1 {q}"]
            for q in [0, 1, 4, 5]:
                dops += [f"zss2 {L(src4)} {q}", f"zvs2 {L(src4)} {q}", f"ass2 {L(src4)} {q}", f"avs2 {L(src4)} {q}",
                         f"iss3 0 {L(src4)} {q}", f"ivs3 {n} {L(src4)} {q}"]
            for o in dops:
                out.append(hist(ck, cap, pre + [o]))
                out.append(hist(ck, cap, [f"af {cap} {al[0]}", o]))
            for o in ["arr", "arf", "ari", "zr", "zrr", "zrf", "zri", "krr", "krf"]:
                for src in [[], [al[1]], [al[0], al[1], al[2]], [99, 100, 101, 102, 103, 104, 105, 106, 107, 108, 109, 110, 111]]:
                    out.append(hist(ck, cap, pre + [f"{o} {L(src)}"]))
    add_raw(out, rng, 0.2 if quick else 0.5)
    return out


def gen_long(ck, cap, out, rng, count, queries):
    """LONG strings (60 .. capacity characters) at the big capacities: every copying / filling / rotating / scanning
    loop of the library runs over more than a few characters (a chunked or unrolled loop that loses a remainder, a size
    field that is too narrow, an 8-bit index would not show on the short strings of the other blocks)"""
    al = ALPHA[ck]
    def text(n):
        return [al[0] + (i * 7 + i // 5) % 23 if rng.random() < 0.9 else rng.choice(al) for i in range(n)]
    # deterministic part: sources of exactly capacity, capacity - 1 and 129 characters through every member that copies,
    # measures or walks a source
    for n in [cap, cap - 1, 129]:
        l = [c for c in text(n) if c != 0]
        l = l + [al[1]] * (n - len(l))
        for o in ["zcs", "zeq", "kz", "zr", "zrr", "zrf", "zri", "zv", "kv", "zst", "acs", "pez", "ast", "pes", "av", "pev", "ar", "arr", "arf", "ari"]:
            out.append(hist(ck, cap, [f"{o} {L(l)}", "pop", f"pb {al[0]}"]))
        out.append(hist(ck, cap, [f"asp {L(l)} {n}", "pop", f"pb {al[0]}"]))
        out.append(hist(ck, cap, [f"ap {L(l)} {n}", f"er 1 {n - 2}"]))
        out.append(hist(ck, cap, [f"ip 0 {L(l)} {n}", f"erng 1 {n - 2}"]))
        out.append(hist(ck, cap, [f"sw {L(l)}", f"sub 1 {NPOS}"]))
        out.append(hist(ck, cap, [f"ics 0 {L(l)}", f"rs {n // 2} {al[0]}"]))
        out.append(hist(ck, cap, [f"asp {L(l[:n // 2])} {n // 2}", "asts"]))
        out.append(hist(ck, cap, [f"asp {L(l[:n // 2])} {n // 2}", f"aps 0 {n // 2}"]))
        out.append(hist(ck, cap, [f"asp {L(l[:n // 2])} {n // 2}", f"ips 1 0 {n // 2}"]))
    for _ in range(count):
        n = rng.randint(60, cap)
        l = text(n)
        pre = [f"asp {L(l)} {n}"]
        room = cap - n
        src = text(rng.randint(1, max(1, min(room, 70))))
        i = rng.randint(0, n)
        k = rng.randint(0, len(src))
        tails = [f"ip {i} {L(src)} {k}", f"ap {L(src)} {k}", f"acs {L([c for c in src if c != 0])}", f"ast {L(src[:cap])}",
                 f"ar {L(src)}", f"arr {L(src)}", f"arf {L(src)}", f"er {i} {rng.randint(0, n)}", f"erng {i} {rng.randint(0, n - i)}",
                 f"sub {i} {rng.randint(0, n)}", f"rs {rng.randint(0, cap)} {al[1]}", f"sw {L(text(rng.randint(60, cap)))}",
                 f"fer {l[rng.randrange(n)]}", "fei 1", f"zr {L(text(rng.randint(60, cap)))}", f"zcs {L([c for c in text(rng.randint(60, cap)) if c != 0])}",
                 f"aps {rng.randint(0, n)} {rng.randint(0, min(n, max(room, 0)))}", f"ips {i} {rng.randint(0, n)} {rng.randint(0, min(n, max(room, 0)))}",
                 f"asps {rng.randint(0, n)} {rng.randint(0, n)}", f"if {i} {rng.randint(0, min(3, max(room, 0)))} {al[1]}", "pop", f"erp {min(i, n - 1)}"]
        for t in rng.sample(tails, 6):
            out.append(hist(ck, cap, pre + [t]))
        if queries:
            a = rng.randint(0, n - 1)
            nd = l[a:a + rng.randint(1, 40)]
            if rng.random() < 0.3:
                nd[-1] = al[2]
            ps = [0, a, a + 1, n - len(nd), n - 1, n, n + 1, NPOS]
            fam = rng.choice(FAMS)
            for pp in rng.sample(ps, 3):
                pp = max(pp, 0)
                out.append(f"q_{fam} {ck} {cap} {L(l)} {L(nd)} {pp}")
                out.append(f"sz_{fam} {ck} {cap} {L(l)} {L([c for c in nd if c != 0])} {pp}")
                out.append(f"sc_{fam} {ck} {cap} {L(l)} {rng.choice(l)} {pp}")
            m = l[:]
            m[rng.randrange(n)] = al[2]
            out.append(f"cmp_1 {ck} {cap} {L(l)} {L(m)}")
            out.append(f"cmp_5 {ck} {cap} {L(l)} {rng.randint(0, n)} {rng.choice([NPOS, rng.randint(0, n)])} {L(m)} {rng.randint(0, n)} {rng.choice([NPOS, rng.randint(0, n)])}")
            out.append(f"rel_sz {ck} {cap} {L(l)} {L([c for c in m if c != 0])}")
            out.append(f"copy_m {ck} {cap} {L(l)} {rng.randint(0, n + 1)} {rng.randint(0, n + 1)}")
            out.append(f"pfx_v {ck} {cap} {L(l)} {L(l[:rng.randint(0, n)])}")
            out.append(f"pfx_v {ck} {cap} {L(l)} {L(l[rng.randint(0, n):])}")
            out.append(f"riter {ck} {cap} {L(l)}")
            x = text(rng.randint(0, 70))
            out.append(f"replace {ck} {cap} {L(l)} {rng.randint(0, n)} {len(x)} {L(x[:cap])}")
            out.append(f"replaceps {ck} {cap} {L(l)} {rng.randint(0, n)} {rng.randint(0, n)} 0 {rng.randint(0, n)}")


def gen_stale(ck, cap, out):
    """stale characters behind the end: fill, shrink through every shrinking operation, then grow through every
    appending / inserting overload — the terminator must be rewritten at the new size() each time"""
    al = ALPHA[ck]
    a, b = al[0], al[1]
    full = [a, b, a, b, a][:min(5, cap)]
    shrinks = ["rs 1 120", "rs0 2", f"er 1 {NPOS}", "pop", "sub 0 1", "erp 0", "clear", "erng 0 2", f"fer {a}", "fei 0",
               f"asp {L([b])} 1", f"sw {L([b])}"]
    grows = [f"af 1 {b}", f"ap {L([b, a])} 1", f"ar {L([b])}", f"acs {L([b])}", f"ast {L([b])}", f"pes {L([b])}",
             f"pec {b}", f"plc {b}", f"av {L([b])}", f"avs {L([a, b])} 1 1", f"ass {L([a, b])} 1 1", f"ip 0 {L([b])} 1",
             f"if 0 1 {b}", f"ics 0 {L([b])}", f"iss 0 {L([a, b])} 1 1", f"pb {b}", f"pls {L([b])}", f"plz {L([b])}",
             f"ist 0 {L([b])}", f"iv 0 {L([b])}"]
    for sh in shrinks:
        for g in grows:
            out.append(hist(ck, cap, [f"asp {L(full)} {len(full)}", sh, g]))


def add_raw(out, rng, frac):
    """twin cases 'histb': the same history, the impl leg prints the raw Capacity+1 characters of the object after
    every step and is compared with the model's array (layout, size byte, stale characters behind size())"""
    extra = []
    for c in out:
        if c.startswith("hist ") and rng.random() < frac:
            t = c.split(" ", 3)
            if int(t[2]) <= 31:
                extra.append("histb " + c[5:])
    out += extra


def nontrivial(case, impl):
    return impl.startswith("ok") and (" S " in impl and " S 0 " not in impl[-8:] or case.split(" ", 1)[0] != "hist")
