"""C04 — inplace_string matches std::string and is always null-terminated: generators and configuration."""
import itertools

ID = "C04"
LEVEL = "proof"
HARNESSES = [{"name": "main", "src": "harness.cpp", "flags": ["-O1", "-DTETL_ENABLE_CONTRACT_CHECKS=1"]}]

NPOS = 2**64 - 1
FAMS = ["find", "rfind", "ffo", "ffno", "flo", "flno"]
# instantiations compiled into the harness
CAPS = {"c": [0, 1, 2, 3, 7, 15, 16, 31, 255, 256], "w": [1, 3, 15, 16], "u": [3, 7, 16], "s": [15], "b": [16]}
ALPHA = {"c": [97, 98, -128, 0], "w": [97, 98, -128, 0], "u": [97, 98, 0x80000005, 0], "s": [97, 98, 0x8000, 0],
         "b": [97, 98, 0x80, 0]}

RULE = ("histories: (i) exhaustive single operations (clear, push_back, pop_back, append x3, insert x2, erase x2, "
        "resize, assign x2, substr, swap) from every content state of length <= 3 over {a, b, NUL} at capacities "
        "0,1,2,3 with every (pos,count) in {0..len+1, npos}^2; (ii) seeded random histories (length <= 30, "
        "capacity-aware with deliberate overflows) on capacities 0,1,7,15,16,31,255,256 (char) and the compiled "
        "wchar_t/char32_t/char16_t/char8_t instantiations; after EVERY step size(), data()[size()] and the "
        "contents are compared. queries: the six search members with explicit and default position, compare, "
        "compare(pos1,n1,str,pos2,n2), copy, replace on every content of length <= 3 x needle of length <= 2 x "
        "pos in {0..len+1, npos}; compare/compare5/search again on every pair of contents of length <= 2 over the full "
        "alphabet {a, b, top-bit character (negative for char/wchar_t), NUL} for all five character types. non-trivial = distinct case whose impl leg contains a non-empty state")

TRUSTED_BASE = ["reference leg: libstdc++ 12 std::basic_string on the same histories"]
ASSUMPTIONS = ["LP64: size_t is 64 bits", "char signed 8-bit, wchar_t signed 32-bit (x86-64 Linux)",
               "capacity < 2^62 (theorem hypothesis)"]


def L(xs):
    return " ".join([str(len(xs))] + [str(x) for x in xs])


def strings(alpha, maxlen):
    out = []
    for n in range(0, maxlen + 1):
        out += [list(t) for t in itertools.product(alpha, repeat=n)]
    return out


def hist(ck, cap, ops):
    return f"hist {ck} {cap} {len(ops)} " + " ".join(ops)


def single_ops(l, al):
    """every single operation on a string with contents l (arguments around the boundaries)"""
    n = len(l)
    pcs = list(range(0, n + 2)) + [NPOS]
    a, b = al[0], al[1]
    ops = ["clear", f"pb {a}", "pop", f"ar {L([a, b])}", f"ar {L([])}", f"sw {L([b])}", f"sw {L([])}",
           f"sw {L([a, b, a])}"]
    for k in [0, 1, 2, 3, NPOS]:
        ops.append(f"af {k} {b}")
        ops.append(f"rs {k} {b}")
        ops.append(f"asf {k} {a}")
    for k in range(0, 4):
        ops.append(f"ap {L([a, b, 0])} {k}")
        ops.append(f"asp {L([b, a, 0])} {k}")
    for p in pcs:
        for k in pcs:
            ops.append(f"er {p} {k}")
            ops.append(f"sub {p} {k}")
        for k in range(0, n + 2):
            if p != NPOS:
                ops.append(f"erng {p} {k}")
    for p in range(0, n + 1):      # insert beyond size() is undefined behaviour (no check in the library)
        for k in range(0, 3):
            ops.append(f"ip {p} {L([b, a])} {k}")
            ops.append(f"if {p} {k} {b}")
    return ops


def gen_exhaustive(ck, caps, maxlen, out):
    al = ALPHA[ck]
    for cap in caps:
        for l in strings([al[0], al[1], 0], min(maxlen, cap)):
            pre = [f"asp {L(l)} {len(l)}"]
            for o in single_ops(l, al):
                out.append(hist(ck, cap, pre + [o]))


def gen_queries(ck, caps, out, rng, light=False):
    al = ALPHA[ck][:2]
    for cap in caps:
        C = strings(al, min(3, cap))
        N = strings(al, min(2, cap))
        for l in C:
            ps = list(range(0, len(l) + 2)) + [NPOS]
            for n in N:
                for fam in FAMS:
                    out.append(f"qd_{fam} {ck} {cap} {L(l)} {L(n)}")
                    for p in ps:
                        out.append(f"q_{fam} {ck} {cap} {L(l)} {L(n)} {p}")
                out.append(f"cmp_1 {ck} {cap} {L(l)} {L(n)}")
                if not light:
                    pn = list(range(0, len(n) + 2)) + [NPOS]
                    for p1 in ps:
                        for n1 in ps:
                            for p2 in pn:
                                for n2 in pn:
                                    if rng.random() < 0.3:
                                        out.append(f"cmp_5 {ck} {cap} {L(l)} {p1} {n1} {L(n)} {p2} {n2}")
                for p in ps:
                    for k in ps:
                        if len(n) == 0:
                            out.append(f"copy_m {ck} {cap} {L(l)} {k} {p}")
                        if p != NPOS and k != NPOS:
                            out.append(f"replace {ck} {cap} {L(l)} {p} {k} {L(n)}")


def gen_queries_hi(ck, cap, out, rng):
    """compare / search on contents over the FULL alphabet of the character type (a, b, a character with the top
    bit set - negative for char/wchar_t -, NUL): ordering of characters >= 0x80 and embedded NULs"""
    al = ALPHA[ck]
    C = strings(al, min(2, cap))
    for l in C:
        for n in C:
            out.append(f"cmp_1 {ck} {cap} {L(l)} {L(n)}")
            for _ in range(2):
                p1, n1 = rng.choice([0, 1, len(l)]), rng.choice([0, 1, 2, NPOS])
                p2, n2 = rng.choice([0, 1, len(n)]), rng.choice([0, 1, 2, NPOS])
                out.append(f"cmp_5 {ck} {cap} {L(l)} {p1} {n1} {L(n)} {p2} {n2}")
            fam = rng.choice(FAMS)
            for p in [0, len(l), NPOS]:
                out.append(f"q_{fam} {ck} {cap} {L(l)} {L(n)} {p}")


def rchars(rng, ck, n):
    al = ALPHA[ck]
    return [rng.choice(al if rng.random() < 0.3 else al[:2]) for _ in range(n)]


def gen_history(rng, ck, cap):
    """capacity-aware random history: mostly valid, sometimes overflowing / out of range"""
    n = 0
    ops = []
    for _ in range(rng.randint(1, 30)):
        room = cap - n
        wild = rng.random() < 0.06
        k = rng.random()
        if k < 0.12:
            ops.append(f"pb {rchars(rng, ck, 1)[0]}")
            if room > 0 or wild:
                n = min(cap, n + 1)
            if room <= 0:
                break   # contract: the rest of the history is not executed
        elif k < 0.18:
            ops.append("pop")
            if n == 0:
                break
            n -= 1
        elif k < 0.28:
            c = rng.randint(0, room + 2) if wild else rng.randint(0, min(room, 6))
            ops.append(f"af {c} {rchars(rng, ck, 1)[0]}")
            n = min(cap, n + c)
        elif k < 0.38:
            src = rchars(rng, ck, rng.randint(0, 6))
            c = rng.randint(0, len(src))
            if not wild:
                c = min(c, room)
            ops.append(f"ap {L(src)} {c}")
            n = min(cap, n + c)
        elif k < 0.44:
            src = rchars(rng, ck, rng.randint(0, min(3, max(room, 0)) if not wild else 3))
            ops.append(f"ar {L(src)}")
            if len(src) > room:
                break
            n += len(src)
        elif k < 0.56:
            src = rchars(rng, ck, rng.randint(0, 5))
            c = rng.randint(0, len(src))
            if not wild:
                c = min(c, room)
            ops.append(f"ip {rng.randint(0, n)} {L(src)} {c}")
            n = min(cap, n + c)
        elif k < 0.62:
            c = rng.randint(0, 3)
            if not wild:
                c = min(c, max(room, 0))
            ops.append(f"if {rng.randint(0, n)} {c} {rchars(rng, ck, 1)[0]}")
            n = min(cap, n + c)
        elif k < 0.72:
            p = rng.randint(0, n + (1 if wild else 0))
            c = rng.choice([0, 1, 2, n, NPOS, rng.randint(0, n + 1)])
            ops.append(f"er {p} {c}")
            if p > n:
                break
            n -= min(c, n - p)
        elif k < 0.78:
            p = rng.randint(0, n)
            c = rng.randint(0, n - p + (1 if wild else 0))
            ops.append(f"erng {p} {c}")
            if c > n - p:
                break
            n -= c
        elif k < 0.86:
            c = rng.randint(0, cap + (2 if wild else 0)) if cap <= 31 else rng.choice([0, 1, n, n + 3, cap - 1, cap])
            c = max(c, 0)
            ops.append(f"rs {c} {rchars(rng, ck, 1)[0]}")
            n = min(cap, c)
        elif k < 0.90:
            src = rchars(rng, ck, rng.randint(0, min(cap, 5) + (1 if wild else 0)))
            ops.append(f"asp {L(src)} {len(src)}")
            if len(src) > cap:
                break
            n = len(src)
        elif k < 0.93:
            p = rng.randint(0, n + (1 if wild else 0))
            c = rng.choice([0, 1, n, NPOS, rng.randint(0, n + 1)])
            ops.append(f"sub {p} {c}")
            n = 0 if p > n else min(c, n - p)
        elif k < 0.97:
            src = rchars(rng, ck, rng.randint(0, min(cap, 6)))
            ops.append(f"sw {L(src)}")
            n = len(src)
        else:
            ops.append("clear")
            n = 0
    return hist(ck, cap, ops)


def gen(tier, rng):
    out = []
    quick = tier != "thorough"
    gen_exhaustive("c", [0, 1, 2, 3], 3, out)
    gen_exhaustive("w", [1, 3], 2 if quick else 3, out)
    gen_exhaustive("u", [3], 2 if quick else 3, out)
    gen_queries("c", [3, 7, 16], out, rng)
    gen_queries("c", [0, 1, 15], out, rng, light=True)
    gen_queries("w", [3, 16], out, rng, light=True)
    gen_queries("u", [3, 16], out, rng, light=True)
    for ck, cap in [("c", 3), ("c", 16), ("w", 3), ("u", 3), ("s", 15), ("b", 16)]:
        gen_queries_hi(ck, cap, out, rng)
    nh = 4000 if quick else 400000
    for ck, caps in CAPS.items():
        share = {"c": 0.6, "w": 0.15, "u": 0.15, "s": 0.05, "b": 0.05}[ck]
        for _ in range(int(nh * share)):
            out.append(gen_history(rng, ck, rng.choice(caps)))
    # full strings at both sides of the layout boundary: fill exactly to capacity, then operate
    for cap in [1, 7, 15, 16, 31, 255, 256]:
        for tail in ["pop", "clear", "er 0 18446744073709551615", f"er {cap - 1} 1", "sub 0 18446744073709551615",
                     f"sw {L([98])}", f"rs {cap} 99", f"rs {cap - 1} 99", "pb 98", "af 1 98", f"if 0 1 98",
                     f"erng 0 {cap}", f"sub {cap} 1", f"ip {cap} {L([97])} 0"]:
            out.append(hist("c", cap, [f"af {cap} 97", tail, "af 1 100"]))
    return out


def nontrivial(case, impl):
    return impl.startswith("ok") and (" S " in impl and " S 0 " not in impl[-8:] or case.split(" ", 1)[0] != "hist")
