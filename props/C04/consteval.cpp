// C04 harness variant "consteval": compiles the constant-evaluation scripts (see consteval_scripts.inc); a failing
// static_assert / an undefined behaviour met by the constant evaluator is a compile error of THIS variant only,
// so the main harness still runs and produces concrete failing inputs.  At run time every case is skipped.
#include "common.hpp"

#include <etl/string.hpp>
#include <etl/string_view.hpp>

#include <string>
#include <string_view>

#include "consteval_scripts.inc"

bool vh::run_case(std::string const& /*op*/, vh::Toks& /*in*/, vh::Out& impl, vh::Out& /*ref*/)
{
    impl.tok("skip");
    return true;
}

VERIF_MAIN()
