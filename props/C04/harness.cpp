// C04 harness: etl::basic_inplace_string<Char, Capacity> (impl leg) vs std::basic_string<Char>
// (reference leg) on the same histories / queries.
//
// hist <ck> <cap> <n> <op args...>*n : a history from the empty string; after every step the
//   observable state is printed: "S <size()> <data()[size()]> <size()> <characters...>".
//   A TETL_PRECONDITION failure ends the leg with "contract".  The reference leg is "na" as soon
//   as std::string has no defined result (out_of_range / precondition) or the result does not
//   fit into the capacity.
// q_<fam> / qd_<fam> / cmp_1 / cmp_5 / copy_m / replace : members on a string with given contents.
// copyb / copyb2 / vcopyb : copy into a caller's buffer, the whole destination (with guard characters) is observed.
// Source arguments are exact-size heap copies (not NUL-terminated).
#include "common.hpp"

#include <etl/string.hpp>
#include <etl/string_view.hpp>

#include <algorithm>
#include <iterator>
#include <string>
#include <string_view>

using namespace vh;

template <typename Char>
struct Src {
    Char* p;
    std::size_t n;
    explicit Src(std::vector<i64> const& v)
        : p(static_cast<Char*>(std::malloc((v.size() == 0 ? 1 : v.size()) * sizeof(Char))))
        , n(v.size())
    {
        for (std::size_t i = 0; i < n; ++i) { p[i] = static_cast<Char>(v[i]); }
    }
    Src(Src const&)                    = delete;
    auto operator=(Src const&) -> Src& = delete;
    ~Src() { std::free(p); }
};

// an iterator over a character array that is NOT a pointer and NOT random access: Tag = etl::forward_iterator_tag
// (multi-pass) or etl::input_iterator_tag (the library may only walk it once)
template <typename Char, typename Tag>
struct WrapIt {
    using iterator_category = Tag;
    using value_type        = Char;
    using difference_type   = std::ptrdiff_t;
    using pointer           = Char const*;
    using reference         = Char const&;
    Char const* p;
    auto operator*() const -> Char const& { return *p; }
    auto operator->() const -> Char const* { return p; }
    auto operator++() -> WrapIt& { ++p; return *this; }
    auto operator++(int) -> WrapIt { auto t = *this; ++p; return t; }
    friend auto operator==(WrapIt a, WrapIt b) -> bool { return a.p == b.p; }
    friend auto operator!=(WrapIt a, WrapIt b) -> bool { return a.p != b.p; }
};

// a genuine SINGLE-PASS input iterator (like istream_iterator): all copies share one read position, so a library that
// walks the range twice (e.g. to measure it first) finds it exhausted the second time
template <typename Char>
struct OncePos {
    Char const* cur;
    Char const* last;
};
template <typename Char>
struct OnceIt {
    using iterator_category = etl::input_iterator_tag;
    using value_type        = Char;
    using difference_type   = std::ptrdiff_t;
    using pointer           = Char const*;
    using reference         = Char const&;
    OncePos<Char>* st;   // nullptr: the end iterator
    auto exhausted() const -> bool { return st == nullptr || st->cur == st->last; }
    auto operator*() const -> Char const& { return *st->cur; }
    auto operator++() -> OnceIt& { ++st->cur; return *this; }
    auto operator++(int) -> OnceIt { auto t = *this; ++st->cur; return t; }
    friend auto operator==(OnceIt a, OnceIt b) -> bool { return a.exhausted() == b.exhausted(); }
    friend auto operator!=(OnceIt a, OnceIt b) -> bool { return !(a == b); }
};

// Q: the query operations (search / compare / replace / accessors ...) are compiled for this instantiation;
// every instantiation has the histories
template <typename Char, std::size_t Cap, bool Q = true>
struct Run {
    using E = etl::basic_inplace_string<Char, Cap>;
    using S = std::basic_string<Char>;
    static constexpr auto npos = static_cast<std::size_t>(-1);

    static void put_state(Out& o, E const& s)
    {
        o.tok("S").unum(s.size()).num(static_cast<i64>(s.data()[s.size()])).unum(s.size());
        for (std::size_t i = 0; i < s.size(); ++i) { o.num(static_cast<i64>(s.data()[i])); }
    }
    static void put_state(Out& o, S const& s)
    {
        o.tok("S").unum(s.size()).num(static_cast<i64>(s.c_str()[s.size()])).unum(s.size());
        for (std::size_t i = 0; i < s.size(); ++i) { o.num(static_cast<i64>(s[i])); }
    }

    // one history step on both strings; returns false when the reference has no defined result
    // retImpl / retRef: the iterator returned by erase(first, last) / erase(position) as an offset (-1: none)
    static bool step(Toks& in, E& e, bool& contract, S& r, bool& refOk, i64& retImpl, i64& retRef, Out& otherImpl,
                     Out& otherRef)
    {
        retImpl = -1;
        retRef  = -1;
        otherImpl.s.clear();
        otherRef.s.clear();
        auto op = in.str();
        Out scratch;
        auto impl = [&](auto f) {
            if (contract) { return; }
            guarded(scratch, [&](Out&) { f(); });
            if (scratch.s == "contract") { contract = true; }
        };
        auto ref = [&](bool defined, auto f) {
            if (!refOk) { return; }
            if (!defined) {
                refOk = false;
                return;
            }
            f();
            if (r.size() > Cap) { refOk = false; }
        };
        if (op == "clear") {
            impl([&] { e.clear(); });
            ref(true, [&] { r.clear(); });
        } else if (op == "pb") {
            auto c = static_cast<Char>(in.num());
            impl([&] { e.push_back(c); });
            ref(true, [&] { r.push_back(c); });
        } else if (op == "pop") {
            impl([&] { e.pop_back(); });
            ref(!r.empty(), [&] { r.pop_back(); });
        } else if (op == "af") {
            auto n = static_cast<std::size_t>(in.unum());
            auto c = static_cast<Char>(in.num());
            impl([&] { e.append(n, c); });
            ref(n <= 100000, [&] { r.append(n, c); });
        } else if (op == "ap") {
            Src<Char> src(in.list());
            auto n = static_cast<std::size_t>(in.unum());
            impl([&] { e.append(static_cast<Char const*>(src.p), n); });
            ref(n <= src.n, [&] { r.append(src.p, n); });
        } else if (op == "ar") {
            Src<Char> src(in.list());
            Char const* f = src.p;
            Char const* l = src.p + src.n;
            impl([&] { e.append(f, l); });
            ref(true, [&] { r.append(f, l); });
        } else if (op == "arr" || op == "arf" || op == "ari") {
            // append(first, last) with etl::reverse_iterator<pointer> (random access, not contiguous: the characters
            // arrive in reverse order), a forward-only and an input-only iterator
            Src<Char> src(in.list());
            Char const* f = src.p;
            Char const* l = src.p + src.n;
            if (op == "arr") {
                impl([&] { e.append(etl::reverse_iterator<Char const*>(l), etl::reverse_iterator<Char const*>(f)); });
                ref(true, [&] { r.append(std::reverse_iterator<Char const*>(l), std::reverse_iterator<Char const*>(f)); });
            } else if (op == "arf") {
                using It = WrapIt<Char, etl::forward_iterator_tag>;
                impl([&] { e.append(It{f}, It{l}); });
                ref(true, [&] { r.append(f, l); });
            } else {
                OncePos<Char> pos{f, l};
                impl([&] { e.append(OnceIt<Char>{&pos}, OnceIt<Char>{nullptr}); });
                ref(true, [&] { r.append(f, l); });
            }
        } else if (op == "zr" || op == "zrr" || op == "zrf" || op == "zri" || op == "krr" || op == "krf") {
            // assign(first, last) / basic_inplace_string(first, last) with pointers, reverse and forward-only iterators
            Src<Char> src(in.list());
            Char const* f = src.p;
            Char const* l = src.p + src.n;
            using Rt = etl::reverse_iterator<Char const*>;
            using Ft = WrapIt<Char, etl::forward_iterator_tag>;
            if (op == "zr") {
                impl([&] { e.assign(f, l); });
                ref(true, [&] { r.assign(f, l); });
            } else if (op == "zrr") {
                impl([&] { e.assign(Rt(l), Rt(f)); });
                ref(true, [&] { r.assign(std::reverse_iterator<Char const*>(l), std::reverse_iterator<Char const*>(f)); });
            } else if (op == "zrf") {
                impl([&] { e.assign(Ft{f}, Ft{l}); });
                ref(true, [&] { r.assign(f, l); });
            } else if (op == "zri") {
                OncePos<Char> pos{f, l};
                impl([&] { e.assign(OnceIt<Char>{&pos}, OnceIt<Char>{nullptr}); });
                ref(true, [&] { r.assign(f, l); });
            } else if (op == "krr") {
                impl([&] { e = E(Rt(l), Rt(f)); });
                ref(true, [&] { r = S(std::reverse_iterator<Char const*>(l), std::reverse_iterator<Char const*>(f)); });
            } else {
                impl([&] { e = E(Ft{f}, Ft{l}); });
                ref(true, [&] { r = S(f, l); });
            }
        } else if (op == "aps" || op == "asps" || op == "ips" || op == "ars") {
            // pointer / iterator arguments that point INTO the string itself: s.data() + off, count characters;
            // (off, count) are reduced to a range of the string: off' = min(off, size()), count' = min(count, size() - off')
            std::size_t i = 0;
            if (op == "ips") { i = static_cast<std::size_t>(in.unum()); }
            auto off = static_cast<std::size_t>(in.unum());
            auto n   = static_cast<std::size_t>(in.unum());
            auto clampE = [&] { off = std::min(off, e.size()); n = std::min(n, e.size() - off); };
            auto ro = std::min(off, r.size());
            auto rn = std::min(n, r.size() - ro);
            if (op == "aps") {
                impl([&] { clampE(); e.append(static_cast<Char const*>(e.data()) + off, n); });
                ref(true, [&] { r.append(r.data() + ro, rn); });
            } else if (op == "asps") {
                impl([&] { clampE(); e.assign(static_cast<Char const*>(e.data()) + off, n); });
                ref(true, [&] { r.assign(r.data() + ro, rn); });
            } else if (op == "ips") {
                impl([&] { clampE(); e.insert(i, static_cast<Char const*>(e.data()) + off, n); });
                ref(i <= r.size(), [&] { r.insert(i, r.data() + ro, rn); });
            } else {
                impl([&] { clampE(); e.append(e.cbegin() + off, e.cbegin() + off + n); });
                ref(true, [&] { r.append(r.cbegin() + static_cast<std::ptrdiff_t>(ro), r.cbegin() + static_cast<std::ptrdiff_t>(ro + rn)); });
            }
        } else if (op == "zeqs" || op == "zcss" || op == "acss" || op == "icss") {
            // a C string argument that points into the string itself: s.c_str() + min(off, size())
            std::size_t i = 0;
            if (op == "icss") { i = static_cast<std::size_t>(in.unum()); }
            auto off = static_cast<std::size_t>(in.unum());
            auto ro  = std::min(off, r.size());
            if (op == "zeqs") {
                impl([&] { e = e.c_str() + std::min(off, e.size()); });
                ref(true, [&] { r = r.c_str() + ro; });
            } else if (op == "zcss") {
                impl([&] { e.assign(e.c_str() + std::min(off, e.size())); });
                ref(true, [&] { r.assign(r.c_str() + ro); });
            } else if (op == "acss") {
                impl([&] { e.append(e.c_str() + std::min(off, e.size())); });
                ref(true, [&] { r.append(r.c_str() + ro); });
            } else {
                impl([&] { e.insert(i, e.c_str() + std::min(off, e.size())); });
                ref(i <= r.size(), [&] { r.insert(i, r.c_str() + ro); });
            }
        } else if (op == "asts" || op == "pess" || op == "plss" || op == "ists" || op == "avss" || op == "ivss" || op == "zself" || op == "zvself" || op == "sws") {
            // the string itself (or a view of it) as the argument
            std::size_t i = 0;
            if (op == "ists" || op == "ivss") { i = static_cast<std::size_t>(in.unum()); }
            if (op == "asts") {
                impl([&] { e.append(e); });
                ref(true, [&] { r.append(r); });
            } else if (op == "pess") {
                impl([&] { e += e; });
                ref(true, [&] { r += r; });
            } else if (op == "plss") {
                impl([&] { e = e + e; });
                ref(true, [&] { r = r + r; });
            } else if (op == "ists") {
                impl([&] { e.insert(i, e); });
                ref(i <= r.size(), [&] { r.insert(i, r); });
            } else if (op == "avss") {
                impl([&] { e.append(etl::basic_string_view<Char>(e)); });
                ref(true, [&] { r.append(std::basic_string_view<Char>(r)); });
            } else if (op == "ivss") {
                impl([&] { e.insert(i, etl::basic_string_view<Char>(e)); });
                ref(i <= r.size(), [&] { r.insert(i, std::basic_string_view<Char>(r)); });
            } else if (op == "zself") {
                impl([&] { e.assign(e); auto& alias = e; e = alias; });
                ref(true, [&] { r.assign(r); });
            } else if (op == "zvself") {
                impl([&] { e.assign(etl::basic_string_view<Char>(e)); });
                ref(true, [&] { r.assign(std::basic_string_view<Char>(r)); });
            } else {
                impl([&] { e.swap(e); });
                ref(true, [&] {});
            }
        } else if (op == "asss" || op == "zsss" || op == "avsss" || op == "zvsss" || op == "isss" || op == "ivsss") {
            // (str | view of the string itself, pos, count)
            std::size_t i = 0;
            if (op == "isss" || op == "ivsss") { i = static_cast<std::size_t>(in.unum()); }
            auto p = static_cast<std::size_t>(in.unum());
            auto n = static_cast<std::size_t>(in.unum());
            if (op == "asss") {
                impl([&] { e.append(e, p, n); });
                ref(p <= r.size(), [&] { r.append(r, p, n); });
            } else if (op == "zsss") {
                impl([&] { e.assign(e, p, n); });
                ref(p <= r.size(), [&] { r.assign(r, p, n); });
            } else if (op == "avsss") {
                impl([&] { e.append(etl::basic_string_view<Char>(e), p, n); });
                ref(p <= r.size(), [&] { r.append(std::basic_string_view<Char>(r), p, n); });
            } else if (op == "zvsss") {
                impl([&] { e.assign(etl::basic_string_view<Char>(e), p, n); });
                ref(p <= r.size(), [&] { r.assign(std::basic_string_view<Char>(r), p, n); });
            } else if (op == "isss") {
                impl([&] { e.insert(i, e, p, n); });
                ref(i <= r.size() && p <= r.size(), [&] { r.insert(i, r, p, n); });
            } else {
                impl([&] { e.insert(i, etl::basic_string_view<Char>(e), p, n); });
                ref(i <= r.size() && p <= r.size(), [&] { r.insert(i, std::basic_string_view<Char>(r), p, n); });
            }
        } else if (op == "erd" || op == "subd") {
            // the default arguments as written in the header: erase() / s = s.substr()
            if (op == "erd") {
                impl([&] { e.erase(); });
                ref(true, [&] { r.erase(); });
            } else {
                impl([&] { e = e.substr(); });
                ref(true, [&] { r = r.substr(); });
            }
        } else if (op == "er1" || op == "sub1") {
            auto i = static_cast<std::size_t>(in.unum());
            if (op == "er1") {
                impl([&] { e.erase(i); });
                ref(i <= r.size(), [&] { r.erase(i); });
            } else {
                impl([&] { e = e.substr(i); });
                ref(i <= r.size(), [&] { r = r.substr(i); });
            }
        } else if (op == "ass2" || op == "avs2" || op == "zss2" || op == "zvs2") {
            // (str | view, pos) with the default count
            Src<Char> src(in.list());
            auto p = static_cast<std::size_t>(in.unum());
            etl::basic_string_view<Char> ev(src.p, src.n);
            std::basic_string_view<Char> rv(src.p, src.n);
            if (op == "ass2") {
                impl([&] { E o(static_cast<Char const*>(src.p), src.n); e.append(o, p); });
                ref(src.n <= Cap && p <= src.n, [&] { r.append(S(src.p, src.n), p); });
            } else if (op == "avs2") {
                impl([&] { e.append(ev, p); });
                ref(p <= src.n, [&] { r.append(rv, p); });
            } else if (op == "zss2") {
                impl([&] { E o(static_cast<Char const*>(src.p), src.n); e.assign(o, p); });
                ref(src.n <= Cap && p <= src.n, [&] { r.assign(S(src.p, src.n), p); });
            } else {
                impl([&] { e.assign(ev, p); });
                ref(p <= src.n, [&] { r.assign(rv, p); });
            }
        } else if (op == "iss3" || op == "ivs3") {
            auto i = static_cast<std::size_t>(in.unum());
            Src<Char> src(in.list());
            auto p = static_cast<std::size_t>(in.unum());
            if (op == "iss3") {
                impl([&] { E o(static_cast<Char const*>(src.p), src.n); e.insert(i, o, p); });
                ref(src.n <= Cap && i <= r.size() && p <= src.n, [&] { r.insert(i, S(src.p, src.n), p); });
            } else {
                etl::basic_string_view<Char> ev(src.p, src.n);
                std::basic_string_view<Char> rv(src.p, src.n);
                impl([&] { e.insert(i, ev, p); });
                ref(i <= r.size() && p <= src.n, [&] { r.insert(i, rv, p); });
            }
        } else if (op == "plsx" || op == "pesx") {
            // operator+ / operator+= with a string of ANOTHER capacity (5) on the right: it is not a
            // basic_inplace_string<Char, Cap>, so the string_view overload of append runs (clamps, no precondition)
            using E5 = etl::basic_inplace_string<Char, 5>;
            Src<Char> src(in.list());
            bool const ok = src.n <= 5;
            if (op == "plsx") {
                impl([&] { E5 o(static_cast<Char const*>(src.p), src.n); e = e + o; });
                ref(ok, [&] { r = r + S(src.p, src.n); });
            } else {
                impl([&] { E5 o(static_cast<Char const*>(src.p), src.n); e += o; });
                ref(ok, [&] { r += S(src.p, src.n); });
            }
        } else if (op == "zveq" || op == "pev") {
            // operator=(view) / operator+=(view)
            Src<Char> src(in.list());
            etl::basic_string_view<Char> ev(src.p, src.n);
            std::basic_string_view<Char> rv(src.p, src.n);
            if (op == "zveq") {
                impl([&] { e = ev; });
                ref(true, [&] { r = rv; });
            } else {
                impl([&] { e += ev; });
                ref(true, [&] { r += rv; });
            }
        } else if (op == "zch") {
            auto c = static_cast<Char>(in.num());
            impl([&] { e = c; });
            ref(true, [&] { r = c; });
        } else if (op == "zst") {
            Src<Char> src(in.list());
            impl([&] { E o(static_cast<Char const*>(src.p), src.n); e.assign(o); });
            ref(src.n <= Cap, [&] { r.assign(S(src.p, src.n)); });
        } else if (op == "kf") {
            auto n = static_cast<std::size_t>(in.unum());
            auto c = static_cast<Char>(in.num());
            impl([&] { e = E(n, c); });
            ref(n <= 100000, [&] { r = S(n, c); });
        } else if (op == "ip") {
            auto i = static_cast<std::size_t>(in.unum());
            Src<Char> src(in.list());
            auto n = static_cast<std::size_t>(in.unum());
            impl([&] { e.insert(i, static_cast<Char const*>(src.p), n); });
            ref(i <= r.size() && n <= src.n, [&] { r.insert(i, src.p, n); });
        } else if (op == "if") {
            auto i = static_cast<std::size_t>(in.unum());
            auto n = static_cast<std::size_t>(in.unum());
            auto c = static_cast<Char>(in.num());
            impl([&] { e.insert(i, n, c); });
            ref(i <= r.size() && n <= 100000, [&] { r.insert(i, n, c); });
        } else if (op == "er") {
            auto i = static_cast<std::size_t>(in.unum());
            auto n = static_cast<std::size_t>(in.unum());
            impl([&] { e.erase(i, n); });
            ref(i <= r.size(), [&] { r.erase(i, n); });
        } else if (op == "erng") {
            auto i = static_cast<std::size_t>(in.unum());
            auto n = static_cast<std::size_t>(in.unum());
            impl([&] { retImpl = static_cast<i64>(e.erase(e.cbegin() + i, e.cbegin() + i + n) - e.begin()); });
            ref(i <= r.size() && n <= r.size() - i, [&] {
                retRef = static_cast<i64>(r.erase(r.cbegin() + static_cast<std::ptrdiff_t>(i), r.cbegin() + static_cast<std::ptrdiff_t>(i + n)) - r.begin());
            });
        } else if (op == "rs") {
            auto n = static_cast<std::size_t>(in.unum());
            auto c = static_cast<Char>(in.num());
            impl([&] { e.resize(n, c); });
            ref(n <= 100000, [&] { r.resize(n, c); });
        } else if (op == "asp") {
            Src<Char> src(in.list());
            auto n = static_cast<std::size_t>(in.unum());
            impl([&] { e.assign(static_cast<Char const*>(src.p), n); });
            ref(n <= src.n, [&] { r.assign(src.p, n); });
        } else if (op == "asf") {
            auto n = static_cast<std::size_t>(in.unum());
            auto c = static_cast<Char>(in.num());
            impl([&] { e.assign(n, c); });
            ref(n <= 100000, [&] { r.assign(n, c); });
        } else if (op == "sub") {
            auto p = static_cast<std::size_t>(in.unum());
            auto n = static_cast<std::size_t>(in.unum());
            impl([&] { e = e.substr(p, n); });
            ref(p <= r.size(), [&] { r = r.substr(p, n); });
        } else if (op == "sw" || op == "swf") {
            // member swap / free swap (ADL); the state of the OTHER object is printed as well ("O ...")
            Src<Char> src(in.list());
            impl([&] {
                E other(static_cast<Char const*>(src.p), src.n);
                if (op == "sw") {
                    e.swap(other);
                } else {
                    swap(e, other);
                }
                otherImpl.s.clear();
                otherImpl.tok("O");
                put_state(otherImpl, other);
            });
            ref(src.n <= Cap, [&] {
                S other(src.p, src.n);
                if (op == "sw") {
                    r.swap(other);
                } else {
                    swap(r, other);
                }
                otherRef.s.clear();
                otherRef.tok("O");
                put_state(otherRef, other);
            });
        } else if (op == "rs0") {
            auto n = static_cast<std::size_t>(in.unum());
            impl([&] { e.resize(n); });
            ref(n <= 100000, [&] { r.resize(n); });
        } else if (op == "acs" || op == "pez" || op == "plz" || op == "zcs" || op == "zeq") {
            // Char const* argument: the characters followed by a null character (exact-size heap array)
            auto v = in.list();
            v.push_back(0);
            Src<Char> a(v);
            Char const* p = a.p;
            if (op == "acs") {
                impl([&] { e.append(p); });
                ref(true, [&] { r.append(p); });
            } else if (op == "pez") {
                impl([&] { e += p; });
                ref(true, [&] { r += p; });
            } else if (op == "plz") {
                impl([&] { e = e + p; });
                ref(true, [&] { r = r + p; });
            } else if (op == "zcs") {
                impl([&] { e.assign(p); });
                ref(true, [&] { r.assign(p); });
            } else {
                impl([&] { e = p; });
                ref(true, [&] { r = p; });
            }
        } else if (op == "ast" || op == "pes" || op == "pls") {
            Src<Char> src(in.list());
            bool const ok = src.n <= Cap;
            if (op == "ast") {
                impl([&] { E o(static_cast<Char const*>(src.p), src.n); e.append(o); });
                ref(ok, [&] { r.append(S(src.p, src.n)); });
            } else if (op == "pes") {
                impl([&] { E o(static_cast<Char const*>(src.p), src.n); e += o; });
                ref(ok, [&] { r += S(src.p, src.n); });
            } else {
                impl([&] { E o(static_cast<Char const*>(src.p), src.n); e = e + o; });
                ref(ok, [&] { r = r + S(src.p, src.n); });
            }
        } else if (op == "plc" || op == "pec") {
            auto c = static_cast<Char>(in.num());
            if (op == "plc") {
                impl([&] { e = e + c; });
                ref(true, [&] { r = r + c; });
            } else {
                impl([&] { e += c; });
                ref(true, [&] { r += c; });
            }
        } else if (op == "av" || op == "zv") {
            Src<Char> src(in.list());
            etl::basic_string_view<Char> ev(src.p, src.n);
            std::basic_string_view<Char> rv(src.p, src.n);
            if (op == "av") {
                impl([&] { e.append(ev); });
                ref(true, [&] { r.append(rv); });
            } else {
                impl([&] { e.assign(ev); });
                ref(true, [&] { r.assign(rv); });
            }
        } else if (op == "ass" || op == "avs" || op == "zss" || op == "zvs") {
            Src<Char> src(in.list());
            auto p = static_cast<std::size_t>(in.unum());
            auto n = static_cast<std::size_t>(in.unum());
            etl::basic_string_view<Char> ev(src.p, src.n);
            std::basic_string_view<Char> rv(src.p, src.n);
            if (op == "ass") {
                impl([&] { E o(static_cast<Char const*>(src.p), src.n); e.append(o, p, n); });
                ref(src.n <= Cap && p <= src.n, [&] { r.append(S(src.p, src.n), p, n); });
            } else if (op == "avs") {
                impl([&] { e.append(ev, p, n); });
                ref(p <= src.n, [&] { r.append(rv, p, n); });
            } else if (op == "zss") {
                impl([&] { E o(static_cast<Char const*>(src.p), src.n); e.assign(o, p, n); });
                ref(src.n <= Cap && p <= src.n, [&] { r.assign(S(src.p, src.n), p, n); });
            } else {
                impl([&] { e.assign(ev, p, n); });
                ref(p <= src.n, [&] { r.assign(rv, p, n); });
            }
        } else if (op == "ics") {
            auto i = static_cast<std::size_t>(in.unum());
            auto v = in.list();
            v.push_back(0);
            Src<Char> a(v);
            Char const* p = a.p;
            impl([&] { e.insert(i, p); });
            ref(i <= r.size(), [&] { r.insert(i, p); });
        } else if (op == "ist" || op == "iv") {
            auto i = static_cast<std::size_t>(in.unum());
            Src<Char> src(in.list());
            if (op == "ist") {
                impl([&] { E o(static_cast<Char const*>(src.p), src.n); e.insert(i, o); });
                ref(src.n <= Cap && i <= r.size(), [&] { r.insert(i, S(src.p, src.n)); });
            } else {
                etl::basic_string_view<Char> ev(src.p, src.n);
                std::basic_string_view<Char> rv(src.p, src.n);
                impl([&] { e.insert(i, ev); });
                ref(i <= r.size(), [&] { r.insert(i, rv); });
            }
        } else if (op == "iss" || op == "ivs") {
            auto i = static_cast<std::size_t>(in.unum());
            Src<Char> src(in.list());
            auto p = static_cast<std::size_t>(in.unum());
            auto n = static_cast<std::size_t>(in.unum());
            if (op == "iss") {
                impl([&] { E o(static_cast<Char const*>(src.p), src.n); e.insert(i, o, p, n); });
                ref(src.n <= Cap && i <= r.size() && p <= src.n, [&] { r.insert(i, S(src.p, src.n), p, n); });
            } else {
                etl::basic_string_view<Char> ev(src.p, src.n);
                std::basic_string_view<Char> rv(src.p, src.n);
                impl([&] { e.insert(i, ev, p, n); });
                ref(i <= r.size() && p <= src.n, [&] { r.insert(i, rv, p, n); });
            }
        } else if (op == "kss" || op == "ks" || op == "kvs") {
            // constructors (str, pos, count), (str, pos), (view, pos, n)
            Src<Char> src(in.list());
            auto p = static_cast<std::size_t>(in.unum());
            auto n = op == "ks" ? std::size_t(0) : static_cast<std::size_t>(in.unum());
            if (op == "kss") {
                impl([&] { E o(static_cast<Char const*>(src.p), src.n); e = E(o, p, n); });
                ref(src.n <= Cap && p <= src.n, [&] { r = S(S(src.p, src.n), p, n); });
            } else if (op == "ks") {
                impl([&] { E o(static_cast<Char const*>(src.p), src.n); e = E(o, p); });
                ref(src.n <= Cap && p <= src.n, [&] { r = S(S(src.p, src.n), p); });
            } else {
                etl::basic_string_view<Char> ev(src.p, src.n);
                std::basic_string_view<Char> rv(src.p, src.n);
                impl([&] { e = E(ev, p, n); });
                ref(p <= src.n, [&] { r = S(rv, p, n); });
            }
        } else if (op == "kv" || op == "kr") {
            Src<Char> src(in.list());
            if (op == "kv") {
                etl::basic_string_view<Char> ev(src.p, src.n);
                std::basic_string_view<Char> rv(src.p, src.n);
                impl([&] { e = E(ev); });
                ref(true, [&] { r = S(rv); });
            } else {
                Char const* f = src.p;
                Char const* l = src.p + src.n;
                impl([&] { e = E(f, l); });
                ref(true, [&] { r = S(f, l); });
            }
        } else if (op == "kz" || op == "plzs") {
            auto v = in.list();
            v.push_back(0);
            Src<Char> a(v);
            Char const* p = a.p;
            if (op == "kz") {
                impl([&] { e = E(p); });
                ref(true, [&] { r = S(p); });
            } else {
                Src<Char> src(in.list());
                impl([&] { E o(static_cast<Char const*>(src.p), src.n); e = p + o; });
                ref(src.n <= Cap, [&] { r = p + S(src.p, src.n); });
            }
        } else if (op == "plcs") {
            auto c = static_cast<Char>(in.num());
            Src<Char> src(in.list());
            impl([&] { E o(static_cast<Char const*>(src.p), src.n); e = c + o; });
            ref(src.n <= Cap, [&] { r = c + S(src.p, src.n); });
        } else if (op == "fer") {
            auto c = static_cast<Char>(in.num());
            impl([&] { retImpl = static_cast<i64>(etl::erase(e, c)); });
            ref(true, [&] { retRef = static_cast<i64>(std::erase(r, c)); });
        } else if (op == "fei") {
            auto k    = in.num();
            auto pred = [k](Char x) { return k == 0 ? (x == Char(97) || x == Char(0)) : ((static_cast<i64>(x) & 1) == 0); };
            impl([&] { retImpl = static_cast<i64>(etl::erase_if(e, pred)); });
            ref(true, [&] { retRef = static_cast<i64>(std::erase_if(r, pred)); });
        } else if (op == "erp") {
            auto i = static_cast<std::size_t>(in.unum());
            impl([&] { retImpl = static_cast<i64>(e.erase(e.cbegin() + i) - e.begin()); });
            ref(i < r.size(), [&] { retRef = static_cast<i64>(r.erase(r.cbegin() + static_cast<std::ptrdiff_t>(i)) - r.begin()); });
        } else {
            return false;
        }
        return true;
    }

    // raw storage: all Capacity+1 characters of the object (in the tiny layout the last one is the size byte)
    static void put_raw(Out& o, E const& s)
    {
        o.tok("B");
        for (std::size_t i = 0; i <= Cap; ++i) { o.num(static_cast<i64>(s.data()[i])); }
    }

    // raw = true: "histb" — the impl leg prints the raw storage after every step (compared with the model's
    // array, no reference leg)
    static bool hist(Toks& in, Out& impl, Out& ref, bool raw = false)
    {
        auto n = in.num();
        E e{};
        S r{};
        bool contract = false;
        bool refOk    = true;
        impl.tok("ok");
        ref.tok("ok");
        for (i64 k = 0; k < n; ++k) {
            bool const was = contract;
            i64 retImpl = -1;
            i64 retRef  = -1;
            Out otherImpl;
            Out otherRef;
            if (!step(in, e, contract, r, refOk, retImpl, retRef, otherImpl, otherRef)) { return false; }
            if (!was) {
                if (contract) {
                    impl.tok("contract");
                } else if (raw) {
                    put_raw(impl, e);
                } else {
                    put_state(impl, e);
                    if (retImpl >= 0) { impl.tok("R").num(retImpl); }
                    if (!otherImpl.empty()) { impl.tok(otherImpl.s); }
                }
            }
            if (refOk) {
                put_state(ref, r);
                if (retRef >= 0) { ref.tok("R").num(retRef); }
                if (!otherRef.empty()) { ref.tok(otherRef.s); }
            }
        }
        if (!refOk || raw) {
            ref.s.clear();
            ref.tok("na");
        }
        return true;
    }

    template <typename F>
    static void search(Out& impl, Out& ref, E const& e, S const& r, F f)
    {
        guarded(impl, [&](Out& o) { o.tok("ok").unum(f(e)); });
        ref.tok("ok").unum(f(r));
    }

    static bool query(std::string const& op, Toks& in, Out& impl, Out& ref)
    {
        Src<Char> content(in.list());
        if (content.n > Cap) {
            impl.tok("contract");
            return true;
        }
        E e(static_cast<Char const*>(content.p), content.n);
        S r(content.p, content.n);
        auto us   = op.find('_');
        auto kind = op.substr(0, us);
        auto name = op.substr(us + 1);
        if (kind == "q" || kind == "qd") {
            Src<Char> needle(in.list());
            if (needle.n > Cap) {
                impl.tok("contract");
                return true;
            }
            E en(static_cast<Char const*>(needle.p), needle.n);
            S rn(needle.p, needle.n);
            if (kind == "q") {
                auto pos = static_cast<std::size_t>(in.unum());
                if (name == "find") { search(impl, ref, e, r, [&](auto const& s) { if constexpr (std::is_same_v<std::remove_cvref_t<decltype(s)>, E>) { return s.find(en, pos); } else { return s.find(rn, pos); } }); return true; }
                if (name == "rfind") { search(impl, ref, e, r, [&](auto const& s) { if constexpr (std::is_same_v<std::remove_cvref_t<decltype(s)>, E>) { return s.rfind(en, pos); } else { return s.rfind(rn, pos); } }); return true; }
                if (name == "ffo") { search(impl, ref, e, r, [&](auto const& s) { if constexpr (std::is_same_v<std::remove_cvref_t<decltype(s)>, E>) { return s.find_first_of(en, pos); } else { return s.find_first_of(rn, pos); } }); return true; }
                if (name == "ffno") { search(impl, ref, e, r, [&](auto const& s) { if constexpr (std::is_same_v<std::remove_cvref_t<decltype(s)>, E>) { return s.find_first_not_of(en, pos); } else { return s.find_first_not_of(rn, pos); } }); return true; }
                if (name == "flo") { search(impl, ref, e, r, [&](auto const& s) { if constexpr (std::is_same_v<std::remove_cvref_t<decltype(s)>, E>) { return s.find_last_of(en, pos); } else { return s.find_last_of(rn, pos); } }); return true; }
                if (name == "flno") { search(impl, ref, e, r, [&](auto const& s) { if constexpr (std::is_same_v<std::remove_cvref_t<decltype(s)>, E>) { return s.find_last_not_of(en, pos); } else { return s.find_last_not_of(rn, pos); } }); return true; }
                return false;
            }
            // default position argument
            if (name == "find") { search(impl, ref, e, r, [&](auto const& s) { if constexpr (std::is_same_v<std::remove_cvref_t<decltype(s)>, E>) { return s.find(en); } else { return s.find(rn); } }); return true; }
            if (name == "rfind") { search(impl, ref, e, r, [&](auto const& s) { if constexpr (std::is_same_v<std::remove_cvref_t<decltype(s)>, E>) { return s.rfind(en); } else { return s.rfind(rn); } }); return true; }
            if (name == "ffo") { search(impl, ref, e, r, [&](auto const& s) { if constexpr (std::is_same_v<std::remove_cvref_t<decltype(s)>, E>) { return s.find_first_of(en); } else { return s.find_first_of(rn); } }); return true; }
            if (name == "ffno") { search(impl, ref, e, r, [&](auto const& s) { if constexpr (std::is_same_v<std::remove_cvref_t<decltype(s)>, E>) { return s.find_first_not_of(en); } else { return s.find_first_not_of(rn); } }); return true; }
            if (name == "flo") { search(impl, ref, e, r, [&](auto const& s) { if constexpr (std::is_same_v<std::remove_cvref_t<decltype(s)>, E>) { return s.find_last_of(en); } else { return s.find_last_of(rn); } }); return true; }
            if (name == "flno") { search(impl, ref, e, r, [&](auto const& s) { if constexpr (std::is_same_v<std::remove_cvref_t<decltype(s)>, E>) { return s.find_last_not_of(en); } else { return s.find_last_not_of(rn); } }); return true; }
            return false;
        }
        if (op == "cmp_1") {
            Src<Char> b(in.list());
            if (b.n > Cap) {
                impl.tok("contract");
                return true;
            }
            E eb(static_cast<Char const*>(b.p), b.n);
            S rb(b.p, b.n);
            guarded(impl, [&](Out& o) { o.tok("ok").num(sign(e.compare(eb))); });
            ref.tok("ok").num(sign(r.compare(rb)));
            return true;
        }
        if (op == "cmp_5") {
            auto p1 = static_cast<std::size_t>(in.unum());
            auto n1 = static_cast<std::size_t>(in.unum());
            Src<Char> b(in.list());
            auto p2 = static_cast<std::size_t>(in.unum());
            auto n2 = static_cast<std::size_t>(in.unum());
            if (b.n > Cap) {
                impl.tok("contract");
                return true;
            }
            E eb(static_cast<Char const*>(b.p), b.n);
            S rb(b.p, b.n);
            guarded(impl, [&](Out& o) { o.tok("ok").num(sign(e.compare(p1, n1, eb, p2, n2))); });
            if (p1 <= r.size() && p2 <= rb.size()) { ref.tok("ok").num(sign(r.compare(p1, n1, rb, p2, n2))); }
            return true;
        }
        if (op == "copy_m") {
            auto cnt = static_cast<std::size_t>(in.unum());
            auto pos = static_cast<std::size_t>(in.unum());
            std::vector<Char> dest(Cap + 2, Char(0));
            guarded(impl, [&](Out& o) {
                auto k = e.copy(dest.data(), cnt, pos);
                o.tok("ok").unum(k).unum(k);
                for (std::size_t i = 0; i < k; ++i) { o.num(static_cast<i64>(dest[i])); }
            });
            if (pos <= r.size()) {
                std::vector<Char> d2(r.size() + 2, Char(0));
                auto k = r.copy(d2.data(), cnt, pos);
                ref.tok("ok").unum(k).unum(k);
                for (std::size_t i = 0; i < k; ++i) { ref.num(static_cast<i64>(d2[i])); }
            }
            return true;
        }
        return false;
    }

    template <typename Str, typename... A>
    static std::size_t call_fam(std::string const& f, Str const& s, A... a)
    {
        if (f == "find") { return s.find(a...); }
        if (f == "rfind") { return s.rfind(a...); }
        if (f == "ffo") { return s.find_first_of(a...); }
        if (f == "ffno") { return s.find_first_not_of(a...); }
        if (f == "flo") { return s.find_last_of(a...); }
        return s.find_last_not_of(a...);
    }

    // the overloads taking (s, pos, count), (s, pos), (ch, pos); compare overloads; starts_with / ends_with /
    // contains; relational operators; accessors
    static bool query2(std::string const& op, Toks& in, Out& impl, Out& ref)
    {
        auto us   = op.find('_');
        auto kind = op.substr(0, us);
        auto name = us == std::string::npos ? std::string() : op.substr(us + 1);
        Src<Char> content(in.list());
        if (content.n > Cap) {
            impl.tok("contract");
            return true;
        }
        E e(static_cast<Char const*>(content.p), content.n);
        S r(content.p, content.n);
        using EV = etl::basic_string_view<Char>;
        using RV = std::basic_string_view<Char>;
        auto cstr = [&] {
            auto v = in.list();
            v.push_back(0);
            return v;
        };
        if (kind == "qdz") {
            Src<Char> a(cstr());
            Char const* p = a.p;
            guarded(impl, [&](Out& o) { o.tok("ok").unum(call_fam(name, e, p)); });
            ref.tok("ok").unum(call_fam(name, r, p));
            return true;
        }
        if (kind == "qdc") {
            auto c = static_cast<Char>(in.num());
            guarded(impl, [&](Out& o) { o.tok("ok").unum(call_fam(name, e, c)); });
            ref.tok("ok").unum(call_fam(name, r, c));
            return true;
        }
        if (op == "c4s" || op == "c4v") {
            // compare(pos1, count1, str | view, pos2) with the default count2
            auto p1 = static_cast<std::size_t>(in.unum());
            auto n1 = static_cast<std::size_t>(in.unum());
            Src<Char> b(in.list());
            auto p2 = static_cast<std::size_t>(in.unum());
            if (op == "c4s") {
                if (b.n > Cap) {
                    impl.tok("contract");
                    return true;
                }
                E eb(static_cast<Char const*>(b.p), b.n);
                guarded(impl, [&](Out& o) { o.tok("ok").num(sign(e.compare(p1, n1, eb, p2))); });
                if (p1 <= r.size() && p2 <= b.n) { ref.tok("ok").num(sign(r.compare(p1, n1, S(b.p, b.n), p2))); }
            } else {
                guarded(impl, [&](Out& o) { o.tok("ok").num(sign(e.compare(p1, n1, EV(b.p, b.n), p2))); });
                if (p1 <= r.size() && p2 <= b.n) { ref.tok("ok").num(sign(r.compare(p1, n1, RV(b.p, b.n), p2))); }
            }
            return true;
        }
        if (op == "copy2") {
            // copy(dest, count) with the default pos
            auto cnt = static_cast<std::size_t>(in.unum());
            std::vector<Char> dest(Cap + 2, Char(0));
            guarded(impl, [&](Out& o) {
                auto k = e.copy(dest.data(), cnt);
                o.tok("ok").unum(k).unum(k);
                for (std::size_t i = 0; i < k; ++i) { o.num(static_cast<i64>(dest[i])); }
            });
            std::vector<Char> d2(r.size() + 2, Char(0));
            auto k = r.copy(d2.data(), cnt);
            ref.tok("ok").unum(k).unum(k);
            for (std::size_t i = 0; i < k; ++i) { ref.num(static_cast<i64>(d2[i])); }
            return true;
        }
        if (op == "riter") {
            // rbegin()/rend() and crbegin()/crend(), const and non-const: the characters in reverse order, twice
            guarded(impl, [&](Out& o) {
                o.tok("ok").unum(2 * e.size());
                for (auto it = e.rbegin(); it != e.rend(); ++it) { o.num(static_cast<i64>(*it)); }
                E const& ce = e;
                for (auto it = ce.crbegin(); it != ce.crend(); ++it) { o.num(static_cast<i64>(*it)); }
            });
            ref.tok("ok").unum(2 * r.size());
            for (auto it = r.rbegin(); it != r.rend(); ++it) { ref.num(static_cast<i64>(*it)); }
            for (auto it = r.crbegin(); it != r.crend(); ++it) { ref.num(static_cast<i64>(*it)); }
            return true;
        }
        if (op == "replace4") {
            // replace(pos, count, str, pos2) with the default count2
            auto pos = static_cast<std::size_t>(in.unum());
            auto cnt = static_cast<std::size_t>(in.unum());
            Src<Char> src(in.list());
            auto pos2 = static_cast<std::size_t>(in.unum());
            if (src.n > Cap) {
                impl.tok("contract");
                return true;
            }
            guarded(impl, [&](Out& o) {
                E es(static_cast<Char const*>(src.p), src.n);
                e.replace(pos, cnt, es, pos2);
                o.tok("ok");
                put_state(o, e);
            });
            if (pos <= r.size() && pos2 <= src.n) {
                r.replace(pos, cnt, S(src.p, src.n), pos2);
                if (r.size() <= Cap) {
                    ref.tok("ok");
                    put_state(ref, r);
                }
            }
            return true;
        }
        if (kind == "sp") {
            Src<Char> a(in.list());
            auto pos = static_cast<std::size_t>(in.unum());
            auto cnt = static_cast<std::size_t>(in.unum());
            if (cnt > a.n) { return false; }
            Char const* p = a.p;
            guarded(impl, [&](Out& o) { o.tok("ok").unum(call_fam(name, e, p, pos, cnt)); });
            ref.tok("ok").unum(call_fam(name, r, p, pos, cnt));
            return true;
        }
        if (kind == "sz") {
            Src<Char> a(cstr());
            auto pos      = static_cast<std::size_t>(in.unum());
            Char const* p = a.p;
            guarded(impl, [&](Out& o) { o.tok("ok").unum(call_fam(name, e, p, pos)); });
            ref.tok("ok").unum(call_fam(name, r, p, pos));
            return true;
        }
        if (kind == "sc") {
            auto c   = static_cast<Char>(in.num());
            auto pos = static_cast<std::size_t>(in.unum());
            guarded(impl, [&](Out& o) { o.tok("ok").unum(call_fam(name, e, c, pos)); });
            ref.tok("ok").unum(call_fam(name, r, c, pos));
            return true;
        }
        if (op == "c3") {
            auto p1 = static_cast<std::size_t>(in.unum());
            auto n1 = static_cast<std::size_t>(in.unum());
            Src<Char> b(in.list());
            if (b.n > Cap) {
                impl.tok("contract");
                return true;
            }
            E eb(static_cast<Char const*>(b.p), b.n);
            guarded(impl, [&](Out& o) { o.tok("ok").num(sign(e.compare(p1, n1, eb))); });
            if (p1 <= r.size()) { ref.tok("ok").num(sign(r.compare(p1, n1, S(b.p, b.n)))); }
            return true;
        }
        if (op == "cz") {
            Src<Char> a(cstr());
            Char const* p = a.p;
            guarded(impl, [&](Out& o) { o.tok("ok").num(sign(e.compare(p))); });
            ref.tok("ok").num(sign(r.compare(p)));
            return true;
        }
        if (op == "c3z") {
            auto p1 = static_cast<std::size_t>(in.unum());
            auto n1 = static_cast<std::size_t>(in.unum());
            Src<Char> a(cstr());
            Char const* p = a.p;
            guarded(impl, [&](Out& o) { o.tok("ok").num(sign(e.compare(p1, n1, p))); });
            if (p1 <= r.size()) { ref.tok("ok").num(sign(r.compare(p1, n1, p))); }
            return true;
        }
        if (op == "c4p") {
            auto p1 = static_cast<std::size_t>(in.unum());
            auto n1 = static_cast<std::size_t>(in.unum());
            Src<Char> a(in.list());
            auto n2 = static_cast<std::size_t>(in.unum());
            if (n2 > a.n) { return false; }
            Char const* p = a.p;
            guarded(impl, [&](Out& o) { o.tok("ok").num(sign(e.compare(p1, n1, p, n2))); });
            if (p1 <= r.size()) { ref.tok("ok").num(sign(r.compare(p1, n1, p, n2))); }
            return true;
        }
        if (op == "cv") {
            Src<Char> b(in.list());
            guarded(impl, [&](Out& o) { o.tok("ok").num(sign(e.compare(EV(b.p, b.n)))); });
            ref.tok("ok").num(sign(r.compare(RV(b.p, b.n))));
            return true;
        }
        if (op == "c3v") {
            auto p1 = static_cast<std::size_t>(in.unum());
            auto n1 = static_cast<std::size_t>(in.unum());
            Src<Char> b(in.list());
            guarded(impl, [&](Out& o) { o.tok("ok").num(sign(e.compare(p1, n1, EV(b.p, b.n)))); });
            if (p1 <= r.size()) { ref.tok("ok").num(sign(r.compare(p1, n1, RV(b.p, b.n)))); }
            return true;
        }
        if (op == "c5v") {
            auto p1 = static_cast<std::size_t>(in.unum());
            auto n1 = static_cast<std::size_t>(in.unum());
            Src<Char> b(in.list());
            auto p2 = static_cast<std::size_t>(in.unum());
            auto n2 = static_cast<std::size_t>(in.unum());
            guarded(impl, [&](Out& o) { o.tok("ok").num(sign(e.compare(p1, n1, EV(b.p, b.n), p2, n2))); });
            if (p1 <= r.size() && p2 <= b.n) { ref.tok("ok").num(sign(r.compare(p1, n1, RV(b.p, b.n), p2, n2))); }
            return true;
        }
        if (kind == "pfx") {
            // starts_with, ends_with, contains (C++23 contains = find != npos)
            if (name == "v") {
                Src<Char> b(in.list());
                guarded(impl, [&](Out& o) {
                    o.tok("ok").b(e.starts_with(EV(b.p, b.n))).b(e.ends_with(EV(b.p, b.n))).b(e.contains(EV(b.p, b.n)));
                });
                ref.tok("ok").b(r.starts_with(RV(b.p, b.n))).b(r.ends_with(RV(b.p, b.n))).b(r.find(RV(b.p, b.n)) != npos);
                return true;
            }
            if (name == "c") {
                auto c = static_cast<Char>(in.num());
                guarded(impl, [&](Out& o) { o.tok("ok").b(e.starts_with(c)).b(e.ends_with(c)).b(e.contains(c)); });
                ref.tok("ok").b(r.starts_with(c)).b(r.ends_with(c)).b(r.find(c) != npos);
                return true;
            }
            if (name == "z") {
                Src<Char> a(cstr());
                Char const* p = a.p;
                guarded(impl, [&](Out& o) { o.tok("ok").b(e.starts_with(p)).b(e.ends_with(p)).b(e.contains(p)); });
                ref.tok("ok").b(r.starts_with(p)).b(r.ends_with(p)).b(r.find(p) != npos);
                return true;
            }
            return false;
        }
        if (kind == "rel") {
            if (name == "ss") {
                Src<Char> b(in.list());
                if (b.n > Cap) {
                    impl.tok("contract");
                    return true;
                }
                E eb(static_cast<Char const*>(b.p), b.n);
                S rb(b.p, b.n);
                guarded(impl, [&](Out& o) {
                    o.tok("ok").b(e == eb).b(e != eb).b(e < eb).b(e <= eb).b(e > eb).b(e >= eb);
                });
                ref.tok("ok").b(r == rb).b(r != rb).b(r < rb).b(r <= rb).b(r > rb).b(r >= rb);
                return true;
            }
            if (name == "sx") {
                // the right-hand side is a string of ANOTHER capacity (31)
                using E2 = etl::basic_inplace_string<Char, 31>;
                Src<Char> b(in.list());
                if (b.n > 31) {
                    impl.tok("contract");
                    return true;
                }
                E2 eb(static_cast<Char const*>(b.p), b.n);
                S rb(b.p, b.n);
                guarded(impl, [&](Out& o) {
                    o.tok("ok").b(e == eb).b(e != eb).b(e < eb).b(e <= eb).b(e > eb).b(e >= eb).num(sign(e.compare(eb)));
                });
                ref.tok("ok").b(r == rb).b(r != rb).b(r < rb).b(r <= rb).b(r > rb).b(r >= rb).num(sign(r.compare(rb)));
                return true;
            }
            Src<Char> a(cstr());
            Char const* p = a.p;
            if (name == "sz") {
                guarded(impl, [&](Out& o) { o.tok("ok").b(e == p).b(e != p).b(e < p).b(e <= p).b(e > p).b(e >= p); });
                ref.tok("ok").b(r == p).b(r != p).b(r < p).b(r <= p).b(r > p).b(r >= p);
                return true;
            }
            if (name == "zs") {
                guarded(impl, [&](Out& o) { o.tok("ok").b(p == e).b(p != e).b(p < e).b(p <= e).b(p > e).b(p >= e); });
                ref.tok("ok").b(p == r).b(p != r).b(p < r).b(p <= r).b(p > r).b(p >= r);
                return true;
            }
            return false;
        }
        if (op == "idx") {
            auto i = static_cast<std::size_t>(in.unum());
            guarded(impl, [&](Out& o) { o.tok("ok").num(static_cast<i64>(e[i])); });
            if (i <= r.size()) { ref.tok("ok").num(static_cast<i64>(r[i])); }
            return true;
        }
        if (op == "fb") {
            guarded(impl, [&](Out& o) { o.tok("ok").num(static_cast<i64>(e.front())).num(static_cast<i64>(e.back())); });
            if (!r.empty()) { ref.tok("ok").num(static_cast<i64>(r.front())).num(static_cast<i64>(r.back())); }
            return true;
        }
        if (op == "ef") {
            guarded(impl, [&](Out& o) { o.tok("ok").b(e.empty()).b(e.full()).unum(e.size()).unum(e.length()).unum(e.capacity()).unum(e.max_size()).unum(static_cast<std::size_t>(e.end() - e.begin())); });
            ref.tok("ok").b(r.empty()).b(r.size() == Cap).unum(r.size()).unum(r.length()).unum(Cap).unum(Cap).unum(static_cast<std::size_t>(r.end() - r.begin()));
            return true;
        }
        return false;
    }

    static bool replace(Toks& in, Out& impl, Out& ref)
    {
        Src<Char> content(in.list());
        auto pos = static_cast<std::size_t>(in.unum());
        auto cnt = static_cast<std::size_t>(in.unum());
        Src<Char> src(in.list());
        if (content.n > Cap || src.n > Cap) {
            impl.tok("contract");
            return true;
        }
        E e(static_cast<Char const*>(content.p), content.n);
        E es(static_cast<Char const*>(src.p), src.n);
        S r(content.p, content.n);
        guarded(impl, [&](Out& o) {
            e.replace(pos, cnt, es);
            o.tok("ok");
            put_state(o, e);
        });
        if (pos <= r.size()) {
            r.replace(pos, cnt, S(src.p, src.n));
            if (r.size() <= Cap) {
                ref.tok("ok");
                put_state(ref, r);
            }
        }
        return true;
    }

    // replace5: replace(pos, count, str, pos2, count2); replacep: replace(pos, count, s, count2);
    // replacez: replace(pos, count, s) with a null-terminated s
    static bool replace_more(std::string const& op, Toks& in, Out& impl, Out& ref)
    {
        Src<Char> content(in.list());
        auto pos = static_cast<std::size_t>(in.unum());
        auto cnt = static_cast<std::size_t>(in.unum());
        auto v   = in.list();
        if (op == "replacez") { v.push_back(0); }
        Src<Char> src(v);
        std::size_t pos2 = 0;
        std::size_t cnt2 = 0;
        if (op == "replace5") {
            pos2 = static_cast<std::size_t>(in.unum());
            cnt2 = static_cast<std::size_t>(in.unum());
        }
        if (op == "replacep") {
            cnt2 = static_cast<std::size_t>(in.unum());
            if (cnt2 > src.n) { return false; }
        }
        if (content.n > Cap || (op == "replace5" && src.n > Cap)) {
            impl.tok("contract");
            return true;
        }
        E e(static_cast<Char const*>(content.p), content.n);
        S r(content.p, content.n);
        Char const* p = src.p;
        guarded(impl, [&](Out& o) {
            if (op == "replace5") {
                E es(p, src.n);
                e.replace(pos, cnt, es, pos2, cnt2);
            } else if (op == "replacep") {
                e.replace(pos, cnt, p, cnt2);
            } else {
                e.replace(pos, cnt, p);
            }
            o.tok("ok");
            put_state(o, e);
        });
        if (pos <= r.size() && (op != "replace5" || pos2 <= src.n)) {
            if (op == "replace5") {
                r.replace(pos, cnt, S(src.p, src.n), pos2, cnt2);
            } else if (op == "replacep") {
                r.replace(pos, cnt, p, cnt2);
            } else {
                r.replace(pos, cnt, p);
            }
            if (r.size() <= Cap) {
                ref.tok("ok");
                put_state(ref, r);
            }
        }
        return true;
    }

    // iterator-based overloads: replacei (first, last, str), replaceip (first, last, s, count2),
    // replaceiz (first, last, s), replacef (first, last, count2, ch); [first, last) must be a range of the string
    static bool replace_iter(std::string const& op, Toks& in, Out& impl, Out& ref)
    {
        Src<Char> content(in.list());
        auto first = static_cast<std::size_t>(in.unum());
        auto last  = static_cast<std::size_t>(in.unum());
        if (content.n > Cap) {
            impl.tok("contract");
            return true;
        }
        // a pair that is not a range of the string stops at the precondition (377d1df); std: undefined, no reference
        bool const valid = first <= last && last <= content.n;
        if (first > Cap + 1 || last > Cap + 1) { return false; }   // the iterators themselves must be formable
        E e(static_cast<Char const*>(content.p), content.n);
        S r(content.p, content.n);
        auto rf = [&] { return r.cbegin() + static_cast<std::ptrdiff_t>(first); };
        auto rl = [&] { return r.cbegin() + static_cast<std::ptrdiff_t>(last); };
        if (op == "replacef") {
            auto cnt2 = static_cast<std::size_t>(in.unum());
            auto ch   = static_cast<Char>(in.num());
            guarded(impl, [&](Out& o) {
                e.replace(e.cbegin() + first, e.cbegin() + last, cnt2, ch);
                o.tok("ok");
                put_state(o, e);
            });
            if (valid && cnt2 <= 100000) {
                r.replace(rf(), rl(), cnt2, ch);
                if (r.size() <= Cap) {
                    ref.tok("ok");
                    put_state(ref, r);
                }
            }
            return true;
        }
        auto v = in.list();
        if (op == "replaceiz") { v.push_back(0); }
        Src<Char> src(v);
        std::size_t cnt2 = 0;
        if (op == "replaceip") {
            cnt2 = static_cast<std::size_t>(in.unum());
            if (cnt2 > src.n) { return false; }
        }
        if (op == "replacei" && src.n > Cap) {
            impl.tok("contract");
            return true;
        }
        Char const* p = src.p;
        guarded(impl, [&](Out& o) {
            if (op == "replacei") {
                E es(p, src.n);
                e.replace(e.cbegin() + first, e.cbegin() + last, es);
            } else if (op == "replaceip") {
                e.replace(e.cbegin() + first, e.cbegin() + last, p, cnt2);
            } else {
                e.replace(e.cbegin() + first, e.cbegin() + last, p);
            }
            o.tok("ok");
            put_state(o, e);
        });
        if (!valid) { return true; }
        if (op == "replacei") {
            r.replace(rf(), rl(), S(src.p, src.n));
        } else if (op == "replaceip") {
            r.replace(rf(), rl(), p, cnt2);
        } else {
            r.replace(rf(), rl(), p);
        }
        if (r.size() <= Cap) {
            ref.tok("ok");
            put_state(ref, r);
        }
        return true;
    }

    // replace with a replacement that lies INSIDE the string itself:
    // replaces (pos, count, s) / replace5s (pos, count, s, pos2, count2) / replaceps (pos, count, s.data() + off, count2) /
    // replacezs (pos, count, s.c_str() + off) / replaceis (first, last, s) / replaceips (first, last, s.data() + off, count2) /
    // replaceizs (first, last, s.c_str() + off); off <= size(), off + count2 <= size()
    static bool replace_self(std::string const& op, Toks& in, Out& impl, Out& ref)
    {
        Src<Char> content(in.list());
        auto a = static_cast<std::size_t>(in.unum());   // pos | first
        auto b = static_cast<std::size_t>(in.unum());   // count | last
        std::size_t off  = 0;
        std::size_t cnt2 = 0;
        if (op == "replace5s" || op == "replaceps" || op == "replaceips") {
            off  = static_cast<std::size_t>(in.unum());
            cnt2 = static_cast<std::size_t>(in.unum());
        }
        if (op == "replacezs" || op == "replaceizs") { off = static_cast<std::size_t>(in.unum()); }
        if (content.n > Cap) {
            impl.tok("contract");
            return true;
        }
        bool const iter = op == "replaceis" || op == "replaceips" || op == "replaceizs";
        bool const valid = !iter || (a <= b && b <= content.n);
        if (iter && (a > Cap + 1 || b > Cap + 1)) { return false; }
        if (op != "replace5s" && (off > content.n || (op != "replacezs" && op != "replaceizs" && cnt2 > content.n - off))) { return false; }
        E e(static_cast<Char const*>(content.p), content.n);
        S r(content.p, content.n);
        guarded(impl, [&](Out& o) {
            Char const* p = e.data() + (op == "replace5s" ? 0 : off);
            if (op == "replaces") { e.replace(a, b, e); }
            else if (op == "replace5s") { e.replace(a, b, e, off, cnt2); }
            else if (op == "replaceps") { e.replace(a, b, p, cnt2); }
            else if (op == "replacezs") { e.replace(a, b, p); }
            else if (op == "replaceis") { e.replace(e.cbegin() + a, e.cbegin() + b, e); }
            else if (op == "replaceips") { e.replace(e.cbegin() + a, e.cbegin() + b, p, cnt2); }
            else { e.replace(e.cbegin() + a, e.cbegin() + b, p); }
            o.tok("ok");
            put_state(o, e);
        });
        if ((iter && valid) || (!iter && a <= r.size() && (op != "replace5s" || off <= r.size()))) {
            auto rf = [&] { return r.cbegin() + static_cast<std::ptrdiff_t>(a); };
            auto rl = [&] { return r.cbegin() + static_cast<std::ptrdiff_t>(b); };
            Char const* p = r.data() + (op == "replace5s" ? 0 : off);
            if (op == "replaces") { r.replace(a, b, r); }
            else if (op == "replace5s") { r.replace(a, b, r, off, cnt2); }
            else if (op == "replaceps") { r.replace(a, b, p, cnt2); }
            else if (op == "replacezs") { r.replace(a, b, p); }
            else if (op == "replaceis") { r.replace(rf(), rl(), r); }
            else if (op == "replaceips") { r.replace(rf(), rl(), p, cnt2); }
            else { r.replace(rf(), rl(), p); }
            if (r.size() <= Cap) {
                ref.tok("ok");
                put_state(ref, r);
            }
        }
        return true;
    }

    // copyb / copyb2 / vcopyb: the members that write into a CALLER's buffer, on a destination whose characters are
    // all given by the case line (non-zero, any length >= the number of characters to copy) between two guard
    // characters; BOTH legs print the returned count and the WHOLE destination (guards included) after the call:
    // copy stores nothing but the copied characters (no terminator behind them, nothing in front).
    //   copyb  content dest count pos : e.copy(dest, count, pos)
    //   copyb2 content dest count     : e.copy(dest, count)               (default pos)
    //   vcopyb content dest count pos : etl::basic_string_view<Char>(e).copy(dest, count, pos)
    static constexpr i64 guardChar = 90;
    static bool copy_buf(std::string const& op, Toks& in, Out& impl, Out& ref)
    {
        Src<Char> content(in.list());
        auto dv  = in.list();
        auto cnt = static_cast<std::size_t>(in.unum());
        auto pos = op == "copyb2" ? std::size_t{0} : static_cast<std::size_t>(in.unum());
        if (content.n > Cap) {
            impl.tok("contract");
            return true;
        }
        // the destination must hold the characters to copy (otherwise neither library has a defined result)
        auto const rlen = pos <= content.n ? std::min(cnt, content.n - pos) : std::size_t{0};
        if (rlen > dv.size()) { return false; }
        E e(static_cast<Char const*>(content.p), content.n);
        S r(content.p, content.n);
        auto make = [&] {
            std::vector<Char> b(dv.size() + 2, static_cast<Char>(guardChar));
            for (std::size_t i = 0; i < dv.size(); ++i) { b[i + 1] = static_cast<Char>(dv[i]); }
            return b;
        };
        auto dump = [](Out& o, std::size_t k, std::vector<Char> const& b) {
            o.tok("ok").unum(k).unum(b.size());
            for (auto c : b) { o.num(static_cast<i64>(c)); }
        };
        auto d1 = make();
        auto d2 = make();
        guarded(impl, [&](Out& o) {
            std::size_t k = 0;
            if (op == "copyb") {
                k = e.copy(d1.data() + 1, cnt, pos);
            } else if (op == "copyb2") {
                k = e.copy(d1.data() + 1, cnt);
            } else {
                etl::basic_string_view<Char> v = e;
                k                              = v.copy(d1.data() + 1, cnt, pos);
            }
            dump(o, k, d1);
        });
        if (pos <= r.size()) {
            std::size_t k = 0;
            if (op == "copyb") {
                k = r.copy(d2.data() + 1, cnt, pos);
            } else if (op == "copyb2") {
                k = r.copy(d2.data() + 1, cnt);
            } else {
                std::basic_string_view<Char> v = r;
                k                              = v.copy(d2.data() + 1, cnt, pos);
            }
            dump(ref, k, d2);
        }
        return true;
    }

    static bool run(std::string const& op, Toks& in, Out& impl, Out& ref)
    {
        if (op == "hist") { return hist(in, impl, ref); }
        if (op == "histb") { return hist(in, impl, ref, true); }
        if constexpr (Q) {
            if (op == "replace") { return replace(in, impl, ref); }
            if (op == "replace5" || op == "replacep" || op == "replacez") { return replace_more(op, in, impl, ref); }
            if (op == "replacei" || op == "replaceip" || op == "replaceiz" || op == "replacef") { return replace_iter(op, in, impl, ref); }
            if (op == "replaces" || op == "replace5s" || op == "replaceps" || op == "replacezs" || op == "replaceis" || op == "replaceips" || op == "replaceizs") { return replace_self(op, in, impl, ref); }
            if (op == "copyb" || op == "copyb2" || op == "vcopyb") { return copy_buf(op, in, impl, ref); }
            auto k = op.substr(0, op.find('_'));
            if (k == "q" || k == "qd" || k == "cmp" || k == "copy") { return query(op, in, impl, ref); }
            return query2(op, in, impl, ref);
        }
        return false;
    }
};

#define VH_CAP(CH, N)                                                                                                  \
    if (cap == (N)) { return Run<CH, (N)>::run(op, in, impl, ref); }
#define VH_CAPH(CH, N)                                                                                                 \
    if (cap == (N)) { return Run<CH, (N), false>::run(op, in, impl, ref); }

bool vh::run_case(std::string const& op, Toks& in, Out& impl, Out& ref)
{
    auto ck  = in.str();
    auto cap = static_cast<std::size_t>(in.unum());
    if (ck == "c") {
        VH_CAP(char, 0) VH_CAP(char, 1) VH_CAPH(char, 2) VH_CAP(char, 3) VH_CAP(char, 7) VH_CAP(char, 15)
        VH_CAP(char, 16) VH_CAPH(char, 31) VH_CAPH(char, 254) VH_CAP(char, 255) VH_CAPH(char, 256)
    }
    if (ck == "w") {
        VH_CAPH(wchar_t, 0) VH_CAP(wchar_t, 3) VH_CAPH(wchar_t, 15)
        VH_CAP(wchar_t, 16) VH_CAPH(wchar_t, 256)
    }
    if (ck == "u") { VH_CAPH(char32_t, 0) VH_CAP(char32_t, 3) VH_CAPH(char32_t, 15) VH_CAP(char32_t, 16) }
    if (ck == "s") { VH_CAPH(char16_t, 0) VH_CAPH(char16_t, 3) VH_CAP(char16_t, 15) VH_CAPH(char16_t, 16) }
    if (ck == "b") { VH_CAPH(char8_t, 0) VH_CAPH(char8_t, 3) VH_CAPH(char8_t, 15) VH_CAP(char8_t, 16) }
    return false;
}

VERIF_MAIN()
