// C04 harness: etl::basic_inplace_string<Char, Capacity> (impl leg) vs std::basic_string<Char>
// (reference leg) on the same histories / queries.
//
// hist <ck> <cap> <n> <op args...>*n : a history from the empty string; after every step the
//   observable state is printed: "S <size()> <data()[size()]> <size()> <characters...>".
//   A TETL_PRECONDITION failure ends the leg with "contract".  The reference leg is "na" as soon
//   as std::string has no defined result (out_of_range / precondition) or the result does not
//   fit into the capacity.
// q_<fam> / qd_<fam> / cmp_1 / cmp_5 / copy_m / replace : members on a string with given contents.
// Source arguments are exact-size heap copies (not NUL-terminated).
#include "common.hpp"

#include <etl/string.hpp>
#include <etl/string_view.hpp>

#include <string>

using namespace vh;

template <typename Char>
struct Src {
    Char* p;
    std::size_t n;
    explicit Src(std::vector<i64> const& v)
        : p(static_cast<Char*>(std::malloc((v.size() == 0 ? 1 : v.size()) * sizeof(Char))))
        , n(v.size())
    {
        for (std::size_t i = 0; i < n; ++i) { p[i] = static_cast<Char>(v[i]); }
    }
    Src(Src const&)                    = delete;
    auto operator=(Src const&) -> Src& = delete;
    ~Src() { std::free(p); }
};

template <typename Char, std::size_t Cap>
struct Run {
    using E = etl::basic_inplace_string<Char, Cap>;
    using S = std::basic_string<Char>;
    static constexpr auto npos = static_cast<std::size_t>(-1);

    static void put_state(Out& o, E const& s)
    {
        o.tok("S").unum(s.size()).num(static_cast<i64>(s.data()[s.size()])).unum(s.size());
        for (std::size_t i = 0; i < s.size(); ++i) { o.num(static_cast<i64>(s.data()[i])); }
    }
    static void put_state(Out& o, S const& s)
    {
        o.tok("S").unum(s.size()).num(static_cast<i64>(s.c_str()[s.size()])).unum(s.size());
        for (std::size_t i = 0; i < s.size(); ++i) { o.num(static_cast<i64>(s[i])); }
    }

    // one history step on both strings; returns false when the reference has no defined result
    static bool step(Toks& in, E& e, bool& contract, S& r, bool& refOk)
    {
        auto op = in.str();
        Out scratch;
        auto impl = [&](auto f) {
            if (contract) { return; }
            guarded(scratch, [&](Out&) { f(); });
            if (scratch.s == "contract") { contract = true; }
        };
        auto ref = [&](bool defined, auto f) {
            if (!refOk) { return; }
            if (!defined) {
                refOk = false;
                return;
            }
            f();
            if (r.size() > Cap) { refOk = false; }
        };
        if (op == "clear") {
            impl([&] { e.clear(); });
            ref(true, [&] { r.clear(); });
        } else if (op == "pb") {
            auto c = static_cast<Char>(in.num());
            impl([&] { e.push_back(c); });
            ref(true, [&] { r.push_back(c); });
        } else if (op == "pop") {
            impl([&] { e.pop_back(); });
            ref(!r.empty(), [&] { r.pop_back(); });
        } else if (op == "af") {
            auto n = static_cast<std::size_t>(in.unum());
            auto c = static_cast<Char>(in.num());
            impl([&] { e.append(n, c); });
            ref(n <= 100000, [&] { r.append(n, c); });
        } else if (op == "ap") {
            Src<Char> src(in.list());
            auto n = static_cast<std::size_t>(in.unum());
            impl([&] { e.append(static_cast<Char const*>(src.p), n); });
            ref(n <= src.n, [&] { r.append(src.p, n); });
        } else if (op == "ar") {
            Src<Char> src(in.list());
            Char const* f = src.p;
            Char const* l = src.p + src.n;
            impl([&] { e.append(f, l); });
            ref(true, [&] { r.append(f, l); });
        } else if (op == "ip") {
            auto i = static_cast<std::size_t>(in.unum());
            Src<Char> src(in.list());
            auto n = static_cast<std::size_t>(in.unum());
            impl([&] { e.insert(i, static_cast<Char const*>(src.p), n); });
            ref(i <= r.size() && n <= src.n, [&] { r.insert(i, src.p, n); });
        } else if (op == "if") {
            auto i = static_cast<std::size_t>(in.unum());
            auto n = static_cast<std::size_t>(in.unum());
            auto c = static_cast<Char>(in.num());
            impl([&] { e.insert(i, n, c); });
            ref(i <= r.size() && n <= 100000, [&] { r.insert(i, n, c); });
        } else if (op == "er") {
            auto i = static_cast<std::size_t>(in.unum());
            auto n = static_cast<std::size_t>(in.unum());
            impl([&] { e.erase(i, n); });
            ref(i <= r.size(), [&] { r.erase(i, n); });
        } else if (op == "erng") {
            auto i = static_cast<std::size_t>(in.unum());
            auto n = static_cast<std::size_t>(in.unum());
            impl([&] { e.erase(e.cbegin() + i, e.cbegin() + i + n); });
            ref(i <= r.size() && n <= r.size() - i,
                [&] { r.erase(r.cbegin() + static_cast<std::ptrdiff_t>(i), r.cbegin() + static_cast<std::ptrdiff_t>(i + n)); });
        } else if (op == "rs") {
            auto n = static_cast<std::size_t>(in.unum());
            auto c = static_cast<Char>(in.num());
            impl([&] { e.resize(n, c); });
            ref(n <= 100000, [&] { r.resize(n, c); });
        } else if (op == "asp") {
            Src<Char> src(in.list());
            auto n = static_cast<std::size_t>(in.unum());
            impl([&] { e.assign(static_cast<Char const*>(src.p), n); });
            ref(n <= src.n, [&] { r.assign(src.p, n); });
        } else if (op == "asf") {
            auto n = static_cast<std::size_t>(in.unum());
            auto c = static_cast<Char>(in.num());
            impl([&] { e.assign(n, c); });
            ref(n <= 100000, [&] { r.assign(n, c); });
        } else if (op == "sub") {
            auto p = static_cast<std::size_t>(in.unum());
            auto n = static_cast<std::size_t>(in.unum());
            impl([&] { e = e.substr(p, n); });
            ref(p <= r.size(), [&] { r = r.substr(p, n); });
        } else if (op == "sw") {
            Src<Char> src(in.list());
            impl([&] {
                E other(static_cast<Char const*>(src.p), src.n);
                e.swap(other);
            });
            ref(true, [&] {
                S other(src.p, src.n);
                r.swap(other);
            });
        } else {
            return false;
        }
        return true;
    }

    static bool hist(Toks& in, Out& impl, Out& ref)
    {
        auto n = in.num();
        E e{};
        S r{};
        bool contract = false;
        bool refOk    = true;
        impl.tok("ok");
        ref.tok("ok");
        for (i64 k = 0; k < n; ++k) {
            bool const was = contract;
            if (!step(in, e, contract, r, refOk)) { return false; }
            if (!was) {
                if (contract) {
                    impl.tok("contract");
                } else {
                    put_state(impl, e);
                }
            }
            if (refOk) { put_state(ref, r); }
        }
        if (!refOk) {
            ref.s.clear();
            ref.tok("na");
        }
        return true;
    }

    template <typename F>
    static void search(Out& impl, Out& ref, E const& e, S const& r, F f)
    {
        guarded(impl, [&](Out& o) { o.tok("ok").unum(f(e)); });
        ref.tok("ok").unum(f(r));
    }

    static bool query(std::string const& op, Toks& in, Out& impl, Out& ref)
    {
        Src<Char> content(in.list());
        if (content.n > Cap) {
            impl.tok("contract");
            return true;
        }
        E e(static_cast<Char const*>(content.p), content.n);
        S r(content.p, content.n);
        auto us   = op.find('_');
        auto kind = op.substr(0, us);
        auto name = op.substr(us + 1);
        if (kind == "q" || kind == "qd") {
            Src<Char> needle(in.list());
            if (needle.n > Cap) {
                impl.tok("contract");
                return true;
            }
            E en(static_cast<Char const*>(needle.p), needle.n);
            S rn(needle.p, needle.n);
            if (kind == "q") {
                auto pos = static_cast<std::size_t>(in.unum());
                if (name == "find") { search(impl, ref, e, r, [&](auto const& s) { if constexpr (std::is_same_v<std::remove_cvref_t<decltype(s)>, E>) { return s.find(en, pos); } else { return s.find(rn, pos); } }); return true; }
                if (name == "rfind") { search(impl, ref, e, r, [&](auto const& s) { if constexpr (std::is_same_v<std::remove_cvref_t<decltype(s)>, E>) { return s.rfind(en, pos); } else { return s.rfind(rn, pos); } }); return true; }
                if (name == "ffo") { search(impl, ref, e, r, [&](auto const& s) { if constexpr (std::is_same_v<std::remove_cvref_t<decltype(s)>, E>) { return s.find_first_of(en, pos); } else { return s.find_first_of(rn, pos); } }); return true; }
                if (name == "ffno") { search(impl, ref, e, r, [&](auto const& s) { if constexpr (std::is_same_v<std::remove_cvref_t<decltype(s)>, E>) { return s.find_first_not_of(en, pos); } else { return s.find_first_not_of(rn, pos); } }); return true; }
                if (name == "flo") { search(impl, ref, e, r, [&](auto const& s) { if constexpr (std::is_same_v<std::remove_cvref_t<decltype(s)>, E>) { return s.find_last_of(en, pos); } else { return s.find_last_of(rn, pos); } }); return true; }
                if (name == "flno") { search(impl, ref, e, r, [&](auto const& s) { if constexpr (std::is_same_v<std::remove_cvref_t<decltype(s)>, E>) { return s.find_last_not_of(en, pos); } else { return s.find_last_not_of(rn, pos); } }); return true; }
                return false;
            }
            // default position argument
            if (name == "find") { search(impl, ref, e, r, [&](auto const& s) { if constexpr (std::is_same_v<std::remove_cvref_t<decltype(s)>, E>) { return s.find(en); } else { return s.find(rn); } }); return true; }
            if (name == "rfind") { search(impl, ref, e, r, [&](auto const& s) { if constexpr (std::is_same_v<std::remove_cvref_t<decltype(s)>, E>) { return s.rfind(en); } else { return s.rfind(rn); } }); return true; }
            if (name == "ffo") { search(impl, ref, e, r, [&](auto const& s) { if constexpr (std::is_same_v<std::remove_cvref_t<decltype(s)>, E>) { return s.find_first_of(en); } else { return s.find_first_of(rn); } }); return true; }
            if (name == "ffno") { search(impl, ref, e, r, [&](auto const& s) { if constexpr (std::is_same_v<std::remove_cvref_t<decltype(s)>, E>) { return s.find_first_not_of(en); } else { return s.find_first_not_of(rn); } }); return true; }
            if (name == "flo") { search(impl, ref, e, r, [&](auto const& s) { if constexpr (std::is_same_v<std::remove_cvref_t<decltype(s)>, E>) { return s.find_last_of(en); } else { return s.find_last_of(rn); } }); return true; }
            if (name == "flno") { search(impl, ref, e, r, [&](auto const& s) { if constexpr (std::is_same_v<std::remove_cvref_t<decltype(s)>, E>) { return s.find_last_not_of(en); } else { return s.find_last_not_of(rn); } }); return true; }
            return false;
        }
        if (op == "cmp_1") {
            Src<Char> b(in.list());
            if (b.n > Cap) {
                impl.tok("contract");
                return true;
            }
            E eb(static_cast<Char const*>(b.p), b.n);
            S rb(b.p, b.n);
            guarded(impl, [&](Out& o) { o.tok("ok").num(sign(e.compare(eb))); });
            ref.tok("ok").num(sign(r.compare(rb)));
            return true;
        }
        if (op == "cmp_5") {
            auto p1 = static_cast<std::size_t>(in.unum());
            auto n1 = static_cast<std::size_t>(in.unum());
            Src<Char> b(in.list());
            auto p2 = static_cast<std::size_t>(in.unum());
            auto n2 = static_cast<std::size_t>(in.unum());
            if (b.n > Cap) {
                impl.tok("contract");
                return true;
            }
            E eb(static_cast<Char const*>(b.p), b.n);
            S rb(b.p, b.n);
            guarded(impl, [&](Out& o) { o.tok("ok").num(sign(e.compare(p1, n1, eb, p2, n2))); });
            if (p1 <= r.size() && p2 <= rb.size()) { ref.tok("ok").num(sign(r.compare(p1, n1, rb, p2, n2))); }
            return true;
        }
        if (op == "copy_m") {
            auto cnt = static_cast<std::size_t>(in.unum());
            auto pos = static_cast<std::size_t>(in.unum());
            std::vector<Char> dest(Cap + 2, Char(0));
            guarded(impl, [&](Out& o) {
                auto k = e.copy(dest.data(), cnt, pos);
                o.tok("ok").unum(k).unum(k);
                for (std::size_t i = 0; i < k; ++i) { o.num(static_cast<i64>(dest[i])); }
            });
            if (pos <= r.size()) {
                std::vector<Char> d2(r.size() + 2, Char(0));
                auto k = r.copy(d2.data(), cnt, pos);
                ref.tok("ok").unum(k).unum(k);
                for (std::size_t i = 0; i < k; ++i) { ref.num(static_cast<i64>(d2[i])); }
            }
            return true;
        }
        return false;
    }

    static bool replace(Toks& in, Out& impl, Out& ref)
    {
        Src<Char> content(in.list());
        auto pos = static_cast<std::size_t>(in.unum());
        auto cnt = static_cast<std::size_t>(in.unum());
        Src<Char> src(in.list());
        if (content.n > Cap || src.n > Cap) {
            impl.tok("contract");
            return true;
        }
        E e(static_cast<Char const*>(content.p), content.n);
        E es(static_cast<Char const*>(src.p), src.n);
        S r(content.p, content.n);
        guarded(impl, [&](Out& o) {
            e.replace(pos, cnt, es);
            o.tok("ok");
            put_state(o, e);
        });
        if (pos <= r.size()) {
            r.replace(pos, cnt, S(src.p, src.n));
            if (r.size() <= Cap) {
                ref.tok("ok");
                put_state(ref, r);
            }
        }
        return true;
    }

    static bool run(std::string const& op, Toks& in, Out& impl, Out& ref)
    {
        if (op == "hist") { return hist(in, impl, ref); }
        if (op == "replace") { return replace(in, impl, ref); }
        return query(op, in, impl, ref);
    }
};

#define VH_CAP(CH, N)                                                                                                  \
    if (cap == (N)) { return Run<CH, (N)>::run(op, in, impl, ref); }

bool vh::run_case(std::string const& op, Toks& in, Out& impl, Out& ref)
{
    auto ck  = in.str();
    auto cap = static_cast<std::size_t>(in.unum());
    if (ck == "c") {
        VH_CAP(char, 0) VH_CAP(char, 1) VH_CAP(char, 2) VH_CAP(char, 3) VH_CAP(char, 7) VH_CAP(char, 15)
        VH_CAP(char, 16) VH_CAP(char, 31) VH_CAP(char, 255) VH_CAP(char, 256)
    }
    if (ck == "w") { VH_CAP(wchar_t, 1) VH_CAP(wchar_t, 3) VH_CAP(wchar_t, 15) VH_CAP(wchar_t, 16) }
    if (ck == "u") { VH_CAP(char32_t, 3) VH_CAP(char32_t, 7) VH_CAP(char32_t, 16) }
    if (ck == "s") { VH_CAP(char16_t, 15) }
    if (ck == "b") { VH_CAP(char8_t, 16) }
    return false;
}

VERIF_MAIN()
