(* C04 driver: model leg = extracted C04 Model.v (buffer-level inplace_string), spec leg =
   extracted C04 Spec.v (std::string on lists) resp. C08 Spec.v for the search/compare members.
   Parsing/printing only. *)
let zlen l = z_of_int (List.length l)
let zs = str_of_z
let npos_z = z_of_big (Big.pred (Big.shift_left Big.one 64))

let kinds = function
  | "c" -> (CChar, TChar)
  | "w" -> (CWchar, TWchar)
  | "b" -> (CChar8, TChar8)
  | "s" -> (CChar16, TChar16)
  | "u" -> (CChar32, TChar32)
  | _ -> raise Not_found

let view_of_list l = { vbuf = l; voff = Z0; vlen = zlen l }

(* one history operation: (model op, spec op) *)
let read_op t =
  match next_str t with
  | "clear" -> (OClear, SClear)
  | "pb" ->
      let c = next_z t in
      (OPushBack c, SPushBack c)
  | "pop" -> (OPopBack, SPopBack)
  | "af" ->
      let n = next_z t in
      let c = next_z t in
      (OAppendFill (n, c), SAppendFill (n, c))
  | "ap" ->
      let l = next_zlist t in
      let n = next_z t in
      (OAppendPtr (l, n), SAppendPtr (l, n))
  | "ar" ->
      let l = next_zlist t in
      (OAppendRange l, SAppendRange l)
  | "ip" ->
      let i = next_z t in
      let l = next_zlist t in
      let n = next_z t in
      (OInsertPtr (i, l, n), SInsertPtr (i, l, n))
  | "if" ->
      let i = next_z t in
      let n = next_z t in
      let c = next_z t in
      (OInsertFill (i, n, c), SInsertFill (i, n, c))
  | "er" ->
      let i = next_z t in
      let n = next_z t in
      (OErase (i, n), SErase (i, n))
  | "erng" ->
      let i = next_z t in
      let n = next_z t in
      (OEraseRange (i, n), SEraseRange (i, n))
  | "rs" ->
      let n = next_z t in
      let c = next_z t in
      (OResize (n, c), SResize (n, c))
  | "asp" ->
      let l = next_zlist t in
      let n = next_z t in
      (OAssignPtr (l, n), SAssignPtr (l, n))
  | "asf" ->
      let n = next_z t in
      let c = next_z t in
      (OAssignFill (n, c), SAssignFill (n, c))
  | "sub" ->
      let p = next_z t in
      let n = next_z t in
      (OSubstr (p, n), SSubstr (p, n))
  | "sw" | "swf" ->
      let l = next_zlist t in
      (OSwapWith l, SSwapWith l)
  | "rs0" ->
      let n = next_z t in
      (OResize (n, Z0), SResize (n, Z0))
  | "acs" | "pez" | "plz" ->
      let a = next_zlist t @ [ Z0 ] in
      (OAppendCstr a, SAppendCstr a)
  | "zcs" | "zeq" ->
      let a = next_zlist t @ [ Z0 ] in
      (OAssignCstr a, SAssignCstr a)
  | "ast" | "pes" | "pls" ->
      let l = next_zlist t in
      (OAppendStr l, SAppendStr l)
  | "plc" | "pec" ->
      let c = next_z t in
      (OAppendFill (z_of_int 1, c), SAppendFill (z_of_int 1, c))
  | "av" ->
      let l = next_zlist t in
      (OAppendPtr (l, zlen l), SAppendPtr (l, zlen l))
  | "ass" ->
      let l = next_zlist t in
      let p = next_z t in
      let n = next_z t in
      (OAppendStrSub (l, p, n), SAppendStrSub (l, p, n))
  | "avs" ->
      let l = next_zlist t in
      let p = next_z t in
      let n = next_z t in
      (OAppendViewSub (l, p, n), SAppendViewSub (l, p, n))
  | "zss" ->
      let l = next_zlist t in
      let p = next_z t in
      let n = next_z t in
      (OAssignStrSub (l, p, n), SAssignStrSub (l, p, n))
  | "zvs" ->
      let l = next_zlist t in
      let p = next_z t in
      let n = next_z t in
      (OAssignViewSub (l, p, n), SAssignViewSub (l, p, n))
  | "ics" ->
      let i = next_z t in
      let a = next_zlist t @ [ Z0 ] in
      (OInsertCstr (i, a), SInsertCstr (i, a))
  | "ist" | "iv" ->
      let i = next_z t in
      let l = next_zlist t in
      (OInsertPtr (i, l, zlen l), SInsertPtr (i, l, zlen l))
  | "iss" | "ivs" ->
      let i = next_z t in
      let l = next_zlist t in
      let p = next_z t in
      let n = next_z t in
      (OInsertStrSub (i, l, p, n), SInsertStrSub (i, l, p, n))
  | "erp" ->
      let i = next_z t in
      (OErasePos i, SErasePos i)
  (* default arguments as written in the header (all npos / 0, as in the standard) *)
  | "erd" -> (OErase (Z0, npos_z), SErase (Z0, npos_z))
  | "er1" ->
      let i = next_z t in
      (OErase (i, npos_z), SErase (i, npos_z))
  | "subd" -> (OSubstr (Z0, npos_z), SSubstr (Z0, npos_z))
  | "sub1" ->
      let p = next_z t in
      (OSubstr (p, npos_z), SSubstr (p, npos_z))
  | "ass2" ->
      let l = next_zlist t in
      let p = next_z t in
      (OAppendStrSub (l, p, npos_z), SAppendStrSub (l, p, npos_z))
  | "avs2" ->
      let l = next_zlist t in
      let p = next_z t in
      (OAppendViewSub (l, p, npos_z), SAppendViewSub (l, p, npos_z))
  | "zss2" ->
      let l = next_zlist t in
      let p = next_z t in
      (OAssignStrSub (l, p, npos_z), SAssignStrSub (l, p, npos_z))
  | "zvs2" ->
      let l = next_zlist t in
      let p = next_z t in
      (OAssignViewSub (l, p, npos_z), SAssignViewSub (l, p, npos_z))
  | "iss3" | "ivs3" ->
      let i = next_z t in
      let l = next_zlist t in
      let p = next_z t in
      (OInsertStrSub (i, l, p, npos_z), SInsertStrSub (i, l, p, npos_z))
  | "plsx" | "pesx" | "pev" ->
      (* a string of another capacity / a view on the right: append(view) = append(data, size), clamps *)
      let l = next_zlist t in
      (OAppendPtr (l, zlen l), SAppendPtr (l, zlen l))
  | "zch" ->
      (* operator=(Char ch): assign(&ch, 1) *)
      let c = next_z t in
      (OAssignPtr ([ c ], z_of_int 1), SAssignPtr ([ c ], z_of_int 1))
  | "zst" ->
      (* assign(str): the defaulted copy assignment from another object (built by the (ptr, len) constructor) *)
      let l = next_zlist t in
      (OAssignStrSub (l, Z0, npos_z), SAssignStrSub (l, Z0, npos_z))
  | "kf" ->
      let n = next_z t in
      let c = next_z t in
      (OAssignFill (n, c), SAssignFill (n, c))
  | "fer" ->
      let c = next_z t in
      (OFreeErase c, SFreeErase c)
  | "fei" ->
      let k = next_z t in
      (OFreeEraseIf k, SFreeEraseIf (pred_of k))
  | _ -> raise Not_found

(* operations whose argument is another basic_inplace_string object of the same type: it must exist,
   i.e. hold at most Capacity characters ([arg_ok] of the theorem); otherwise the spec leg is "na"
   and the model constructs it exactly like the harness does (precondition failure of the constructor) *)
let str_arg name = List.mem name [ "ast"; "pes"; "pls"; "ass"; "zss"; "ist"; "iss"; "kss"; "ks"; "plzs"; "plcs"; "ass2"; "zss2"; "iss3"; "zst" ]

(* one harness operation = one or two model operations (constructors and operator+ with a left C string /
   character build a new string and then append); the state is printed after the last one *)
let read_op_named0 t name =
  match name with
  | "kss" ->
      ignore (next_str t);
      let l = next_zlist t in
      let p = next_z t in
      let n = next_z t in
      (name, [ (OAssignStrSub (l, p, n), SAssignStrSub (l, p, n)) ])
  | "ks" ->
      ignore (next_str t);
      let l = next_zlist t in
      let p = next_z t in
      (name, [ (OAssignStrSub (l, p, zlen l), SAssignStrSub (l, p, zlen l)) ])
  | "kvs" ->
      ignore (next_str t);
      let l = next_zlist t in
      let p = next_z t in
      let n = next_z t in
      (name, [ (OAssignViewSub (l, p, n), SAssignViewSub (l, p, n)) ])
  | "kv" | "kr" | "zv" | "zr" | "zveq" ->
      (* basic_inplace_string(view) / (first, last) / assign(view) / assign(first, last) with pointers:
         value-initialised storage + append(first, last) *)
      ignore (next_str t);
      let l = next_zlist t in
      (name, [ (OAssignViewSub (l, Z0, npos_z), SAssignViewSub (l, Z0, npos_z)) ])
  | "krr" | "zrr" ->
      (* ... with etl::reverse_iterator<pointer>: random access, the characters arrive in reverse order *)
      ignore (next_str t);
      let l = List.rev (next_zlist t) in
      (name, [ (OAssignViewSub (l, Z0, npos_z), SAssignViewSub (l, Z0, npos_z)) ])
  | "krf" | "zrf" | "zri" ->
      (* ... with a forward-only iterator: no up-front check, one push_back per character onto the empty string *)
      ignore (next_str t);
      let l = next_zlist t in
      (name, [ (OAssignFill (Z0, Z0), SAssignFill (Z0, Z0)); (OAppendRangeIn l, SAppendRange l) ])
  | "arr" ->
      ignore (next_str t);
      let l = List.rev (next_zlist t) in
      (name, [ (OAppendRange l, SAppendRange l) ])
  | "arf" | "ari" ->
      ignore (next_str t);
      let l = next_zlist t in
      (name, [ (OAppendRangeIn l, SAppendRange l) ])
  | "kz" ->
      ignore (next_str t);
      let a = next_zlist t @ [ Z0 ] in
      (name, [ (OAssignCstr a, SAssignCstr a) ])
  | "plzs" ->
      ignore (next_str t);
      let a = next_zlist t @ [ Z0 ] in
      let l = next_zlist t in
      (name, [ (OAssignCstr a, SAssignCstr a); (OAppendStr l, SAppendStr l) ])
  | "plcs" ->
      ignore (next_str t);
      let c = next_z t in
      let l = next_zlist t in
      (name, [ (OAssignFill (z_of_int 1, c), SAssignFill (z_of_int 1, c)); (OAppendStr l, SAppendStr l) ])
  | _ ->
      let m, sp = read_op t in
      (name, [ (m, sp) ])

let zmin a b = if Big.leq (big_of_z a) (big_of_z b) then a else b
let zsub a b = z_of_big (Big.sub (big_of_z a) (big_of_z b))
let zadd a b = z_of_big (Big.add (big_of_z a) (big_of_z b))
let zle a b = Big.leq (big_of_z a) (big_of_z b)
let rec drop_z n l = if zle n Z0 then l else (match l with [] -> [] | _ :: r -> drop_z (zsub n (z_of_int 1)) r)

(* operations whose argument points into / is the string itself: the model operation is built from the model's
   CURRENT state (the array behind s.data() + off is [self_src s off]), the spec operation from the current std
   contents.  (off, count) are reduced to a range of the string exactly like the harness does:
   off' = min(off, size()), count' = min(count, size() - off') *)
let nat_of_z z = let rec go n acc = if n <= 0 then acc else go (n - 1) (S acc) in go (int_of_z z) O
let bind_r r f = match r with Ok a -> f a | Contract -> Contract | UB k -> UB k | OutOfFuel -> OutOfFuel

(* a sub-operation = (model operation, spec operation, optional DIRECT model function).  The direct function is the
   in-place loop of ModelAlias.v (what the code does when the source lies inside the string itself); C04_self_loops_are_snapshot
   proves it equal to [step] on the snapshot operation, the driver runs the in-place loop *)
let self_ops t name : ((istr -> op) * (z list -> sop) * (istr -> istr res) option) list =
  let clamp size off n = let o = zmin off size in (o, zmin n (zsub size o)) in
  let mk fm fs = [ ((fun s -> fm s), (fun l -> fs l), None) ] in
  let mkd fm fs d = [ ((fun s -> fm s), (fun l -> fs l), Some d) ] in
  let nz = next_z in
  match name with
  | "aps" | "ars" ->
      let off = nz t in let n = nz t in
      mkd (fun s -> let o, k = clamp (get_size s) off n in
                   if name = "aps" then OAppendPtr (self_src s o, k) else OAppendRange (List.filteri (fun i _ -> i < int_of_z k) (self_src s o)))
         (fun l -> let o, k = clamp (zlen l) off n in
                   if name = "aps" then SAppendPtr (drop_z o l, k) else SAppendRange (List.filteri (fun i _ -> i < int_of_z k) (drop_z o l)))
         (fun s -> let o, k = clamp (get_size s) off n in
                   if name = "aps" then append_self_m s o k
                   else if zle k (zsub s.cap (get_size s)) then push_back_self_loop s o (nat_of_z k) else Contract)
  | "asps" ->
      let off = nz t in let n = nz t in
      mk (fun s -> let o, k = clamp (get_size s) off n in OAssignPtr (self_src s o, k))
         (fun l -> let o, k = clamp (zlen l) off n in SAssignPtr (drop_z o l, k))
  | "ips" ->
      let i = nz t in let off = nz t in let n = nz t in
      mkd (fun s -> let o, k = clamp (get_size s) off n in OInsertPtr (i, self_src s o, k))
         (fun l -> let o, k = clamp (zlen l) off n in SInsertPtr (i, drop_z o l, k))
         (fun s -> let o, k = clamp (get_size s) off n in insert_self_m s i o k)
  | "zeqs" | "zcss" ->
      let off = nz t in
      mk (fun s -> OAssignCstr (self_src s (zmin off (get_size s)))) (fun l -> SAssignCstr (drop_z (zmin off (zlen l)) l @ [ Z0 ]))
  | "acss" ->
      let off = nz t in
      mkd (fun s -> OAppendCstr (self_src s (zmin off (get_size s)))) (fun l -> SAppendCstr (drop_z (zmin off (zlen l)) l @ [ Z0 ]))
          (fun s -> let o = zmin off (get_size s) in bind_r (strlen_m (arr_view (self_src s o))) (fun len -> append_self_m s o len))
  | "icss" ->
      let i = nz t in let off = nz t in
      mkd (fun s -> OInsertCstr (i, self_src s (zmin off (get_size s)))) (fun l -> SInsertCstr (i, drop_z (zmin off (zlen l)) l @ [ Z0 ]))
          (fun s -> let o = zmin off (get_size s) in
                    if Big.gt (big_of_z i) (big_of_z (get_size s)) then Contract
                    else bind_r (strlen_m (arr_view (self_src s o))) (fun len -> insert_self_m s i o len))
  | "plss" -> mk (fun s -> OAppendStr (contents s)) (fun l -> SAppendStr l)   (* e = e + e: the left operand is copied first *)
  | "asts" | "pess" ->
      (* append(str) with str = *this: append(str.begin(), str.end()), pointers into the array that grows *)
      mkd (fun s -> OAppendStr (contents s)) (fun l -> SAppendStr l)
          (fun s -> if zle (get_size s) (zsub s.cap (get_size s)) then push_back_self_loop s Z0 (nat_of_z (get_size s)) else Contract)
  | "ists" | "ivss" ->
      let i = nz t in
      mkd (fun s -> OInsertPtr (i, self_src s Z0, get_size s)) (fun l -> SInsertPtr (i, l, zlen l))
          (fun s -> insert_self_m s i Z0 (get_size s))
  | "avss" -> mkd (fun s -> OAppendPtr (self_src s Z0, get_size s)) (fun l -> SAppendPtr (l, zlen l)) (fun s -> append_self_m s Z0 (get_size s))
  | "zself" -> []   (* s.assign(s); s = s: the defaulted copy assignment from itself changes nothing *)
  | "zvself" -> mk (fun s -> OAssignViewSub (contents s, Z0, npos_z)) (fun l -> SAssignViewSub (l, Z0, npos_z))
  | "sws" -> mk (fun s -> OSwapWith (contents s)) (fun l -> SSwapWith l)
  | "asss" ->
      let p = nz t in let n = nz t in
      mk (fun s -> OAppendStrSub (contents s, p, n)) (fun l -> SAppendStrSub (l, p, n))
  | "zsss" ->
      let p = nz t in let n = nz t in
      mk (fun s -> OAssignStrSub (contents s, p, n)) (fun l -> SAssignStrSub (l, p, n))
  | "avsss" ->
      let p = nz t in let n = nz t in
      mk (fun s -> OAppendViewSub (contents s, p, n)) (fun l -> SAppendViewSub (l, p, n))
  | "zvsss" ->
      let p = nz t in let n = nz t in
      mk (fun s -> OAssignViewSub (contents s, p, n)) (fun l -> SAssignViewSub (l, p, n))
  | "isss" | "ivsss" ->
      let i = nz t in let p = nz t in let n = nz t in
      mk (fun s -> OInsertStrSub (i, contents s, p, n)) (fun l -> SInsertStrSub (i, l, p, n))
  | _ -> raise Not_found

let self_names = [ "aps"; "ars"; "asps"; "ips"; "zeqs"; "zcss"; "acss"; "icss"; "asts"; "pess"; "plss"; "ists"; "ivss"; "avss";
                   "zself"; "zvself"; "sws"; "asss"; "zsss"; "avsss"; "zvsss"; "isss"; "ivsss" ]

let read_op_named t =
  let name = (match t.rest with x :: _ -> x | [] -> "") in
  let const l = List.map (fun (m, sp) -> ((fun (_ : istr) -> m), (fun (_ : z list) -> sp), None)) l in
  if List.mem name self_names then (ignore (next_str t); (name, self_ops t name))
  else let name, l = read_op_named0 t name in (name, const l)

let state_s (s : istr) = join [ "S"; zs (get_size s); zs (terminator s); zlist_s (contents s) ]
let list_s (l : z list) = join [ "S"; string_of_int (List.length l); "0"; zlist_s l ]

let res_s f = function Ok a -> "ok " ^ f a | Contract -> "contract" | UB _ -> "ub" | OutOfFuel -> "fuel"

(* a string with given contents (model side): constructed through the (ptr, len) constructor *)
let mk_str cap ck l = ctor_ptr cap ck l (zlen l)

let fits cap l = Big.leq (Big.of_int (List.length l)) (big_of_z cap)

let run_case op t =
  let ck, ct = kinds (next_str t) in
  let cap = next_z t in
  match op with
  | "hist" | "histb" ->
      let raw = op = "histb" in
      let n = next_int t in
      let ops = List.init n (fun _ -> read_op_named t) in
      (* model: step by step, printing the observable state after every step *)
      let str_of = function
        | OAppendStr l | OAppendStrSub (l, _, _) | OAssignStrSub (l, _, _) | OInsertPtr (_, l, _)
        | OInsertStrSub (_, l, _, _) -> Some l
        | _ -> None
      in
      (* the basic_inplace_string argument of a harness operation is constructed first *)
      let arg_exists name subs s0 =
        if name = "plsx" || name = "pesx" then
          List.for_all (fun (fm, _, _) -> match fm s0 with OAppendPtr (l, _) -> List.length l <= 5 | _ -> true) subs
        else
        (not (str_arg name))
        || List.for_all (fun (fm, _, _) -> match str_of (fm s0) with Some l -> fits cap l | None -> true) subs
      in
      let rec go_m s acc = function
        | [] -> join (List.rev acc)
        | (name, subs) :: r -> (
            let rec run_subs s ret = function
              | [] -> Ok (s, ret)
              | (fm, _, direct) :: more -> (
                  let o = fm s in
                  let ret' =
                    if name = "sws" then ret else
                    match (returned_pos o, returned_count s o) with
                    | Some p, _ -> [ "R"; zs p ]
                    | None, Ok (Some n) -> [ "R"; zs n ]
                    | _ -> (
                        match o with
                        | OSwapWith src -> (
                            (* the other object after the swap *)
                            match other_str s src with
                            | Ok ot -> (match swap_m s ot with Ok (_, b') -> [ "O"; state_s b' ] | _ -> ret)
                            | _ -> ret)
                        | _ -> ret)
                  in
                  match (match direct with Some f -> f s | None -> step s o) with
                  | Ok s' -> run_subs s' ret' more
                  | Contract -> Contract
                  | UB k -> UB k
                  | OutOfFuel -> OutOfFuel)
            in
            match (if arg_exists name subs s then run_subs s [] subs else Contract) with
            | Ok (s', ret) ->
                if raw then go_m s' (join ("B" :: List.map zs s'.buf) :: acc) r
                else go_m s' (join (state_s s' :: ret) :: acc) r
            | Contract -> join (List.rev ("contract" :: acc))
            | UB _ -> join (List.rev ("ub" :: acc))
            | OutOfFuel -> join (List.rev ("fuel" :: acc)))
      in
      (* spec leg: std::basic_string while it defines a result that fits; where it does not, the DOCUMENTED outcome:
         "contract" when the documented precondition (pre_doc = Total.pre_ok, C04_step_outcome) is false, otherwise
         (the library clamps / returns an empty string: no independent answer) the whole leg is "na" *)
      let rec go_s l acc = function
        | [] -> join (List.rev acc)
        | (name, subs) :: r -> (
            let rec run_subs l ret = function
              | [] -> `Done (l, ret)
              | (fm, fs, _) :: more -> (
                  let o = fs l in
                  let ret' =
                    if name = "sws" then ret else
                    match (spec_returned_pos o, spec_returned_count l o) with
                    | Some p, _ -> [ "R"; zs p ]
                    | None, Some n -> [ "R"; zs n ]
                    | _ -> (match o with SSwapWith _ -> [ "O"; list_s l ] | _ -> ret)
                  in
                  match spec_step_fits cap l o with
                  | Some l' -> run_subs l' ret' more
                  | None -> (
                      match mk_str cap ck l with
                      | Ok st -> if pre_doc st (fm st) then `Na else `Stop
                      | _ -> `Na))
            in
            match (if arg_exists name subs (default_str cap ck) then run_subs l [] subs else `Na) with
            | `Done (l', ret) -> go_s l' (join (list_s l' :: ret) :: acc) r
            | `Stop -> join (List.rev ("contract" :: acc))
            | `Na -> "na")
      in
      (go_m (default_str cap ck) [ "ok" ] ops, if raw then "na" else go_s [] [ "ok" ] ops)
  | "copyb" | "copyb2" | "vcopyb" -> (
      (* copy into a caller's buffer: the destination array (all of its characters) is part of the case; both legs print
         the returned count and the whole array after the call between the two guard characters of the harness *)
      let l = next_zlist t in
      let d = next_zlist t in
      let cnt = next_z t in
      let pos = if op = "copyb2" then Z0 else next_z t in
      let g = z_of_int 90 in
      let pr (n, d') = join [ zs n; zlist_s ((g :: d') @ [ g ]) ] in
      match mk_str cap ck l with
      | Ok s ->
          let m = if op = "vcopyb" then view_copy_into_m s d cnt pos else copy_into_m s d cnt pos in
          (* outside std's domain: pos > size() has a DOCUMENTED outcome ("If pos is greater then size(), nothing will be
             copied", returns 0 - C04_copy_into_past_end; the view member: TETL_PRECONDITION(pos <= size())); a
             destination shorter than the copy has none *)
          let past_end = not (zle pos (zlen l)) in
          let spec =
            match s_copy_into l d cnt pos with
            | Some r -> "ok " ^ pr r
            | None -> if not past_end then "na" else if op = "vcopyb" then "contract" else "ok " ^ pr (Z0, d)
          in
          (res_s pr m, spec)
      | _ -> ("contract", "na"))
  | "replacei" | "replaceip" | "replaceiz" | "replacef" -> (
      let l = next_zlist t in
      let first = next_z t in
      let last = next_z t in
      let nth_prefix n x = List.filteri (fun i _ -> i < n) x in
      (* the characters std::string::replace(first, last, ...) inserts, and the model call *)
      let ins, model =
        match op with
        | "replacef" ->
            let cnt2 = next_z t in
            let ch = next_z t in
            ( (if Big.leq (big_of_z cnt2) (Big.of_int 100000) then Some (List.init (int_of_z cnt2) (fun _ -> ch)) else None),
              fun s -> replace_it_fill_m s first last cnt2 ch )
        | "replacei" ->
            let src = next_zlist t in
            (Some src, fun s -> if fits cap src then replace_it_m s first last src else Contract)
        | "replaceip" ->
            let a = next_zlist t in
            let cnt2 = next_z t in
            let x = nth_prefix (int_of_z cnt2) a in
            (Some x, fun s -> replace_it_m s first last x)
        | _ ->
            let a = next_zlist t @ [ Z0 ] in
            ( s_cstr a,
              fun s ->
                match strlen_m (arr_view a) with
                | Ok n -> replace_it_m s first last (nth_prefix (int_of_z n) a)
                | Contract -> Contract
                | UB k -> UB k
                | OutOfFuel -> OutOfFuel )
      in
      let valid = zle first last && zle last (zlen l) in
      let spec =
        if not valid then "contract"   (* documented precondition: [first, last) is a range of the string *)
        else
        match ins with
        | Some x -> (
            let cnt = z_of_big (Big.sub (big_of_z last) (big_of_z first)) in
            match s_replace l first cnt x with
            | Some r when fits cap r -> "ok " ^ list_s r
            | _ -> "na")
        | None -> "na"
      in
      match mk_str cap ck l with
      | Ok s -> (res_s state_s (model s), spec)
      | _ -> ("contract", "na"))
  | "replaces" | "replace5s" | "replaceps" | "replacezs" | "replaceis" | "replaceips" | "replaceizs" -> (
      (* the replacement lies inside the string itself *)
      let l = next_zlist t in
      let a = next_z t in
      let b = next_z t in
      let off, cnt2 =
        match op with
        | "replace5s" | "replaceps" | "replaceips" ->
            let x = next_z t in
            let y = next_z t in
            (x, y)
        | "replacezs" | "replaceizs" -> (next_z t, Z0)
        | _ -> (Z0, Z0)
      in
      let prefix n x = List.filteri (fun i _ -> i < int_of_z n) x in
      let iter = List.mem op [ "replaceis"; "replaceips"; "replaceizs" ] in
      let ins =
        match op with
        | "replaces" | "replaceis" -> Some l
        | "replace5s" -> s_substr l off cnt2
        | "replaceps" | "replaceips" -> Some (prefix cnt2 (drop_z off l))
        | _ -> s_cstr (drop_z off l @ [ Z0 ])
      in
      let spec =
        if iter && not (zle a b && zle b (zlen l)) then "contract" else
        match ins with
        | Some x -> (
            match s_replace l a (if iter then zsub b a else b) x with
            | Some r when fits cap r -> "ok " ^ list_s r
            | _ -> "na")
        | None -> "na"
      in
      match mk_str cap ck l with
      | Ok s ->
          let with_len f =
            match strlen_m (arr_view (self_src s off)) with
            | Ok n -> f n
            | Contract -> Contract
            | UB k -> UB k
            | OutOfFuel -> OutOfFuel
          in
          let m =
            match op with
            | "replaces" -> replace_m s a b (contents s)
            | "replace5s" -> replace5_m s a b (contents s) off cnt2
            | "replaceps" -> replace_ptr_m s a b (self_src s off) cnt2
            | "replacezs" -> replace_cstr_m s a b (self_src s off)
            | "replaceis" -> replace_it_m s a b (contents s)
            | "replaceips" -> replace_it_m s a b (prefix cnt2 (self_src s off))
            | _ -> with_len (fun n -> replace_it_m s a b (prefix n (self_src s off)))
          in
          (res_s state_s m, spec)
      | _ -> ("contract", "na"))
  | "replace" | "replace5" | "replacep" | "replacez" | "replace4" -> (
      let l = next_zlist t in
      let pos = next_z t in
      let cnt = next_z t in
      let src0 = next_zlist t in
      let src = if op = "replacez" then src0 @ [ Z0 ] else src0 in
      let pos2, cnt2 =
        match op with
        | "replace5" ->
            let a = next_z t in
            let b = next_z t in
            (a, b)
        | "replacep" -> (Z0, next_z t)
        | "replace4" -> (next_z t, npos_z)   (* the default count2 as written in the header *)
        | _ -> (Z0, Z0)
      in
      let op = if op = "replace4" then "replace5" else op in
      (* what std::string::replace inserts *)
      let ins =
        match op with
        | "replace" -> Some src
        | "replace5" -> s_substr src pos2 cnt2
        | "replacep" -> Some (List.filteri (fun i _ -> i < int_of_z cnt2) src)
        | _ -> s_cstr src
      in
      let spec =
        match ins with
        | Some x -> (
            match s_replace l pos cnt x with
            | Some r when fits cap r -> "ok " ^ list_s r
            | _ -> "na")
        | None -> "na"
      in
      if (op = "replace5" || op = "replace") && not (fits cap src) then ("contract", "na")
      else
        match mk_str cap ck l with
        | Ok s ->
            let m =
              match op with
              | "replace" -> replace_m s pos cnt src
              | "replace5" -> replace5_m s pos cnt src pos2 cnt2
              | "replacep" -> replace_ptr_m s pos cnt src cnt2
              | _ -> replace_cstr_m s pos cnt src
            in
            (res_s state_s m, spec)
        | _ -> ("contract", "na"))
  | _ when (let k = (try String.sub op 0 (String.index op '_') with Not_found -> op) in
            List.mem k [ "sp"; "sz"; "sc"; "c3"; "cz"; "c3z"; "c4p"; "cv"; "c3v"; "c5v"; "pfx"; "rel"; "idx"; "fb"; "ef"; "qdz"; "qdc"; "c4s"; "c4v"; "copy2"; "riter" ]) -> (
      let us = try String.index op '_' with Not_found -> String.length op in
      let kind = String.sub op 0 us in
      let name = if us < String.length op then String.sub op (us + 1) (String.length op - us - 1) else "" in
      let l = next_zlist t in
      let famv = function
        | "find" -> FFind | "rfind" -> FRfind | "ffo" -> FFirstOf | "ffno" -> FFirstNotOf
        | "flo" -> FLastOf | "flno" -> FLastNotOf | _ -> raise Not_found
      in
      let bools bl = join (List.map b2s bl) in
      let cstr_arr () = arr_view (next_zlist t @ [ Z0 ]) in
      match mk_str cap ck l with
      | Ok s -> (
          let search n pos =
            let f = famv name in
            (res_s zs (search_m0 f s n pos), "ok " ^ zs (search_s f l (needle_chars n) pos))
          in
          let cmp c =
            ( res_s zs (compare_call_m s c),
              match compare_call_s ct l c with Some x -> "ok " ^ zs x | None -> "na" )
          in
          match kind with
          | "sp" ->
              let a = arr_view (next_zlist t) in
              let pos = next_z t in
              let cnt = next_z t in
              search (NPtrCount (a, cnt)) pos
          | "sz" ->
              let a = cstr_arr () in
              let pos = next_z t in
              search (NCstr a) pos
          | "qdz" | "qdc" ->
              (* called without a position: the header's default on the model side, the standard's on the spec side *)
              let n = if kind = "qdz" then NCstr (cstr_arr ()) else NChar (next_z t) in
              let f = famv name in
              (res_s zs (search_m0 f s n (default_pos f)), "ok " ^ zs (search_s f l (needle_chars n) (std_default_pos f)))
          | "c4s" | "c4v" ->
              let p1 = next_z t in
              let n1 = next_z t in
              let b = next_zlist t in
              let p2 = next_z t in
              if kind = "c4s" then (if fits cap b then cmp (CmpPos5Str (p1, n1, view_of_list b, p2, npos_z)) else ("contract", "na"))
              else cmp (CmpPos5View (p1, n1, view_of_list b, p2, npos_z))
          | "copy2" ->
              let cnt = next_z t in
              let r, cl = istr_copy_m s cnt Z0 in
              let spec =
                match s_substr l Z0 cnt with
                | Some x -> join [ "ok"; string_of_int (List.length x); zlist_s x ]
                | None -> "na"
              in
              (join [ "ok"; zs r; zlist_s cl ], spec)
          | "riter" ->
              let pr x = join [ "ok"; zlist_s (List.rev x @ List.rev x) ] in
              (pr (contents s), pr l)
          | "sc" ->
              let c = next_z t in
              let pos = next_z t in
              search (NChar c) pos
          | "c3" ->
              let p1 = next_z t in
              let n1 = next_z t in
              let b = next_zlist t in
              if fits cap b then cmp (CmpPosStr (p1, n1, view_of_list b)) else ("contract", "na")
          | "cz" -> cmp (CmpCstr (cstr_arr ()))
          | "c3z" ->
              let p1 = next_z t in
              let n1 = next_z t in
              cmp (CmpPosCstr (p1, n1, cstr_arr ()))
          | "c4p" ->
              let p1 = next_z t in
              let n1 = next_z t in
              let a = arr_view (next_zlist t) in
              let n2 = next_z t in
              cmp (CmpPosPtrCount (p1, n1, a, n2))
          | "cv" -> cmp (CmpStr (view_of_list (next_zlist t)))
          | "c3v" ->
              let p1 = next_z t in
              let n1 = next_z t in
              cmp (CmpPosView (p1, n1, view_of_list (next_zlist t)))
          | "c5v" ->
              let p1 = next_z t in
              let n1 = next_z t in
              let b = view_of_list (next_zlist t) in
              let p2 = next_z t in
              let n2 = next_z t in
              cmp (CmpPos5View (p1, n1, b, p2, n2))
          | "pfx" ->
              let p =
                match name with
                | "v" -> PView (view_of_list (next_zlist t))
                | "c" -> PChar (next_z t)
                | "z" -> PCstr (cstr_arr ())
                | _ -> raise Not_found
              in
              let m =
                match (starts_with_call_m s p, ends_with_call_m s p, contains_call_m s p) with
                | Ok a, Ok b, Ok c -> "ok " ^ bools [ a; b; c ]
                | (Contract, _, _) | (_, Contract, _) | (_, _, Contract) -> "contract"
                | _ -> "ub"
              in
              let n = pfx_chars p in
              (m, "ok " ^ bools [ starts_with_s l n; ends_with_s l n; contains_s l n ])
          | "rel" -> (
              match name with
              | "ss" -> (
                  let b = next_zlist t in
                  match mk_str cap ck b with
                  | Ok sb -> (res_s bools (rel_str_str_m s sb), "ok " ^ bools (rel_s ct l b))
                  | _ -> ("contract", "na"))
              | "sx" ->
                  let b = next_zlist t in
                  if List.length b > 31 then ("contract", "na")
                  else (
                    match mk_str (z_of_int 31) ck b with
                    | Ok sb ->
                        let f bl c = bools bl ^ " " ^ zs c in
                        ( (match (rel_str_str_m s sb, str_compare_m s sb) with
                           | Ok bl, Ok c -> "ok " ^ f bl c
                           | _ -> "ub"),
                          "ok " ^ f (rel_s ct l b) (compare_s ct l b) )
                    | _ -> ("contract", "na"))
              | "sz" ->
                  let a = cstr_arr () in
                  (res_s bools (rel_str_cstr_m s a), "ok " ^ bools (rel_s ct l (cstr_s (view_chars a))))
              | "zs" ->
                  let a = cstr_arr () in
                  (res_s bools (rel_cstr_str_m a s), "ok " ^ bools (rel_s ct (cstr_s (view_chars a)) l))
              | _ -> raise Not_found)
          | "idx" ->
              let i = next_z t in
              let sp =
                if Big.lt (big_of_z i) (Big.of_int (List.length l)) then "ok " ^ zs (zth l i)
                else if Big.equal (big_of_z i) (Big.of_int (List.length l)) then "ok 0"
                else "na"
              in
              (res_s zs (index_m s i), sp)
          | "fb" ->
              let m =
                match (front_m s, back_m s) with
                | Ok a, Ok b -> join [ "ok"; zs a; zs b ]
                | Contract, _ | _, Contract -> "contract"
                | _ -> "ub"
              in
              let sp =
                if l = [] then "na" else join [ "ok"; zs (List.hd l); zs (List.nth l (List.length l - 1)) ]
              in
              (m, sp)
          | "ef" ->
              let n = List.length l in
              let sz = zs (get_size s) in
              ( join [ "ok"; b2s (empty_m s); b2s (full_m s); sz; sz; zs cap; zs cap; sz ],
                join [ "ok"; b2s (n = 0); b2s (Big.equal (Big.of_int n) (big_of_z cap)); string_of_int n; string_of_int n; zs cap; zs cap; string_of_int n ] )
          | _ -> raise Not_found)
      | _ -> ("contract", "na"))
  | _ -> (
      (* queries on a string with given contents *)
      let l = next_zlist t in
      match mk_str cap ck l with
      | Ok s -> (
          let fam name =
            match name with
            | "find" -> (str_find_m, find_s)
            | "rfind" -> (str_rfind_m, rfind_s)
            | "ffo" -> (str_find_first_of_m, find_first_of_s)
            | "ffno" -> (str_find_first_not_of_m, find_first_not_of_s)
            | "flo" -> (str_find_last_of_m, find_last_of_s)
            | "flno" -> (str_find_last_not_of_m, find_last_not_of_s)
            | _ -> raise Not_found
          in
          let us = String.index op '_' in
          let kind = String.sub op 0 us in
          let name = String.sub op (us + 1) (String.length op - us - 1) in
          match kind with
          | "q" ->
              let n = next_zlist t in
              let pos = next_z t in
              let fm, fs = fam name in
              (res_s zs (fm s (view_of_list n) pos), "ok " ^ zs (fs l n pos))
          | "qd" ->
              (* the member called without a position: the standard's default *)
              let n = next_zlist t in
              let _, fs = fam name in
              let v = view_of_list n in
              let m, d =
                match name with
                | "find" -> (str_find_m s v Z0, Z0)
                | "ffo" -> (str_find_first_of_m s v Z0, Z0)
                | "ffno" -> (str_find_first_not_of_m s v Z0, Z0)
                | "rfind" -> (str_rfind_default_m s v, npos_z)
                | "flo" -> (str_find_last_of_default_m s v, npos_z)
                | "flno" -> (str_find_last_not_of_default_m s v, npos_z)
                | _ -> raise Not_found
              in
              (res_s zs m, "ok " ^ zs (fs l n d))
          | "cmp" -> (
              match name with
              | "1" -> (
                  let b = next_zlist t in
                  match mk_str cap ck b with
                  | Ok sb -> (res_s zs (str_compare_m s sb), "ok " ^ zs (compare_s ct l b))
                  | _ -> ("contract", "na"))
              | "5" -> (
                  let p1 = next_z t in
                  let n1 = next_z t in
                  let b = next_zlist t in
                  let p2 = next_z t in
                  let n2 = next_z t in
                  match mk_str cap ck b with
                  | Ok sb ->
                      ( res_s zs (str_compare5_m s p1 n1 sb p2 n2),
                        match compare5_s ct l p1 n1 b p2 n2 with Some c -> "ok " ^ zs c | None -> "na" )
                  | _ -> ("contract", "na"))
              | _ -> raise Not_found)
          | "copy" ->
              let cnt = next_z t in
              let pos = next_z t in
              let r, cl = istr_copy_m s cnt pos in
              let spec =
                match s_substr l pos cnt with
                | Some x -> join [ "ok"; string_of_int (List.length x); zlist_s x ]
                | None -> "na"
              in
              (join [ "ok"; zs r; zlist_s cl ], spec)
          | _ -> raise Not_found)
      | _ -> ("contract", "na"))

let () = main run_case
