(* C04 driver: model leg = extracted C04 Model.v (buffer-level inplace_string), spec leg =
   extracted C04 Spec.v (std::string on lists) resp. C08 Spec.v for the search/compare members.
   Parsing/printing only. *)
let zlen l = z_of_int (List.length l)
let zs = str_of_z
let npos_z = z_of_big (Big.pred (Big.shift_left Big.one 64))

let kinds = function
  | "c" -> (CChar, TChar)
  | "w" -> (CWchar, TWchar)
  | "b" -> (CChar8, TChar8)
  | "s" -> (CChar16, TChar16)
  | "u" -> (CChar32, TChar32)
  | _ -> raise Not_found

let view_of_list l = { vbuf = l; voff = Z0; vlen = zlen l }

(* one history operation: (model op, spec op) *)
let read_op t =
  match next_str t with
  | "clear" -> (OClear, SClear)
  | "pb" ->
      let c = next_z t in
      (OPushBack c, SPushBack c)
  | "pop" -> (OPopBack, SPopBack)
  | "af" ->
      let n = next_z t in
      let c = next_z t in
      (OAppendFill (n, c), SAppendFill (n, c))
  | "ap" ->
      let l = next_zlist t in
      let n = next_z t in
      (OAppendPtr (l, n), SAppendPtr (l, n))
  | "ar" ->
      let l = next_zlist t in
      (OAppendRange l, SAppendRange l)
  | "ip" ->
      let i = next_z t in
      let l = next_zlist t in
      let n = next_z t in
      (OInsertPtr (i, l, n), SInsertPtr (i, l, n))
  | "if" ->
      let i = next_z t in
      let n = next_z t in
      let c = next_z t in
      (OInsertFill (i, n, c), SInsertFill (i, n, c))
  | "er" ->
      let i = next_z t in
      let n = next_z t in
      (OErase (i, n), SErase (i, n))
  | "erng" ->
      let i = next_z t in
      let n = next_z t in
      (OEraseRange (i, n), SEraseRange (i, n))
  | "rs" ->
      let n = next_z t in
      let c = next_z t in
      (OResize (n, c), SResize (n, c))
  | "asp" ->
      let l = next_zlist t in
      let n = next_z t in
      (OAssignPtr (l, n), SAssignPtr (l, n))
  | "asf" ->
      let n = next_z t in
      let c = next_z t in
      (OAssignFill (n, c), SAssignFill (n, c))
  | "sub" ->
      let p = next_z t in
      let n = next_z t in
      (OSubstr (p, n), SSubstr (p, n))
  | "sw" ->
      let l = next_zlist t in
      (OSwapWith l, SSwapWith l)
  | _ -> raise Not_found

let state_s (s : istr) = join [ "S"; zs (get_size s); zs (terminator s); zlist_s (contents s) ]
let list_s (l : z list) = join [ "S"; string_of_int (List.length l); "0"; zlist_s l ]

let res_s f = function Ok a -> "ok " ^ f a | Contract -> "contract" | UB _ -> "ub" | OutOfFuel -> "fuel"

(* a string with given contents (model side): constructed through the (ptr, len) constructor *)
let mk_str cap ck l = ctor_ptr cap ck l (zlen l)

let fits cap l = Big.leq (Big.of_int (List.length l)) (big_of_z cap)

let run_case op t =
  let ck, ct = kinds (next_str t) in
  let cap = next_z t in
  match op with
  | "hist" ->
      let n = next_int t in
      let ops = List.init n (fun _ -> read_op t) in
      (* model: step by step, printing the observable state after every step *)
      let rec go_m s acc = function
        | [] -> join (List.rev acc)
        | (o, _) :: r -> (
            match step s o with
            | Ok s' -> go_m s' (state_s s' :: acc) r
            | Contract -> join (List.rev ("contract" :: acc))
            | UB _ -> join (List.rev ("ub" :: acc))
            | OutOfFuel -> join (List.rev ("fuel" :: acc)))
      in
      let rec go_s l acc = function
        | [] -> join (List.rev acc)
        | (_, o) :: r -> (
            match spec_step_fits cap l o with
            | Some l' -> go_s l' (list_s l' :: acc) r
            | None -> "na")
      in
      (go_m (default_str cap ck) [ "ok" ] ops, go_s [] [ "ok" ] ops)
  | "replace" -> (
      let l = next_zlist t in
      let pos = next_z t in
      let cnt = next_z t in
      let src = next_zlist t in
      let spec =
        (* std::string::replace(pos, count, str): pos <= size *)
        if Big.leq (big_of_z pos) (Big.of_int (List.length l)) then begin
          let p = int_of_z pos in
          let rest = List.length l - p in
          let c = if Big.lt (big_of_z cnt) (Big.of_int rest) then int_of_z cnt else rest in
          let r = List.filteri (fun i _ -> i < p) l @ src @ List.filteri (fun i _ -> i >= p + c) l in
          if fits cap r then "ok " ^ list_s r else "na"
        end
        else "na"
      in
      match mk_str cap ck l with
      | Ok s -> (res_s state_s (replace_m s pos cnt src), spec)
      | _ -> ("contract", "na"))
  | _ -> (
      (* queries on a string with given contents *)
      let l = next_zlist t in
      match mk_str cap ck l with
      | Ok s -> (
          let fam name =
            match name with
            | "find" -> (str_find_m, find_s)
            | "rfind" -> (str_rfind_m, rfind_s)
            | "ffo" -> (str_find_first_of_m, find_first_of_s)
            | "ffno" -> (str_find_first_not_of_m, find_first_not_of_s)
            | "flo" -> (str_find_last_of_m, find_last_of_s)
            | "flno" -> (str_find_last_not_of_m, find_last_not_of_s)
            | _ -> raise Not_found
          in
          let us = String.index op '_' in
          let kind = String.sub op 0 us in
          let name = String.sub op (us + 1) (String.length op - us - 1) in
          match kind with
          | "q" ->
              let n = next_zlist t in
              let pos = next_z t in
              let fm, fs = fam name in
              (res_s zs (fm s (view_of_list n) pos), "ok " ^ zs (fs l n pos))
          | "qd" ->
              (* the member called without a position: the standard's default *)
              let n = next_zlist t in
              let _, fs = fam name in
              let v = view_of_list n in
              let m, d =
                match name with
                | "find" -> (str_find_m s v Z0, Z0)
                | "ffo" -> (str_find_first_of_m s v Z0, Z0)
                | "ffno" -> (str_find_first_not_of_m s v Z0, Z0)
                | "rfind" -> (str_rfind_default_m s v, npos_z)
                | "flo" -> (str_find_last_of_default_m s v, npos_z)
                | "flno" -> (str_find_last_not_of_default_m s v, npos_z)
                | _ -> raise Not_found
              in
              (res_s zs m, "ok " ^ zs (fs l n d))
          | "cmp" -> (
              match name with
              | "1" -> (
                  let b = next_zlist t in
                  match mk_str cap ck b with
                  | Ok sb -> (res_s zs (str_compare_m s sb), "ok " ^ zs (compare_s ct l b))
                  | _ -> ("contract", "na"))
              | "5" -> (
                  let p1 = next_z t in
                  let n1 = next_z t in
                  let b = next_zlist t in
                  let p2 = next_z t in
                  let n2 = next_z t in
                  match mk_str cap ck b with
                  | Ok sb ->
                      ( res_s zs (str_compare5_m s p1 n1 sb p2 n2),
                        match compare5_s ct l p1 n1 b p2 n2 with Some c -> "ok " ^ zs c | None -> "na" )
                  | _ -> ("contract", "na"))
              | _ -> raise Not_found)
          | "copy" ->
              let cnt = next_z t in
              let pos = next_z t in
              let r, cl = copy_m s cnt pos in
              let spec =
                match s_substr l pos cnt with
                | Some x -> join [ "ok"; string_of_int (List.length x); zlist_s x ]
                | None -> "na"
              in
              (join [ "ok"; zs r; zlist_s cl ], spec)
          | _ -> raise Not_found)
      | _ -> ("contract", "na"))

let () = main run_case
