// C16 — MEASUREMENT tool for the approximate set (sqrt, exp, log*, pow, trig, hyperbolic, erf,
// gamma, complex).  Not part of any proof: it samples arguments, evaluates the etl function at
// run time and the same function of glibc libm in a wider format, and reports the largest
// error in units in the last place of the etl result type, plus the number of arguments where
// exactly one of the two results is NaN/infinite ("special mismatches").
//
// stdin:  "<name> <fmt 32|64> <lo bits> <hi bits> <count>"   arguments are the bit patterns
//         lo, lo+step, ... <= hi of the given format (same sign: magnitudes increase with the pattern)
//         two-argument functions take the second argument from a fixed mixing of the index
//         (documented per function below).
// stdout: "<name> <fmt> max_ulp=<x> at=<bits> special=<n> first_special=<bits|-> n=<count>"
#include <etl/cmath.hpp>
#include <etl/complex.hpp>

#include <cmath>
#include <complex>
#include <cstdint>
#include <cstdio>
#include <cstdlib>
#include <cstring>
#include <iostream>
#include <limits>
#include <sstream>
#include <string>

using u64 = unsigned long long;
using ld  = long double;

template <typename T>
struct Bits;
template <>
struct Bits<float> {
    using U = std::uint32_t;
    static constexpr int p = 24;
    static constexpr int emin = -149;
};
template <>
struct Bits<double> {
    using U = std::uint64_t;
    static constexpr int p = 53;
    static constexpr int emin = -1074;
};
template <typename T>
static T fromb(u64 u)
{
    typename Bits<T>::U v = static_cast<typename Bits<T>::U>(u);
    T x;
    std::memcpy(&x, &v, sizeof x);
    return x;
}

// error of `got` against the (much more accurate) reference `want`, in ulps of T at `want`
template <typename T>
static double ulp_err(T got, ld want)
{
    if (want == 0) { return got == 0 ? 0.0 : static_cast<double>(std::fabs(static_cast<ld>(got)) / std::ldexp(1.0L, Bits<T>::emin)); }
    int e = 0;
    std::frexp(want, &e); // |want| = m 2^e, m in [0.5,1)
    int ue = e - Bits<T>::p;
    if (ue < Bits<T>::emin) { ue = Bits<T>::emin; }
    return static_cast<double>(std::fabs(static_cast<ld>(got) - want) / std::ldexp(1.0L, ue));
}

template <typename T>
static bool special(T x) { return !(x == x) || std::isinf(x); }
static bool special(ld x) { return !(x == x) || std::isinf(x); }
// the reference overflows/underflows T although it is finite in long double
template <typename T>
static bool ref_special(ld want)
{
    if (special(want)) { return true; }
    return std::fabs(want) > static_cast<ld>(std::numeric_limits<T>::max());
}

struct Acc {
    double max_ulp = 0;
    u64 at         = 0;
    u64 nspecial   = 0;
    u64 first      = 0;
    u64 n          = 0;
    ld last_got    = 0;
    ld last_want   = 0;
    template <typename T>
    void add(u64 bits, T got, ld want)
    {
        ++n;
        last_got  = static_cast<ld>(got);
        last_want = want;
        bool sg = special(got);
        bool sw = ref_special<T>(want);
        if (sg || sw) {
            bool same = sg && sw && ((got != got) == (want != want)) && ((got != got) || ((got > 0) == (want > 0)));
            if (!same) {
                if (nspecial == 0) { first = bits; }
                ++nspecial;
            }
            return;
        }
        double e = ulp_err<T>(got, want);
        if (e > max_ulp) {
            max_ulp = e;
            at      = bits;
        }
    }
};

namespace g = etl::detail::gcem;

// explicit second argument for the two-argument functions (request with a 6th token)
static bool g_have_y = false;
static u64 g_ybits   = 0;

template <typename T>
static bool run(std::string const& name, u64 lo, u64 hi, u64 count, Acc& acc)
{
    if (count == 0) { return true; }
    u64 step = (hi - lo) / count;
    if (step == 0) { step = 1; }
#define UNARY(NAME, IMPL, REF)                                                                                         \
    if (name == NAME) {                                                                                                \
        for (u64 b = lo; b <= hi && acc.n < count; b += step) {                                                        \
            T x = fromb<T>(b);                                                                                         \
            volatile T vx = x;                                                                                         \
            x             = vx;                                                                                        \
            acc.add<T>(b, static_cast<T>(IMPL), REF);                                                                  \
        }                                                                                                              \
        return true;                                                                                                   \
    }
    // run-time public API (some go to a compiler builtin = libm, the others to gcem)
    UNARY("sqrt", etl::sqrt(x), std::sqrt(static_cast<ld>(x)))
    UNARY("exp", etl::exp(x), std::exp(static_cast<ld>(x)))
    UNARY("log", etl::log(x), std::log(static_cast<ld>(x)))
    UNARY("log2", etl::log2(x), std::log2(static_cast<ld>(x)))
    UNARY("log10", etl::log10(x), std::log10(static_cast<ld>(x)))
    UNARY("log1p", etl::log1p(x), std::log1p(static_cast<ld>(x)))
    UNARY("sin", etl::sin(x), std::sin(static_cast<ld>(x)))
    UNARY("cos", etl::cos(x), std::cos(static_cast<ld>(x)))
    UNARY("tan", etl::tan(x), std::tan(static_cast<ld>(x)))
    UNARY("asin", etl::asin(x), std::asin(static_cast<ld>(x)))
    UNARY("acos", etl::acos(x), std::acos(static_cast<ld>(x)))
    UNARY("atan", etl::atan(x), std::atan(static_cast<ld>(x)))
    UNARY("sinh", etl::sinh(x), std::sinh(static_cast<ld>(x)))
    UNARY("cosh", etl::cosh(x), std::cosh(static_cast<ld>(x)))
    UNARY("tanh", etl::tanh(x), std::tanh(static_cast<ld>(x)))
    UNARY("asinh", etl::asinh(x), std::asinh(static_cast<ld>(x)))
    UNARY("acosh", etl::acosh(x), std::acosh(static_cast<ld>(x)))
    UNARY("atanh", etl::atanh(x), std::atanh(static_cast<ld>(x)))
    UNARY("erf", etl::erf(x), std::erf(static_cast<ld>(x)))
    UNARY("tgamma", etl::tgamma(x), std::tgamma(static_cast<ld>(x)))
    UNARY("lgamma", etl::lgamma(x), std::lgamma(static_cast<ld>(x)))
    // the gcem kernels behind the builtin-backed functions (constant-evaluation path)
    UNARY("g_exp", g::exp(x), std::exp(static_cast<ld>(x)))
    UNARY("g_log", g::log(x), std::log(static_cast<ld>(x)))
    UNARY("g_sin", g::sin(x), std::sin(static_cast<ld>(x)))
    UNARY("g_cos", g::cos(x), std::cos(static_cast<ld>(x)))
    UNARY("g_tan", g::tan(x), std::tan(static_cast<ld>(x)))
    UNARY("g_tanh", g::tanh(x), std::tanh(static_cast<ld>(x)))
    // two-argument functions: y = x * r, r cycling through a fixed list
    static const double ratios[] = {1.0, -1.0, 0.5, 2.0, -3.0, 0.001, 1000.0, 1e-6, -0.25, 7.0};
    // ... alternating with second arguments whose magnitude is independent of x
    static const double absys[] = {1.0, -1.0, 1e-10, 1e10, -3.0, 0.5, 1e-30, 1e30, 2.0, -1e-5};
#define BINARY(NAME, IMPL, REF)                                                                                        \
    if (name == NAME) {                                                                                                \
        u64 k = 0;                                                                                                     \
        for (u64 b = lo; b <= hi && acc.n < count; b += step, ++k) {                                                   \
            T x = fromb<T>(b);                                                                                         \
            T y = g_have_y ? fromb<T>(g_ybits)                                                                         \
                           : (k % 20 < 10 ? static_cast<T>(x * static_cast<T>(ratios[k % 10]))                         \
                                          : static_cast<T>(absys[k % 10]));                                            \
            volatile T vx = x, vy = y;                                                                                 \
            x = vx;                                                                                                    \
            y = vy;                                                                                                    \
            acc.add<T>(b, static_cast<T>(IMPL), REF);                                                                  \
        }                                                                                                              \
        return true;                                                                                                   \
    }
    BINARY("hypot", etl::hypot(x, y), std::hypot(static_cast<ld>(x), static_cast<ld>(y)))
    BINARY("atan2", etl::atan2(x, y), std::atan2(static_cast<ld>(x), static_cast<ld>(y)))
    // three-argument hypot: z cycles through x, y / 2 and an independent magnitude (with an explicit y: z = x)
    if (name == "hypot3") {
        u64 k = 0;
        for (u64 b = lo; b <= hi && acc.n < count; b += step, ++k) {
            T x = fromb<T>(b);
            T y = g_have_y ? fromb<T>(g_ybits)
                           : (k % 20 < 10 ? static_cast<T>(x * static_cast<T>(ratios[k % 10])) : static_cast<T>(absys[k % 10]));
            T z = g_have_y ? x : (k % 3 == 0 ? x : (k % 3 == 1 ? static_cast<T>(y / 2) : static_cast<T>(absys[(k + 3) % 10])));
            volatile T vx = x, vy = y, vz = z;
            x = vx;
            y = vy;
            z = vz;
            // (libstdc++ 12's three-argument std::hypot returns NaN for (inf, x, NaN): the reference composes the
            // two-argument function in long double, where binary32 / binary64 operands cannot overflow)
            acc.add<T>(b, etl::hypot(x, y, z), std::hypot(std::hypot(static_cast<ld>(x), static_cast<ld>(y)), static_cast<ld>(z)));
        }
        return true;
    }
    // pow: base x in the given range, exponent from a fixed list
    static const double exps[] = {2.0, 0.5, -1.0, 3.0, 1.5, -2.5, 0.1, 10.0, -0.3, 7.25};
    if (name == "pow" || name == "g_pow") {
        u64 k = 0;
        for (u64 b = lo; b <= hi && acc.n < count; b += step, ++k) {
            T x = fromb<T>(b);
            T y = g_have_y ? fromb<T>(g_ybits) : static_cast<T>(exps[k % 10]);
            volatile T vx = x, vy = y;
            x = vx;
            y = vy;
            T got = name == "pow" ? etl::pow(x, y) : static_cast<T>(g::pow(x, y));
            acc.add<T>(b, got, std::pow(static_cast<ld>(x), static_cast<ld>(y)));
        }
        return true;
    }
    // complex functions: z = (x, x * r); error = |got - want| relative to |want|, in ulps of T
    // LENIENT: sin / cos / tan / sinh / cosh / tanh of a complex number multiply exp-sized factors (cosh(x) * cos(y) ...):
    // a factor overflows although the product is representable as soon as a component exceeds log(max) (recorded finding
    // KF-C16-approx-complex-factor-overflow).  In a RANGE request such a sample (etl special, libm finite, a component
    // beyond log(max)) is not counted as a NaN/inf placement mismatch - its rate in a cell depends on the sampling;
    // a single-point request (count 1, used to replay the finding) stays strict.
    T const logmax = static_cast<T>(std::log(static_cast<ld>(std::numeric_limits<T>::max())));
#define CPLX(NAME, IMPL, REF) CPLX2(NAME, IMPL, REF, false)
#define CPLXL(NAME, IMPL, REF) CPLX2(NAME, IMPL, REF, (count > 1))
#define CPLX2(NAME, IMPL, REF, LENIENT)                                                                                \
    if (name == NAME) {                                                                                                \
        u64 k = 0;                                                                                                     \
        for (u64 b = lo; b <= hi && acc.n < count; b += step, ++k) {                                                   \
            T x = fromb<T>(b);                                                                                         \
            T y = static_cast<T>(x * static_cast<T>(ratios[k % 10]));                                                  \
            volatile T vx = x, vy = y;                                                                                 \
            x = vx;                                                                                                    \
            y = vy;                                                                                                    \
            etl::complex<T> z{x, y};                                                                                   \
            std::complex<ld> w{static_cast<ld>(x), static_cast<ld>(y)};                                                \
            auto got  = IMPL;                                                                                          \
            auto want = REF;                                                                                           \
            ld mag    = std::abs(want);                                                                                \
            ld diff   = std::abs(std::complex<ld>{static_cast<ld>(got.real()), static_cast<ld>(got.imag())} - want);   \
            if (special(got.real()) || special(got.imag()) || special(mag) || special(diff)) {                        \
                ++acc.n;                                                                                               \
                bool sg = special(got.real()) || special(got.imag());                                                  \
                bool sw = ref_special<T>(want.real()) || ref_special<T>(want.imag());                                  \
                bool factor = (LENIENT) && sg && !sw && (std::fabs(x) > logmax || std::fabs(y) > logmax);             \
                if (sg != sw && !factor) {                                                                             \
                    if (acc.nspecial == 0) { acc.first = b; }                                                          \
                    ++acc.nspecial;                                                                                    \
                }                                                                                                      \
                continue;                                                                                              \
            }                                                                                                          \
            /* express the distance as an error of a real number of magnitude |want| */                                \
            acc.add<T>(b, static_cast<T>(mag + diff), mag);                                                            \
        }                                                                                                              \
        return true;                                                                                                   \
    }
    // polar(r = x, theta = y): uses the run-time sin / cos
    CPLX("c_polar", etl::polar(x, y), std::polar(static_cast<ld>(x), static_cast<ld>(y)))
    CPLXL("c_sin", etl::sin(z), std::sin(w))
    CPLXL("c_cos", etl::cos(z), std::cos(w))
    CPLXL("c_tan", etl::tan(z), std::tan(w))
    CPLXL("c_sinh", etl::sinh(z), std::sinh(w))
    CPLXL("c_cosh", etl::cosh(z), std::cosh(w))
    CPLXL("c_tanh", etl::tanh(z), std::tanh(w))
    CPLX("c_log", etl::log(z), std::log(w))
    CPLX("c_log10", etl::log10(z), std::log10(w))
    if (name == "c_abs" || name == "c_arg" || name == "c_norm") {
        u64 k = 0;
        for (u64 b = lo; b <= hi && acc.n < count; b += step, ++k) {
            T x = fromb<T>(b);
            T y = static_cast<T>(x * static_cast<T>(ratios[k % 10]));
            volatile T vx = x, vy = y;
            x = vx;
            y = vy;
            etl::complex<T> z{x, y};
            std::complex<ld> w{static_cast<ld>(x), static_cast<ld>(y)};
            if (name == "c_abs") { acc.add<T>(b, etl::abs(z), std::abs(w)); }
            if (name == "c_arg") { acc.add<T>(b, etl::arg(z), std::arg(w)); }
            if (name == "c_norm") { acc.add<T>(b, etl::norm(z), std::norm(w)); }
        }
        return true;
    }
    return false;
}

int main()
{
    std::string line;
    while (std::getline(std::cin, line)) {
        std::istringstream is(line);
        std::string name;
        int fmt = 0;
        u64 lo = 0, hi = 0, count = 0;
        if (!(is >> name >> fmt >> lo >> hi >> count)) { continue; }
        g_have_y = static_cast<bool>(is >> g_ybits);
        Acc acc;
        bool ok = fmt == 32 ? run<float>(name, lo, hi, count, acc) : run<double>(name, lo, hi, count, acc);
        if (!ok) {
            std::printf("%s %d unknown\n", name.c_str(), fmt);
            continue;
        }
        std::printf("%s %d max_ulp=%.3f at=%llu special=%llu first_special=", name.c_str(), fmt, acc.max_ulp, acc.at,
            acc.nspecial);
        if (acc.nspecial != 0) { std::printf("%llu", acc.first); } else { std::printf("-"); }
        std::printf(" n=%llu", acc.n);
        if (acc.n == 1) { std::printf(" got=%.12Lg want=%.12Lg", acc.last_got, acc.last_want); }
        std::printf("\n");
        std::fflush(stdout);
    }
    return 0;
}
