// C16 harness: etl cmath (impl leg) vs glibc libm / libstdc++ (reference leg).
// Values travel as IEEE-754 bit patterns (decimal uint32 / uint64 tokens); every NaN is
// printed as the canonical quiet NaN.  All calls are run-time calls on values read from
// stdin (nothing can be constant-folded).  Out-of-range float->integer conversions inside
// the library (undefined behaviour) are observed with -fsanitize=float-cast-overflow in
// trap mode: the SIGILL is caught and the impl leg becomes the single token "ub".
#include "common.hpp"

#include <etl/cmath.hpp>
#include <etl/numeric.hpp>

#include <cfenv>
#include <climits>
#include <cmath>
#include <csignal>
#include <numeric>
#include <thread>

using namespace vh;

// ---------------------------------------------------------------------------------- UB trap
static thread_local sigjmp_buf g_ubjmp;
static thread_local volatile sig_atomic_t g_ubarmed = 0;
static void on_trap(int)
{
    if (g_ubarmed) { siglongjmp(g_ubjmp, 1); }
    std::_Exit(98);
}
static struct TrapInit {
    TrapInit()
    {
        struct sigaction sa;
        std::memset(&sa, 0, sizeof sa);
        sa.sa_handler = on_trap;
        sa.sa_flags   = SA_NODEFER;
        sigaction(SIGILL, &sa, nullptr);
        sigaction(SIGTRAP, &sa, nullptr);
    }
} g_trapinit;

template <typename F>
static void ubguard(Out& o, F&& f)
{
    g_ubarmed = 1;
    if (sigsetjmp(g_ubjmp, 0) == 0) {
        f(o);
    } else {
        o.s.clear();
        o.tok("ub");
    }
    g_ubarmed = 0;
}

// ---------------------------------------------------------------------------------- formats
template <typename T>
struct Fmt;
template <>
struct Fmt<float> {
    using U                   = std::uint32_t;
    static constexpr U qnan   = 0x7fc00000U;
    static constexpr int bits = 32;
};
template <>
struct Fmt<double> {
    using U                   = std::uint64_t;
    static constexpr U qnan   = 0x7ff8000000000000ULL;
    static constexpr int bits = 64;
};

template <typename T>
static T fromb(u64 u)
{
    typename Fmt<T>::U v = static_cast<typename Fmt<T>::U>(u);
    T x;
    std::memcpy(&x, &v, sizeof x);
    return x;
}
template <typename T>
static u64 tob(T x)
{
    if (x != x) { return Fmt<T>::qnan; }
    typename Fmt<T>::U v;
    std::memcpy(&v, &x, sizeof x);
    return v;
}
template <typename T>
static T launder(T x)
{
    volatile T v = x;
    return v;
}

// raw bit pattern of a value (no NaN canonicalisation): used by the sign-bit operations fabs / abs /
// copysign / signbit, whose result is specified for NaNs too (IEC 60559 5.5.1: they set / copy / read
// the sign bit of every operand)
template <typename T>
static u64 rawb(T x)
{
    typename Fmt<T>::U v;
    std::memcpy(&v, &x, sizeof x);
    return v;
}
// functions compared on raw bits in the sweeps (NaN operands of either sign and any payload included)
static bool raw_op(std::string const& fn) { return fn == "fabs" || fn == "abs" || fn == "copysign" || fn == "copysign_fb"; }

// ---------------------------------------------------------------------------------- rounding modes
// rint / lrint / llrint round in the CURRENT rounding direction.  The reference is glibc called through
// volatile function pointers (never the compiler's inline expansion); the etl call sits in a noipa function
// so that it cannot be moved across fesetround (GCC assumes the default mode without -frounding-math).
static int fe_of(u64 md) { return md == 1 ? FE_DOWNWARD : (md == 2 ? FE_UPWARD : (md == 3 ? FE_TOWARDZERO : FE_TONEAREST)); }
static float (*volatile p_rintf)(float)                   = ::rintf;
static double (*volatile p_rint)(double)                  = ::rint;
static long double (*volatile p_rintl)(long double)       = ::rintl;
static long (*volatile p_lrintf)(float)                   = ::lrintf;
static long (*volatile p_lrint)(double)                   = ::lrint;
static long (*volatile p_lrintl)(long double)             = ::lrintl;
static long long (*volatile p_llrintf)(float)             = ::llrintf;
static long long (*volatile p_llrint)(double)             = ::llrint;
static long long (*volatile p_llrintl)(long double)       = ::llrintl;
static float libm_rint(float x) { return p_rintf(x); }
static double libm_rint(double x) { return p_rint(x); }
static long double libm_rint(long double x) { return p_rintl(x); }
static long libm_lrint(float x) { return p_lrintf(x); }
static long libm_lrint(double x) { return p_lrint(x); }
static long libm_lrint(long double x) { return p_lrintl(x); }
static long long libm_llrint(float x) { return p_llrintf(x); }
static long long libm_llrint(double x) { return p_llrint(x); }
static long long libm_llrint(long double x) { return p_llrintl(x); }
template <typename T>
[[gnu::noinline, gnu::noipa]] static T etl_rint_call(T x) { return etl::rint(x); }
template <typename T>
[[gnu::noinline, gnu::noipa]] static long etl_lrint_call(T x) { return etl::lrint(x); }
template <typename T>
[[gnu::noinline, gnu::noipa]] static long long etl_llrint_call(T x) { return etl::llrint(x); }
[[gnu::noinline, gnu::noipa]] static float etl_rintf_call(float x) { return etl::rintf(x); }
[[gnu::noinline, gnu::noipa]] static long etl_lrintf_call(float x) { return etl::lrintf(x); }
[[gnu::noinline, gnu::noipa]] static long long etl_llrintf_call(float x) { return etl::llrintf(x); }
[[gnu::noinline, gnu::noipa]] static long double etl_rintl_call(long double x) { return etl::rintl(x); }
[[gnu::noinline, gnu::noipa]] static long etl_lrintl_call(long double x) { return etl::lrintl(x); }
[[gnu::noinline, gnu::noipa]] static long long etl_llrintl_call(long double x) { return etl::llrintl(x); }
template <typename T>
[[gnu::noinline, gnu::noipa]] static T ref_rint_call(T x) { return libm_rint(x); }
template <typename T>
[[gnu::noinline, gnu::noipa]] static long ref_lrint_call(T x) { return libm_lrint(x); }
template <typename T>
[[gnu::noinline, gnu::noipa]] static long long ref_llrint_call(T x) { return libm_llrint(x); }
template <typename T, typename F>
[[gnu::noinline, gnu::noipa]] static auto under_mode(u64 md, F f, T x)
{
    std::fesetround(fe_of(md));
    auto r = f(x);
    std::fesetround(FE_TONEAREST);
    return r;
}
// true when the value rounded in the mode md fits long long (else lrint is unspecified)
template <typename T>
static bool lrint_defined(u64 md, T x)
{
    if (!(x == x) || std::isinf(x)) { return false; }
    T r = under_mode(md, ref_rint_call<T>, x);
    return !(r >= static_cast<T>(9223372036854775808.0) || r < static_cast<T>(-9223372036854775808.0));
}

template <typename T>
static void okf(Out& o, T x) { o.tok("ok").unum(tob(x)); }
static void oki(Out& o, long long x) { o.tok("ok").num(x); }
static void okb(Out& o, bool x) { o.tok("ok").b(x); }

// reference for lrint/llrint: only defined when the rounded value is representable
template <typename T>
static void ref_lrint(Out& o, T x)
{
    if (!(x == x) || std::isinf(x)) { return; }
    T r = std::nearbyint(x);
    // 2^63 is exactly representable in both formats
    if (r >= static_cast<T>(9223372036854775808.0) || r < static_cast<T>(-9223372036854775808.0)) { return; }
    oki(o, static_cast<long long>(r));
}
// reference for a truncating conversion used by the fall-back code paths
template <typename T>
static void ref_none(Out&, T) { }

// ---------------------------------------------------------------------------------- op tables
// unary T -> T
template <typename T>
struct U1 {
    char const* name;
    T (*impl)(T);
    T (*ref)(T);
};
template <typename T>
struct U1B {
    char const* name;
    bool (*impl)(T);
    bool (*ref)(T);
};
template <typename T>
struct U1I {
    char const* name;
    long long (*impl)(T);
    void (*ref)(Out&, T);
};
template <typename T>
struct B2 {
    char const* name;
    T (*impl)(T, T);
    T (*ref)(T, T);
};

namespace g = etl::detail::gcem;

template <typename T>
static U1<T> const* u1_table(std::size_t& n)
{
    static U1<T> const t[] = {
        // public API, run-time path
        {"floor", [](T x) -> T { return etl::floor(x); }, [](T x) -> T { return std::floor(x); }},
        {"ceil", [](T x) -> T { return etl::ceil(x); }, [](T x) -> T { return std::ceil(x); }},
        {"trunc", [](T x) -> T { return etl::trunc(x); }, [](T x) -> T { return std::trunc(x); }},
        {"round", [](T x) -> T { return etl::round(x); }, [](T x) -> T { return std::round(x); }},
        {"rint", [](T x) -> T { return etl::rint(x); }, [](T x) -> T { return std::rint(x); }},
        {"fabs", [](T x) -> T { return etl::fabs(x); }, [](T x) -> T { return std::fabs(x); }},
        {"abs", [](T x) -> T { return etl::abs(x); }, [](T x) -> T { return std::fabs(x); }},
        // library-written fall-back code (constant-evaluation / long double path), called directly
        {"g_floor", [](T x) -> T { return g::floor(x); }, [](T x) -> T { return std::floor(x); }},
        {"g_ceil", [](T x) -> T { return g::ceil(x); }, [](T x) -> T { return std::ceil(x); }},
        {"g_trunc", [](T x) -> T { return g::trunc(x); }, [](T x) -> T { return std::trunc(x); }},
        {"g_round", [](T x) -> T { return g::round(x); }, [](T x) -> T { return std::round(x); }},
        {"g_abs", [](T x) -> T { return g::abs(x); }, [](T x) -> T { return std::fabs(x); }},
        {"rint_fb", [](T x) -> T { return etl::detail::rint_fallback(x); }, [](T x) -> T { return std::rint(x); }},
    };
    n = sizeof t / sizeof t[0];
    return t;
}

template <typename T>
static U1B<T> const* u1b_table(std::size_t& n)
{
    static U1B<T> const t[] = {
        {"isnan", [](T x) -> bool { return etl::isnan(x); }, [](T x) -> bool { return std::isnan(x); }},
        {"isinf", [](T x) -> bool { return etl::isinf(x); }, [](T x) -> bool { return std::isinf(x); }},
        {"isfinite", [](T x) -> bool { return etl::isfinite(x); }, [](T x) -> bool { return std::isfinite(x); }},
        {"signbit", [](T x) -> bool { return etl::signbit(x); }, [](T x) -> bool { return std::signbit(x); }},
        {"signbit_fb", [](T x) -> bool { return etl::detail::signbit_fallback(x); },
            [](T x) -> bool { return std::signbit(x); }},
        {"g_is_nan", [](T x) -> bool { return g::internal::is_nan(x); }, [](T x) -> bool { return std::isnan(x); }},
        {"g_is_inf", [](T x) -> bool { return g::internal::is_inf(x); }, [](T x) -> bool { return std::isinf(x); }},
        {"g_is_finite", [](T x) -> bool { return g::internal::is_finite(x); },
            [](T x) -> bool { return std::isfinite(x); }},
    };
    n = sizeof t / sizeof t[0];
    return t;
}

template <typename T>
static U1I<T> const* u1i_table(std::size_t& n)
{
    static U1I<T> const t[] = {
        {"lrint", [](T x) -> long long { return etl::lrint(x); }, ref_lrint<T>},
        {"llrint", [](T x) -> long long { return etl::llrint(x); }, ref_lrint<T>},
        {"lrint_fb", [](T x) -> long long { return etl::detail::lrint_fallback<long>(x); }, ref_lrint<T>},
        {"llrint_fb", [](T x) -> long long { return etl::detail::lrint_fallback<long long>(x); }, ref_lrint<T>},
        {"g_sgn", [](T x) -> long long { return g::sgn(x); },
            [](Out& o, T x) { oki(o, x > 0 ? 1 : (x < 0 ? -1 : 0)); }},
    };
    n = sizeof t / sizeof t[0];
    return t;
}

// C leaves the choice between +0 and -0 open when both operands are zeros (F.10.9.2 footnote) and
// glibc/GCC are not consistent about it; the framework's reference picks the first operand there
template <typename T>
static T ref_fmin(T x, T y) { return (x == T(0) && y == T(0)) ? x : std::fmin(x, y); }
template <typename T>
static T ref_fmax(T x, T y) { return (x == T(0) && y == T(0)) ? x : std::fmax(x, y); }

template <typename T>
static B2<T> const* b2_table(std::size_t& n)
{
    static B2<T> const t[] = {
        {"fmod", [](T x, T y) -> T { return etl::fmod(x, y); }, [](T x, T y) -> T { return std::fmod(x, y); }},
        // glibc 2.36's remainder returns -0 for some positive x with a subnormal y (IEC 60559: a zero result has the
        // sign of x), etl inherits it through __builtin_remainder: the sign of a zero result of the RUN-TIME remainder
        // is not compared (op remainder_raw keeps it: witness of KF-C16-libm-remainder-zero-sign); the library-written
        // g_remainder is compared bit for bit
        {"remainder", [](T x, T y) -> T { T r = etl::remainder(x, y); return r == T(0) ? T(0) : r; },
            [](T x, T y) -> T { T r = std::remainder(x, y); return r == T(0) ? T(0) : r; }},
        {"remainder_raw", [](T x, T y) -> T { return etl::remainder(x, y); },
            [](T x, T y) -> T { return std::remainder(x, y); }},
        {"copysign", [](T x, T y) -> T { return etl::copysign(x, y); },
            [](T x, T y) -> T { return std::copysign(x, y); }},
        {"fmin", [](T x, T y) -> T { return etl::fmin(x, y); }, ref_fmin<T>},
        {"fmax", [](T x, T y) -> T { return etl::fmax(x, y); }, ref_fmax<T>},
        {"fdim", [](T x, T y) -> T { return etl::fdim(x, y); }, [](T x, T y) -> T { return std::fdim(x, y); }},
        {"nextafter", [](T x, T y) -> T { return etl::nextafter(x, y); },
            [](T x, T y) -> T { return std::nextafter(x, y); }},
        {"midpoint", [](T x, T y) -> T { return etl::midpoint(x, y); },
            [](T x, T y) -> T { return std::midpoint(x, y); }},
        // fall-back code called directly
        {"g_fmod", [](T x, T y) -> T { return g::fmod(x, y); }, [](T x, T y) -> T { return std::fmod(x, y); }},
        {"g_remainder", [](T x, T y) -> T { return g::remainder(x, y); },
            [](T x, T y) -> T { return std::remainder(x, y); }},
        {"copysign_fb", [](T x, T y) -> T { return etl::detail::copysign_fallback(x, y); },
            [](T x, T y) -> T { return std::copysign(x, y); }},
    };
    n = sizeof t / sizeof t[0];
    return t;
}

// ---------------------------------------------------------------------------------- sweeps
// "sweep<bits> <func> <start> <stride> <count>": compares impl and reference on the patterns
// start, start+stride, ... ; prints "ok <mismatches> <first mismatching pattern or ->".
// The range is split over VERIF_THREADS (default 8) threads.
static unsigned sweep_threads()
{
    char const* e = std::getenv("VERIF_THREADS");
    long n        = e != nullptr ? std::strtol(e, nullptr, 10) : 8;
    return static_cast<unsigned>(n < 1 ? 1 : (n > 64 ? 64 : n));
}

template <typename Body>
static void par_sweep(u64 start, u64 stride, u64 count, u64 mask, Body body, u64& bad, u64& first)
{
    unsigned const nt = sweep_threads();
    std::vector<u64> bads(nt, 0), firsts(nt, 0), idx(nt, ~0ULL);
    std::vector<std::thread> th;
    for (unsigned t = 0; t < nt; ++t) {
        u64 lo = count / nt * t + (t < count % nt ? t : count % nt);
        u64 hi = lo + count / nt + (t < count % nt ? 1 : 0);
        th.emplace_back([&, t, lo, hi] {
            u64 p = (start + lo * stride) & mask;
            for (u64 i = lo; i < hi; ++i, p = (p + stride) & mask) {
                bool mism;
                g_ubarmed = 1;
                if (sigsetjmp(g_ubjmp, 0) == 0) {
                    mism = body(p);
                } else {
                    mism = true;
                }
                g_ubarmed = 0;
                if (mism) {
                    if (bads[t] == 0) {
                        firsts[t] = p;
                        idx[t]    = i;
                    }
                    ++bads[t];
                }
            }
        });
    }
    for (auto& x : th) { x.join(); }
    bad          = 0;
    u64 best     = ~0ULL;
    for (unsigned t = 0; t < nt; ++t) {
        bad += bads[t];
        if (idx[t] < best) {
            best  = idx[t];
            first = firsts[t];
        }
    }
}

template <typename T>
static bool run_sweep(std::string const& fn, u64 start, u64 stride, u64 count, Out& impl, Out& ref)
{
    std::size_t n  = 0;
    u64 bad        = 0;
    u64 first      = 0;
    bool found     = false;
    u64 const mask = Fmt<T>::bits == 32 ? 0xffffffffULL : ~0ULL;
    {
        auto const* t = u1_table<T>(n);
        for (std::size_t k = 0; k < n && !found; ++k) {
            if (fn == t[k].name) {
                found = true;
                auto e = t[k];
                bool const raw = raw_op(fn);
                par_sweep(start, stride, count, mask, [e, raw](u64 p) {
                    T x = fromb<T>(p);
                    return raw ? rawb(e.impl(x)) != rawb(e.ref(x)) : tob(e.impl(x)) != tob(e.ref(x));
                }, bad, first);
            }
        }
    }
    {
        auto const* t = u1b_table<T>(n);
        for (std::size_t k = 0; k < n && !found; ++k) {
            if (fn == t[k].name) {
                found = true;
                auto e = t[k];
                par_sweep(start, stride, count, mask, [e](u64 p) {
                    T x = fromb<T>(p);
                    return e.impl(x) != e.ref(x);
                }, bad, first);
            }
        }
    }
    {
        auto const* t = u1i_table<T>(n);
        for (std::size_t k = 0; k < n && !found; ++k) {
            if (fn == t[k].name) {
                found = true;
                auto e = t[k];
                par_sweep(start, stride, count, mask, [e](u64 p) {
                    T x = fromb<T>(p);
                    Out r;
                    e.ref(r, x);
                    if (r.empty()) { return false; }
                    Out o;
                    oki(o, e.impl(x));
                    return o.s != r.s;
                }, bad, first);
            }
        }
    }
    {
        // binary functions: the second operand is derived from the pattern by fixed mixing
        // functions so that the sweep visits unrelated, same-exponent, negated and neighbouring pairs
        auto const* t = b2_table<T>(n);
        for (std::size_t k = 0; k < n && !found; ++k) {
            if (fn == t[k].name) {
                found = true;
                auto e = t[k];
                bool const raw = raw_op(fn);
                par_sweep(start, stride, count, mask, [e, mask, raw](u64 p) {
                    T x   = fromb<T>(p);
                    u64 q = (p * 0x9E3779B97F4A7C15ULL + (p >> 7)) & mask;
                    u64 alt[5];
                    alt[0] = q;                                           // unrelated
                    alt[1] = (p ^ (q & 0xffffULL)) & mask;                // same exponent, nearby significand
                    alt[2] = (p ^ (1ULL << (Fmt<T>::bits - 1)));          // negation
                    alt[3] = (p + (q % 5) - 2) & mask;                    // neighbours
                    alt[4] = (p - ((q % 40) << (Fmt<T>::bits == 32 ? 23 : 52))) & mask; // smaller exponent
                    bool mism = false;
                    if (x != x && !raw) { x = fromb<T>(Fmt<T>::qnan); } // signaling NaNs are outside Annex F
                    for (u64 a : alt) {
                        T y = fromb<T>(a);
                        if (y != y && !raw) { y = fromb<T>(Fmt<T>::qnan); }
                        if (raw ? rawb(e.impl(x, y)) != rawb(e.ref(x, y)) : tob(e.impl(x, y)) != tob(e.ref(x, y))) { mism = true; }
                    }
                    return mism;
                }, bad, first);
            }
        }
    }
    if (!found) { return false; }
    impl.tok("ok").unum(bad);
    if (bad != 0) { impl.unum(first); } else { impl.tok("-"); }
    ref.tok("ok").unum(0).tok("-");
    return true;
}

// ---------------------------------------------------------------------------------- cases
template <typename T>
static bool run_fmt(std::string const& fn, Toks& in, Out& impl, Out& ref)
{
    std::size_t n = 0;
    {
        auto const* t = u1_table<T>(n);
        for (std::size_t k = 0; k < n; ++k) {
            if (fn == t[k].name) {
                T x = launder(fromb<T>(in.unum()));
                ubguard(impl, [&](Out& o) { okf(o, t[k].impl(x)); });
                okf(ref, t[k].ref(x));
                return true;
            }
        }
    }
    {
        auto const* t = u1b_table<T>(n);
        for (std::size_t k = 0; k < n; ++k) {
            if (fn == t[k].name) {
                T x = launder(fromb<T>(in.unum()));
                ubguard(impl, [&](Out& o) { okb(o, t[k].impl(x)); });
                okb(ref, t[k].ref(x));
                return true;
            }
        }
    }
    {
        auto const* t = u1i_table<T>(n);
        for (std::size_t k = 0; k < n; ++k) {
            if (fn == t[k].name) {
                T x = launder(fromb<T>(in.unum()));
                ubguard(impl, [&](Out& o) { oki(o, t[k].impl(x)); });
                t[k].ref(ref, x);
                return true;
            }
        }
    }
    {
        auto const* t = b2_table<T>(n);
        for (std::size_t k = 0; k < n; ++k) {
            if (fn == t[k].name) {
                T x = launder(fromb<T>(in.unum()));
                T y = launder(fromb<T>(in.unum()));
                ubguard(impl, [&](Out& o) { okf(o, t[k].impl(x, y)); });
                okf(ref, t[k].ref(x, y));
                return true;
            }
        }
    }
    // ---- sign-bit operations on raw bit patterns (NaN sign and payload are compared)
    if (fn == "rawfabs" || fn == "rawabs") {
        T x = launder(fromb<T>(in.unum()));
        impl.tok("ok").unum(rawb(fn == "rawfabs" ? etl::fabs(x) : etl::abs(x)));
        ref.tok("ok").unum(rawb(std::fabs(x)));
        return true;
    }
    if (fn == "rawcopysign" || fn == "rawcopysign_fb") {
        T x = launder(fromb<T>(in.unum()));
        T y = launder(fromb<T>(in.unum()));
        impl.tok("ok").unum(rawb(fn == "rawcopysign" ? etl::copysign(x, y) : etl::detail::copysign_fallback(x, y)));
        ref.tok("ok").unum(rawb(std::copysign(x, y)));
        return true;
    }
    if (fn == "rawsignbit" || fn == "rawsignbit_fb") {
        T x = launder(fromb<T>(in.unum()));
        okb(impl, fn == "rawsignbit" ? etl::signbit(x) : etl::detail::signbit_fallback(x));
        okb(ref, std::signbit(x));
        return true;
    }
    // ---- rint / lrint / llrint in the four rounding directions: "rm_<fn> <mode 0..3> <bits>"
    if (fn == "rm_rint" || (fn == "rm_rintf" && Fmt<T>::bits == 32)) {
        u64 md = in.unum();
        T x    = launder(fromb<T>(in.unum()));
        // GCC's inline expansion of __builtin_rint{f,} (|x| + 2^p - 2^p, no -frounding-math) returns -0 for a zero result
        // of a positive argument under FE_DOWNWARD; that is the compiler's, not the library's: the sign of a zero result is
        // not compared for binary32 / binary64 (the x87 op rm_rint80 compares it)
        auto pz = [](T r) -> T { return r == T(0) ? T(0) : r; };
        if constexpr (Fmt<T>::bits == 32) {
            okf(impl, pz(fn == "rm_rintf" ? under_mode(md, etl_rintf_call, x) : under_mode(md, etl_rint_call<T>, x)));
        } else {
            okf(impl, pz(under_mode(md, etl_rint_call<T>, x)));
        }
        okf(ref, pz(under_mode(md, ref_rint_call<T>, x)));
        return true;
    }
    if (fn == "rm_lrint" || fn == "rm_llrint" || (Fmt<T>::bits == 32 && (fn == "rm_lrintf" || fn == "rm_llrintf"))) {
        u64 md = in.unum();
        T x    = launder(fromb<T>(in.unum()));
        bool l = fn == "rm_lrint" || fn == "rm_lrintf";
        if constexpr (Fmt<T>::bits == 32) {
            if (fn == "rm_lrintf" || fn == "rm_llrintf") {
                oki(impl, l ? under_mode(md, etl_lrintf_call, x) : under_mode(md, etl_llrintf_call, x));
            } else {
                oki(impl, l ? under_mode(md, etl_lrint_call<T>, x) : under_mode(md, etl_llrint_call<T>, x));
            }
        } else {
            oki(impl, l ? under_mode(md, etl_lrint_call<T>, x) : under_mode(md, etl_llrint_call<T>, x));
        }
        if (lrint_defined(md, x)) { oki(ref, l ? under_mode(md, ref_lrint_call<T>, x) : under_mode(md, ref_llrint_call<T>, x)); }
        return true;
    }
    // ---- integral overloads: "i_<fn>64 <long long>", "u_<fn>64 <unsigned long long>" (the argument is converted to double)
    if constexpr (Fmt<T>::bits == 64) {
        if (fn.rfind("i_", 0) == 0 || fn.rfind("u_", 0) == 0) {
            bool uns        = fn[0] == 'u';
            std::string f   = fn.substr(2);
            long long sv    = 0;
            unsigned long long uv = 0;
            if (uns) { uv = in.unum(); } else { sv = in.num(); }
            volatile long long vs = sv;
            volatile unsigned long long vu = uv;
            sv = vs;
            uv = vu;
            double d = uns ? static_cast<double>(uv) : static_cast<double>(sv);
#define IOVL(NAME, EXPR_S, EXPR_U, REF)                                                                                \
    if (f == NAME) {                                                                                                   \
        if (uns) { EXPR_U; } else { EXPR_S; }                                                                          \
        REF;                                                                                                           \
        return true;                                                                                                   \
    }
            IOVL("floor", okf(impl, etl::floor(sv)), okf(impl, etl::floor(uv)), okf(ref, std::floor(d)))
            IOVL("ceil", okf(impl, etl::ceil(sv)), okf(impl, etl::ceil(uv)), okf(ref, std::ceil(d)))
            IOVL("trunc", okf(impl, etl::trunc(sv)), okf(impl, etl::trunc(uv)), okf(ref, std::trunc(d)))
            IOVL("round", okf(impl, etl::round(sv)), okf(impl, etl::round(uv)), okf(ref, std::round(d)))
            IOVL("rint", okf(impl, etl::rint(sv)), okf(impl, etl::rint(uv)), okf(ref, std::rint(d)))
            IOVL("lrint", oki(impl, etl::lrint(sv)), oki(impl, etl::lrint(uv)), ref_lrint<double>(ref, d))
            IOVL("llrint", oki(impl, etl::llrint(sv)), oki(impl, etl::llrint(uv)), ref_lrint<double>(ref, d))
            IOVL("isnan", okb(impl, etl::isnan(sv)), okb(impl, etl::isnan(uv)), okb(ref, std::isnan(d)))
            IOVL("isinf", okb(impl, etl::isinf(sv)), okb(impl, etl::isinf(uv)), okb(ref, std::isinf(d)))
#undef IOVL
            return false;
        }
    }
    // ---- the C-style suffixed overloads (floorf, fabsf, ...): "<fn>f32 <bits> [<bits>]"
    if constexpr (Fmt<T>::bits == 32) {
        struct SU { char const* name; float (*impl)(float); float (*ref)(float); };
        static SU const su[] = {
            {"floorf", [](float x) { return etl::floorf(x); }, [](float x) { return std::floor(x); }},
            {"ceilf", [](float x) { return etl::ceilf(x); }, [](float x) { return std::ceil(x); }},
            {"truncf", [](float x) { return etl::truncf(x); }, [](float x) { return std::trunc(x); }},
            {"roundf", [](float x) { return etl::roundf(x); }, [](float x) { return std::round(x); }},
            {"rintf", [](float x) { return etl::rintf(x); }, [](float x) { return std::rint(x); }},
            {"fabsf", [](float x) { return etl::fabsf(x); }, [](float x) { return std::fabs(x); }},
        };
        for (auto const& e : su) {
            if (fn == e.name) {
                float x = launder(fromb<float>(in.unum()));
                ubguard(impl, [&](Out& o) { okf(o, e.impl(x)); });
                okf(ref, e.ref(x));
                return true;
            }
        }
        if (fn == "hypotf") {
            float x = launder(fromb<float>(in.unum()));
            float y = launder(fromb<float>(in.unum()));
            if (!(std::isfinite(x) && std::isfinite(y))) {
                okf(impl, etl::hypotf(x, y));
                okf(ref, std::hypot(x, y));
            } else {
                impl.tok("ok").tok("finite");
            }
            return true;
        }
        if (fn == "lrintf" || fn == "llrintf") {
            float x = launder(fromb<float>(in.unum()));
            oki(impl, fn == "lrintf" ? etl::lrintf(x) : etl::llrintf(x));
            ref_lrint<float>(ref, x);
            return true;
        }
        struct SB { char const* name; float (*impl)(float, float); float (*ref)(float, float); };
        static SB const sb[] = {
            {"fmodf", [](float x, float y) { return etl::fmodf(x, y); }, [](float x, float y) { return std::fmod(x, y); }},
            {"remainderf", [](float x, float y) { float r = etl::remainderf(x, y); return r == 0.0F ? 0.0F : r; },
                [](float x, float y) { float r = std::remainder(x, y); return r == 0.0F ? 0.0F : r; }},
            {"copysignf", [](float x, float y) { return etl::copysignf(x, y); }, [](float x, float y) { return std::copysign(x, y); }},
            {"fminf", [](float x, float y) { return etl::fminf(x, y); }, ref_fmin<float>},
            {"fmaxf", [](float x, float y) { return etl::fmaxf(x, y); }, ref_fmax<float>},
            {"fdimf", [](float x, float y) { return etl::fdimf(x, y); }, [](float x, float y) { return std::fdim(x, y); }},
            {"nextafterf", [](float x, float y) { return etl::nextafterf(x, y); }, [](float x, float y) { return std::nextafter(x, y); }},
        };
        for (auto const& e : sb) {
            if (fn == e.name) {
                float x = launder(fromb<float>(in.unum()));
                float y = launder(fromb<float>(in.unum()));
                ubguard(impl, [&](Out& o) { okf(o, e.impl(x, y)); });
                okf(ref, e.ref(x, y));
                return true;
            }
        }
    }
    if (fn == "lerp") {
        T a = launder(fromb<T>(in.unum()));
        T b = launder(fromb<T>(in.unum()));
        T t = launder(fromb<T>(in.unum()));
        okf(impl, etl::lerp(a, b, t));
        okf(ref, std::lerp(a, b, t));
        return true;
    }
    if (fn == "hypot" || fn == "hypot3") {
        // only the documented special cases have an exact answer: the reference leg prints the
        // libm result when an operand is infinite or NaN, "na" otherwise (the finite case belongs
        // to the approximate set, see the "approx" op)
        T x = launder(fromb<T>(in.unum()));
        T y = launder(fromb<T>(in.unum()));
        T z = fn == "hypot3" ? launder(fromb<T>(in.unum())) : T(0);
        bool special = !(std::isfinite(x) && std::isfinite(y) && std::isfinite(z));
        T r          = fn == "hypot3" ? etl::hypot(x, y, z) : etl::hypot(x, y);
        if (special) {
            okf(impl, r);
            // (libstdc++ 12's three-argument std::hypot returns NaN for an infinite operand: the
            // reference composes glibc's two-argument hypot, which follows F.10.4.3)
            // (finite operands are replaced by 1 so that the composition cannot overflow on the way:
            // in a special case only the classes of the operands matter)
            auto cls = [](T v) -> T { return std::isfinite(v) ? T(1) : v; };
            okf(ref, fn == "hypot3" ? std::hypot(std::hypot(cls(x), cls(y)), cls(z)) : std::hypot(x, y));
        } else {
            impl.tok("ok").tok("finite");
        }
        return true;
    }
    return false;
}

// ---------------------------------------------------------------------------------- long double
// x87 extended values travel as three tokens "sign significand biased-exponent" (canonical
// encodings only); a NaN prints as the default quiet NaN "0 13835058055282163712 32767".
static long double from80(Toks& in)
{
    u64 s = in.unum();
    u64 m = in.unum();
    u64 e = in.unum();
    unsigned char b[16] = {};
    std::uint16_t se = static_cast<std::uint16_t>((s != 0 ? 0x8000U : 0U) | (e & 0x7fffU));
    std::memcpy(b, &m, 8);
    std::memcpy(b + 8, &se, 2);
    long double x;
    std::memcpy(&x, b, sizeof x);
    volatile long double v = x;
    return v;
}
static void ok80(Out& o, long double x)
{
    o.tok("ok");
    if (x != x) {
        o.unum(0).unum(0xC000000000000000ULL).unum(32767);
        return;
    }
    unsigned char b[16] = {};
    std::memcpy(b, &x, sizeof x);
    u64 m;
    std::uint16_t se;
    std::memcpy(&m, b, 8);
    std::memcpy(&se, b + 8, 2);
    o.unum((se >> 15) & 1U).unum(m).unum(se & 0x7fffU);
}
template <typename T>
static void ref_lrint80(Out& o, long double x)
{
    if (!(x == x) || std::isinf(x)) { return; }
    long double r = std::nearbyintl(x);
    if (r >= 9223372036854775808.0L || r < -9223372036854775808.0L) { return; }
    oki(o, static_cast<long long>(r));
}

static bool run80(std::string const& fn, Toks& in, Out& impl, Out& ref)
{
    using L = long double;
    struct U { char const* name; L (*impl)(L); L (*ref)(L); };
    static U const u1[] = {
        // every long double call of these runs the gcem kernel (no builtin path)
        {"floor", [](L x) -> L { return etl::floor(x); }, [](L x) -> L { return std::floor(x); }},
        {"ceil", [](L x) -> L { return etl::ceil(x); }, [](L x) -> L { return std::ceil(x); }},
        {"trunc", [](L x) -> L { return etl::trunc(x); }, [](L x) -> L { return std::trunc(x); }},
        {"round", [](L x) -> L { return etl::round(x); }, [](L x) -> L { return std::round(x); }},
        {"rint", [](L x) -> L { return etl::rint(x); }, [](L x) -> L { return std::rint(x); }},
        {"rint_fb", [](L x) -> L { return etl::detail::rint_fallback(x); }, [](L x) -> L { return std::rint(x); }},
        {"fabs", [](L x) -> L { return etl::fabs(x); }, [](L x) -> L { return std::fabs(x); }},
        {"abs", [](L x) -> L { return etl::abs(x); }, [](L x) -> L { return std::fabs(x); }},
        {"g_abs", [](L x) -> L { return g::abs(x); }, [](L x) -> L { return std::fabs(x); }},
    };
    for (auto const& e : u1) {
        if (fn == e.name) {
            L x = from80(in);
            ubguard(impl, [&](Out& o) { ok80(o, e.impl(x)); });
            ok80(ref, e.ref(x));
            return true;
        }
    }
    // ---- sign-bit operations on the raw encoding (NaN sign and payload compared)
    auto raw80 = [](Out& o, L x) {
        unsigned char b[16] = {};
        std::memcpy(b, &x, sizeof x);
        u64 m;
        std::uint16_t se;
        std::memcpy(&m, b, 8);
        std::memcpy(&se, b + 8, 2);
        o.tok("ok").unum((se >> 15) & 1U).unum(m).unum(se & 0x7fffU);
    };
    if (fn == "rawfabs" || fn == "rawabs" || fn == "rawfabsl") {
        L x = from80(in);
        raw80(impl, fn == "rawfabs" ? etl::fabs(x) : (fn == "rawabs" ? etl::abs(x) : etl::fabsl(x)));
        raw80(ref, std::fabs(x));
        return true;
    }
    if (fn == "rawcopysign" || fn == "rawcopysignl") {
        L x = from80(in);
        L y = from80(in);
        raw80(impl, fn == "rawcopysign" ? etl::copysign(x, y) : etl::copysignl(x, y));
        raw80(ref, std::copysign(x, y));
        return true;
    }
    if (fn == "rawsignbit" || fn == "rawsignbit_fb") {
        L x = from80(in);
        okb(impl, fn == "rawsignbit" ? etl::signbit(x) : etl::detail::signbit_fallback(x));
        okb(ref, std::signbit(x));
        return true;
    }
    // ---- rounding directions
    if (fn == "rm_rint" || fn == "rm_rintl") {
        u64 md = in.unum();
        L x    = from80(in);
        ok80(impl, fn == "rm_rintl" ? under_mode(md, etl_rintl_call, x) : under_mode(md, etl_rint_call<L>, x));
        ok80(ref, under_mode(md, ref_rint_call<L>, x));
        return true;
    }
    if (fn == "rm_lrint" || fn == "rm_llrint" || fn == "rm_lrintl" || fn == "rm_llrintl") {
        u64 md = in.unum();
        L x    = from80(in);
        bool l = fn == "rm_lrint" || fn == "rm_lrintl";
        if (fn == "rm_lrintl" || fn == "rm_llrintl") {
            oki(impl, l ? under_mode(md, etl_lrintl_call, x) : under_mode(md, etl_llrintl_call, x));
        } else {
            oki(impl, l ? under_mode(md, etl_lrint_call<L>, x) : under_mode(md, etl_llrint_call<L>, x));
        }
        if (lrint_defined(md, x)) { oki(ref, l ? under_mode(md, ref_lrint_call<L>, x) : under_mode(md, ref_llrint_call<L>, x)); }
        return true;
    }
    // ---- lerp and the special-value ladders of hypot for long double (same templates as float / double)
    if (fn == "lerp") {
        L a = from80(in);
        L b = from80(in);
        L t = from80(in);
        ok80(impl, etl::lerp(a, b, t));
        ok80(ref, std::lerp(a, b, t));
        return true;
    }
    if (fn == "hypot" || fn == "hypotl" || fn == "hypot3") {
        L x = from80(in);
        L y = from80(in);
        L z = fn == "hypot3" ? from80(in) : 0.0L;
        bool special = !(std::isfinite(x) && std::isfinite(y) && std::isfinite(z));
        L r = fn == "hypot3" ? etl::hypot(x, y, z) : (fn == "hypot" ? etl::hypot(x, y) : etl::hypotl(x, y));
        if (special) {
            ok80(impl, r);
            auto cls = [](L v) -> L { return std::isfinite(v) ? 1.0L : v; };
            ok80(ref, fn == "hypot3" ? std::hypot(std::hypot(cls(x), cls(y)), cls(z)) : std::hypot(x, y));
        } else {
            impl.tok("ok").tok("finite");
        }
        return true;
    }
    // ---- the C-style suffixed overloads
    static U const u1l[] = {
        {"floorl", [](L x) -> L { return etl::floorl(x); }, [](L x) -> L { return std::floor(x); }},
        {"ceill", [](L x) -> L { return etl::ceill(x); }, [](L x) -> L { return std::ceil(x); }},
        {"truncl", [](L x) -> L { return etl::truncl(x); }, [](L x) -> L { return std::trunc(x); }},
        {"roundl", [](L x) -> L { return etl::roundl(x); }, [](L x) -> L { return std::round(x); }},
        {"rintl", [](L x) -> L { return etl::rintl(x); }, [](L x) -> L { return std::rint(x); }},
        {"fabsl", [](L x) -> L { return etl::fabsl(x); }, [](L x) -> L { return std::fabs(x); }},
    };
    for (auto const& e : u1l) {
        if (fn == e.name) {
            L x = from80(in);
            ubguard(impl, [&](Out& o) { ok80(o, e.impl(x)); });
            ok80(ref, e.ref(x));
            return true;
        }
    }
    if (fn == "lrintl" || fn == "llrintl") {
        L x = from80(in);
        oki(impl, fn == "lrintl" ? etl::lrintl(x) : etl::llrintl(x));
        ref_lrint80<L>(ref, x);
        return true;
    }
    struct UB { char const* name; bool (*impl)(L); bool (*ref)(L); };
    static UB const ub[] = {
        {"isnan", [](L x) -> bool { return etl::isnan(x); }, [](L x) -> bool { return std::isnan(x); }},
        {"isinf", [](L x) -> bool { return etl::isinf(x); }, [](L x) -> bool { return std::isinf(x); }},
        {"isfinite", [](L x) -> bool { return etl::isfinite(x); }, [](L x) -> bool { return std::isfinite(x); }},
        {"signbit", [](L x) -> bool { return etl::signbit(x); }, [](L x) -> bool { return std::signbit(x); }},
        {"g_is_nan", [](L x) -> bool { return g::internal::is_nan(x); }, [](L x) -> bool { return std::isnan(x); }},
        {"g_is_inf", [](L x) -> bool { return g::internal::is_inf(x); }, [](L x) -> bool { return std::isinf(x); }},
        {"g_is_finite", [](L x) -> bool { return g::internal::is_finite(x); }, [](L x) -> bool { return std::isfinite(x); }},
    };
    for (auto const& e : ub) {
        if (fn == e.name) {
            L x = from80(in);
            ubguard(impl, [&](Out& o) { okb(o, e.impl(x)); });
            okb(ref, e.ref(x));
            return true;
        }
    }
    struct UI { char const* name; long long (*impl)(L); };
    static UI const ui[] = {
        {"lrint", [](L x) -> long long { return etl::lrint(x); }},
        {"llrint", [](L x) -> long long { return etl::llrint(x); }},
        {"lrint_fb", [](L x) -> long long { return etl::detail::lrint_fallback<long>(x); }},
        {"llrint_fb", [](L x) -> long long { return etl::detail::lrint_fallback<long long>(x); }},
    };
    for (auto const& e : ui) {
        if (fn == e.name) {
            L x = from80(in);
            ubguard(impl, [&](Out& o) { oki(o, e.impl(x)); });
            ref_lrint80<L>(ref, x);
            return true;
        }
    }
    if (fn == "g_sgn") {
        L x = from80(in);
        oki(impl, g::sgn(x));
        oki(ref, x > 0 ? 1 : (x < 0 ? -1 : 0));
        return true;
    }
    struct B { char const* name; L (*impl)(L, L); L (*ref)(L, L); };
    static B const b2[] = {
        {"copysign", [](L x, L y) -> L { return etl::copysign(x, y); }, [](L x, L y) -> L { return std::copysign(x, y); }},
        {"fmin", [](L x, L y) -> L { return etl::fmin(x, y); }, ref_fmin<L>},
        {"fmax", [](L x, L y) -> L { return etl::fmax(x, y); }, ref_fmax<L>},
        {"fdim", [](L x, L y) -> L { return etl::fdim(x, y); }, [](L x, L y) -> L { return std::fdim(x, y); }},
        {"fmod", [](L x, L y) -> L { return etl::fmod(x, y); }, [](L x, L y) -> L { return std::fmod(x, y); }},
        {"remainder", [](L x, L y) -> L { L r = etl::remainder(x, y); return r == 0.0L ? 0.0L : r; },
            [](L x, L y) -> L { L r = std::remainder(x, y); return r == 0.0L ? 0.0L : r; }},
        {"midpoint", [](L x, L y) -> L { return etl::midpoint(x, y); }, [](L x, L y) -> L { return std::midpoint(x, y); }},
        {"copysignl", [](L x, L y) -> L { return etl::copysignl(x, y); }, [](L x, L y) -> L { return std::copysign(x, y); }},
        {"fminl", [](L x, L y) -> L { return etl::fminl(x, y); }, ref_fmin<L>},
        {"fmaxl", [](L x, L y) -> L { return etl::fmaxl(x, y); }, ref_fmax<L>},
        {"fdiml", [](L x, L y) -> L { return etl::fdiml(x, y); }, [](L x, L y) -> L { return std::fdim(x, y); }},
        {"fmodl", [](L x, L y) -> L { return etl::fmodl(x, y); }, [](L x, L y) -> L { return std::fmod(x, y); }},
        {"remainderl", [](L x, L y) -> L { L r = etl::remainderl(x, y); return r == 0.0L ? 0.0L : r; },
            [](L x, L y) -> L { L r = std::remainder(x, y); return r == 0.0L ? 0.0L : r; }},
    };
    for (auto const& e : b2) {
        if (fn == e.name) {
            L x = from80(in);
            L y = from80(in);
            ubguard(impl, [&](Out& o) { ok80(o, e.impl(x, y)); });
            ok80(ref, e.ref(x, y));
            return true;
        }
    }
    return false;
}

bool vh::run_case(std::string const& op, Toks& in, Out& impl, Out& ref)
{
    // op = <func><32|64>  or  sweep<32|64>
    if (op.size() < 3) { return false; }
    std::string fn  = op.substr(0, op.size() - 2);
    std::string fmt = op.substr(op.size() - 2);
    if (fmt == "80") { return run80(fn, in, impl, ref); }
    if (fmt != "32" && fmt != "64") { return false; }
    if (fn == "sweep" || fn == "sweepkf") {
        std::string f = in.str();
        u64 start     = in.unum();
        u64 stride    = in.unum();
        u64 count     = in.unum();
        return fmt == "32" ? run_sweep<float>(f, start, stride, count, impl, ref)
                           : run_sweep<double>(f, start, stride, count, impl, ref);
    }
    return fmt == "32" ? run_fmt<float>(fn, in, impl, ref) : run_fmt<double>(fn, in, impl, ref);
}

VERIF_MAIN()
