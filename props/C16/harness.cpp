// C16 harness: etl cmath (impl leg) vs glibc libm / libstdc++ (reference leg).
// Values travel as IEEE-754 bit patterns (decimal uint32 / uint64 tokens); every NaN is
// printed as the canonical quiet NaN.  All calls are run-time calls on values read from
// stdin (nothing can be constant-folded).  Out-of-range float->integer conversions inside
// the library (undefined behaviour) are observed with -fsanitize=float-cast-overflow in
// trap mode: the SIGILL is caught and the impl leg becomes the single token "ub".
#include "common.hpp"

#include <etl/cmath.hpp>
#include <etl/numeric.hpp>

#include <cfenv>
#include <climits>
#include <cmath>
#include <csignal>
#include <numeric>
#include <thread>

using namespace vh;

// ---------------------------------------------------------------------------------- UB trap
static thread_local sigjmp_buf g_ubjmp;
static thread_local volatile sig_atomic_t g_ubarmed = 0;
static void on_trap(int)
{
    if (g_ubarmed) { siglongjmp(g_ubjmp, 1); }
    std::_Exit(98);
}
static struct TrapInit {
    TrapInit()
    {
        struct sigaction sa;
        std::memset(&sa, 0, sizeof sa);
        sa.sa_handler = on_trap;
        sa.sa_flags   = SA_NODEFER;
        sigaction(SIGILL, &sa, nullptr);
        sigaction(SIGTRAP, &sa, nullptr);
    }
} g_trapinit;

template <typename F>
static void ubguard(Out& o, F&& f)
{
    g_ubarmed = 1;
    if (sigsetjmp(g_ubjmp, 0) == 0) {
        f(o);
    } else {
        o.s.clear();
        o.tok("ub");
    }
    g_ubarmed = 0;
}

// ---------------------------------------------------------------------------------- formats
template <typename T>
struct Fmt;
template <>
struct Fmt<float> {
    using U                   = std::uint32_t;
    static constexpr U qnan   = 0x7fc00000U;
    static constexpr int bits = 32;
};
template <>
struct Fmt<double> {
    using U                   = std::uint64_t;
    static constexpr U qnan   = 0x7ff8000000000000ULL;
    static constexpr int bits = 64;
};

template <typename T>
static T fromb(u64 u)
{
    typename Fmt<T>::U v = static_cast<typename Fmt<T>::U>(u);
    T x;
    std::memcpy(&x, &v, sizeof x);
    return x;
}
template <typename T>
static u64 tob(T x)
{
    if (x != x) { return Fmt<T>::qnan; }
    typename Fmt<T>::U v;
    std::memcpy(&v, &x, sizeof x);
    return v;
}
template <typename T>
static T launder(T x)
{
    volatile T v = x;
    return v;
}

template <typename T>
static void okf(Out& o, T x) { o.tok("ok").unum(tob(x)); }
static void oki(Out& o, long long x) { o.tok("ok").num(x); }
static void okb(Out& o, bool x) { o.tok("ok").b(x); }

// reference for lrint/llrint: only defined when the rounded value is representable
template <typename T>
static void ref_lrint(Out& o, T x)
{
    if (!(x == x) || std::isinf(x)) { return; }
    T r = std::nearbyint(x);
    // 2^63 is exactly representable in both formats
    if (r >= static_cast<T>(9223372036854775808.0) || r < static_cast<T>(-9223372036854775808.0)) { return; }
    oki(o, static_cast<long long>(r));
}
// reference for a truncating conversion used by the fall-back code paths
template <typename T>
static void ref_none(Out&, T) { }

// ---------------------------------------------------------------------------------- op tables
// unary T -> T
template <typename T>
struct U1 {
    char const* name;
    T (*impl)(T);
    T (*ref)(T);
};
template <typename T>
struct U1B {
    char const* name;
    bool (*impl)(T);
    bool (*ref)(T);
};
template <typename T>
struct U1I {
    char const* name;
    long long (*impl)(T);
    void (*ref)(Out&, T);
};
template <typename T>
struct B2 {
    char const* name;
    T (*impl)(T, T);
    T (*ref)(T, T);
};

namespace g = etl::detail::gcem;

template <typename T>
static U1<T> const* u1_table(std::size_t& n)
{
    static U1<T> const t[] = {
        // public API, run-time path
        {"floor", [](T x) -> T { return etl::floor(x); }, [](T x) -> T { return std::floor(x); }},
        {"ceil", [](T x) -> T { return etl::ceil(x); }, [](T x) -> T { return std::ceil(x); }},
        {"trunc", [](T x) -> T { return etl::trunc(x); }, [](T x) -> T { return std::trunc(x); }},
        {"round", [](T x) -> T { return etl::round(x); }, [](T x) -> T { return std::round(x); }},
        {"rint", [](T x) -> T { return etl::rint(x); }, [](T x) -> T { return std::rint(x); }},
        {"fabs", [](T x) -> T { return etl::fabs(x); }, [](T x) -> T { return std::fabs(x); }},
        {"abs", [](T x) -> T { return etl::abs(x); }, [](T x) -> T { return std::fabs(x); }},
        // library-written fall-back code (constant-evaluation / long double path), called directly
        {"g_floor", [](T x) -> T { return g::floor(x); }, [](T x) -> T { return std::floor(x); }},
        {"g_ceil", [](T x) -> T { return g::ceil(x); }, [](T x) -> T { return std::ceil(x); }},
        {"g_trunc", [](T x) -> T { return g::trunc(x); }, [](T x) -> T { return std::trunc(x); }},
        {"g_round", [](T x) -> T { return g::round(x); }, [](T x) -> T { return std::round(x); }},
        {"g_abs", [](T x) -> T { return g::abs(x); }, [](T x) -> T { return std::fabs(x); }},
        {"rint_fb", [](T x) -> T { return etl::detail::rint_fallback(x); }, [](T x) -> T { return std::rint(x); }},
    };
    n = sizeof t / sizeof t[0];
    return t;
}

template <typename T>
static U1B<T> const* u1b_table(std::size_t& n)
{
    static U1B<T> const t[] = {
        {"isnan", [](T x) -> bool { return etl::isnan(x); }, [](T x) -> bool { return std::isnan(x); }},
        {"isinf", [](T x) -> bool { return etl::isinf(x); }, [](T x) -> bool { return std::isinf(x); }},
        {"isfinite", [](T x) -> bool { return etl::isfinite(x); }, [](T x) -> bool { return std::isfinite(x); }},
        {"signbit", [](T x) -> bool { return etl::signbit(x); }, [](T x) -> bool { return std::signbit(x); }},
        {"signbit_fb", [](T x) -> bool { return etl::detail::signbit_fallback(x); },
            [](T x) -> bool { return std::signbit(x); }},
        {"g_is_nan", [](T x) -> bool { return g::internal::is_nan(x); }, [](T x) -> bool { return std::isnan(x); }},
        {"g_is_inf", [](T x) -> bool { return g::internal::is_inf(x); }, [](T x) -> bool { return std::isinf(x); }},
        {"g_is_finite", [](T x) -> bool { return g::internal::is_finite(x); },
            [](T x) -> bool { return std::isfinite(x); }},
    };
    n = sizeof t / sizeof t[0];
    return t;
}

template <typename T>
static U1I<T> const* u1i_table(std::size_t& n)
{
    static U1I<T> const t[] = {
        {"lrint", [](T x) -> long long { return etl::lrint(x); }, ref_lrint<T>},
        {"llrint", [](T x) -> long long { return etl::llrint(x); }, ref_lrint<T>},
        {"lrint_fb", [](T x) -> long long { return etl::detail::lrint_fallback<long>(x); }, ref_lrint<T>},
        {"llrint_fb", [](T x) -> long long { return etl::detail::lrint_fallback<long long>(x); }, ref_lrint<T>},
        {"g_sgn", [](T x) -> long long { return g::sgn(x); },
            [](Out& o, T x) { oki(o, x > 0 ? 1 : (x < 0 ? -1 : 0)); }},
    };
    n = sizeof t / sizeof t[0];
    return t;
}

// C leaves the choice between +0 and -0 open when both operands are zeros (F.10.9.2 footnote) and
// glibc/GCC are not consistent about it; the framework's reference picks the first operand there
template <typename T>
static T ref_fmin(T x, T y) { return (x == T(0) && y == T(0)) ? x : std::fmin(x, y); }
template <typename T>
static T ref_fmax(T x, T y) { return (x == T(0) && y == T(0)) ? x : std::fmax(x, y); }

template <typename T>
static B2<T> const* b2_table(std::size_t& n)
{
    static B2<T> const t[] = {
        {"fmod", [](T x, T y) -> T { return etl::fmod(x, y); }, [](T x, T y) -> T { return std::fmod(x, y); }},
        // glibc 2.36's remainder returns -0 for some positive x with a subnormal y (IEC 60559: a zero result has the
        // sign of x), etl inherits it through __builtin_remainder: the sign of a zero result of the RUN-TIME remainder
        // is not compared (op remainder_raw keeps it: witness of KF-C16-libm-remainder-zero-sign); the library-written
        // g_remainder is compared bit for bit
        {"remainder", [](T x, T y) -> T { T r = etl::remainder(x, y); return r == T(0) ? T(0) : r; },
            [](T x, T y) -> T { T r = std::remainder(x, y); return r == T(0) ? T(0) : r; }},
        {"remainder_raw", [](T x, T y) -> T { return etl::remainder(x, y); },
            [](T x, T y) -> T { return std::remainder(x, y); }},
        {"copysign", [](T x, T y) -> T { return etl::copysign(x, y); },
            [](T x, T y) -> T { return std::copysign(x, y); }},
        {"fmin", [](T x, T y) -> T { return etl::fmin(x, y); }, ref_fmin<T>},
        {"fmax", [](T x, T y) -> T { return etl::fmax(x, y); }, ref_fmax<T>},
        {"fdim", [](T x, T y) -> T { return etl::fdim(x, y); }, [](T x, T y) -> T { return std::fdim(x, y); }},
        {"nextafter", [](T x, T y) -> T { return etl::nextafter(x, y); },
            [](T x, T y) -> T { return std::nextafter(x, y); }},
        {"midpoint", [](T x, T y) -> T { return etl::midpoint(x, y); },
            [](T x, T y) -> T { return std::midpoint(x, y); }},
        // fall-back code called directly
        {"g_fmod", [](T x, T y) -> T { return g::fmod(x, y); }, [](T x, T y) -> T { return std::fmod(x, y); }},
        {"g_remainder", [](T x, T y) -> T { return g::remainder(x, y); },
            [](T x, T y) -> T { return std::remainder(x, y); }},
        {"copysign_fb", [](T x, T y) -> T { return etl::detail::copysign_fallback(x, y); },
            [](T x, T y) -> T { return std::copysign(x, y); }},
    };
    n = sizeof t / sizeof t[0];
    return t;
}

// ---------------------------------------------------------------------------------- sweeps
// "sweep<bits> <func> <start> <stride> <count>": compares impl and reference on the patterns
// start, start+stride, ... ; prints "ok <mismatches> <first mismatching pattern or ->".
// The range is split over VERIF_THREADS (default 8) threads.
static unsigned sweep_threads()
{
    char const* e = std::getenv("VERIF_THREADS");
    long n        = e != nullptr ? std::strtol(e, nullptr, 10) : 8;
    return static_cast<unsigned>(n < 1 ? 1 : (n > 64 ? 64 : n));
}

template <typename Body>
static void par_sweep(u64 start, u64 stride, u64 count, u64 mask, Body body, u64& bad, u64& first)
{
    unsigned const nt = sweep_threads();
    std::vector<u64> bads(nt, 0), firsts(nt, 0), idx(nt, ~0ULL);
    std::vector<std::thread> th;
    for (unsigned t = 0; t < nt; ++t) {
        u64 lo = count / nt * t + (t < count % nt ? t : count % nt);
        u64 hi = lo + count / nt + (t < count % nt ? 1 : 0);
        th.emplace_back([&, t, lo, hi] {
            u64 p = (start + lo * stride) & mask;
            for (u64 i = lo; i < hi; ++i, p = (p + stride) & mask) {
                bool mism;
                g_ubarmed = 1;
                if (sigsetjmp(g_ubjmp, 0) == 0) {
                    mism = body(p);
                } else {
                    mism = true;
                }
                g_ubarmed = 0;
                if (mism) {
                    if (bads[t] == 0) {
                        firsts[t] = p;
                        idx[t]    = i;
                    }
                    ++bads[t];
                }
            }
        });
    }
    for (auto& x : th) { x.join(); }
    bad          = 0;
    u64 best     = ~0ULL;
    for (unsigned t = 0; t < nt; ++t) {
        bad += bads[t];
        if (idx[t] < best) {
            best  = idx[t];
            first = firsts[t];
        }
    }
}

template <typename T>
static bool run_sweep(std::string const& fn, u64 start, u64 stride, u64 count, Out& impl, Out& ref)
{
    std::size_t n  = 0;
    u64 bad        = 0;
    u64 first      = 0;
    bool found     = false;
    u64 const mask = Fmt<T>::bits == 32 ? 0xffffffffULL : ~0ULL;
    {
        auto const* t = u1_table<T>(n);
        for (std::size_t k = 0; k < n && !found; ++k) {
            if (fn == t[k].name) {
                found = true;
                auto e = t[k];
                par_sweep(start, stride, count, mask, [e](u64 p) {
                    T x = fromb<T>(p);
                    return tob(e.impl(x)) != tob(e.ref(x));
                }, bad, first);
            }
        }
    }
    {
        auto const* t = u1b_table<T>(n);
        for (std::size_t k = 0; k < n && !found; ++k) {
            if (fn == t[k].name) {
                found = true;
                auto e = t[k];
                par_sweep(start, stride, count, mask, [e](u64 p) {
                    T x = fromb<T>(p);
                    return e.impl(x) != e.ref(x);
                }, bad, first);
            }
        }
    }
    {
        auto const* t = u1i_table<T>(n);
        for (std::size_t k = 0; k < n && !found; ++k) {
            if (fn == t[k].name) {
                found = true;
                auto e = t[k];
                par_sweep(start, stride, count, mask, [e](u64 p) {
                    T x = fromb<T>(p);
                    Out r;
                    e.ref(r, x);
                    if (r.empty()) { return false; }
                    Out o;
                    oki(o, e.impl(x));
                    return o.s != r.s;
                }, bad, first);
            }
        }
    }
    {
        // binary functions: the second operand is derived from the pattern by fixed mixing
        // functions so that the sweep visits unrelated, same-exponent, negated and neighbouring pairs
        auto const* t = b2_table<T>(n);
        for (std::size_t k = 0; k < n && !found; ++k) {
            if (fn == t[k].name) {
                found = true;
                auto e = t[k];
                par_sweep(start, stride, count, mask, [e, mask](u64 p) {
                    T x   = fromb<T>(p);
                    u64 q = (p * 0x9E3779B97F4A7C15ULL + (p >> 7)) & mask;
                    u64 alt[5];
                    alt[0] = q;                                           // unrelated
                    alt[1] = (p ^ (q & 0xffffULL)) & mask;                // same exponent, nearby significand
                    alt[2] = (p ^ (1ULL << (Fmt<T>::bits - 1)));          // negation
                    alt[3] = (p + (q % 5) - 2) & mask;                    // neighbours
                    alt[4] = (p - ((q % 40) << (Fmt<T>::bits == 32 ? 23 : 52))) & mask; // smaller exponent
                    bool mism = false;
                    if (x != x) { x = fromb<T>(Fmt<T>::qnan); } // signaling NaNs are outside Annex F
                    for (u64 a : alt) {
                        T y = fromb<T>(a);
                        if (y != y) { y = fromb<T>(Fmt<T>::qnan); }
                        if (tob(e.impl(x, y)) != tob(e.ref(x, y))) { mism = true; }
                    }
                    return mism;
                }, bad, first);
            }
        }
    }
    if (!found) { return false; }
    impl.tok("ok").unum(bad);
    if (bad != 0) { impl.unum(first); } else { impl.tok("-"); }
    ref.tok("ok").unum(0).tok("-");
    return true;
}

// ---------------------------------------------------------------------------------- cases
template <typename T>
static bool run_fmt(std::string const& fn, Toks& in, Out& impl, Out& ref)
{
    std::size_t n = 0;
    {
        auto const* t = u1_table<T>(n);
        for (std::size_t k = 0; k < n; ++k) {
            if (fn == t[k].name) {
                T x = launder(fromb<T>(in.unum()));
                ubguard(impl, [&](Out& o) { okf(o, t[k].impl(x)); });
                okf(ref, t[k].ref(x));
                return true;
            }
        }
    }
    {
        auto const* t = u1b_table<T>(n);
        for (std::size_t k = 0; k < n; ++k) {
            if (fn == t[k].name) {
                T x = launder(fromb<T>(in.unum()));
                ubguard(impl, [&](Out& o) { okb(o, t[k].impl(x)); });
                okb(ref, t[k].ref(x));
                return true;
            }
        }
    }
    {
        auto const* t = u1i_table<T>(n);
        for (std::size_t k = 0; k < n; ++k) {
            if (fn == t[k].name) {
                T x = launder(fromb<T>(in.unum()));
                ubguard(impl, [&](Out& o) { oki(o, t[k].impl(x)); });
                t[k].ref(ref, x);
                return true;
            }
        }
    }
    {
        auto const* t = b2_table<T>(n);
        for (std::size_t k = 0; k < n; ++k) {
            if (fn == t[k].name) {
                T x = launder(fromb<T>(in.unum()));
                T y = launder(fromb<T>(in.unum()));
                ubguard(impl, [&](Out& o) { okf(o, t[k].impl(x, y)); });
                okf(ref, t[k].ref(x, y));
                return true;
            }
        }
    }
    if (fn == "lerp") {
        T a = launder(fromb<T>(in.unum()));
        T b = launder(fromb<T>(in.unum()));
        T t = launder(fromb<T>(in.unum()));
        okf(impl, etl::lerp(a, b, t));
        okf(ref, std::lerp(a, b, t));
        return true;
    }
    if (fn == "hypot" || fn == "hypot3") {
        // only the documented special cases have an exact answer: the reference leg prints the
        // libm result when an operand is infinite or NaN, "na" otherwise (the finite case belongs
        // to the approximate set, see the "approx" op)
        T x = launder(fromb<T>(in.unum()));
        T y = launder(fromb<T>(in.unum()));
        T z = fn == "hypot3" ? launder(fromb<T>(in.unum())) : T(0);
        bool special = !(std::isfinite(x) && std::isfinite(y) && std::isfinite(z));
        T r          = fn == "hypot3" ? etl::hypot(x, y, z) : etl::hypot(x, y);
        if (special) {
            okf(impl, r);
            // (libstdc++ 12's three-argument std::hypot returns NaN for an infinite operand: the
            // reference composes glibc's two-argument hypot, which follows F.10.4.3)
            // (finite operands are replaced by 1 so that the composition cannot overflow on the way:
            // in a special case only the classes of the operands matter)
            auto cls = [](T v) -> T { return std::isfinite(v) ? T(1) : v; };
            okf(ref, fn == "hypot3" ? std::hypot(std::hypot(cls(x), cls(y)), cls(z)) : std::hypot(x, y));
        } else {
            impl.tok("ok").tok("finite");
        }
        return true;
    }
    return false;
}

// ---------------------------------------------------------------------------------- long double
// x87 extended values travel as three tokens "sign significand biased-exponent" (canonical
// encodings only); a NaN prints as the default quiet NaN "0 13835058055282163712 32767".
static long double from80(Toks& in)
{
    u64 s = in.unum();
    u64 m = in.unum();
    u64 e = in.unum();
    unsigned char b[16] = {};
    std::uint16_t se = static_cast<std::uint16_t>((s != 0 ? 0x8000U : 0U) | (e & 0x7fffU));
    std::memcpy(b, &m, 8);
    std::memcpy(b + 8, &se, 2);
    long double x;
    std::memcpy(&x, b, sizeof x);
    volatile long double v = x;
    return v;
}
static void ok80(Out& o, long double x)
{
    o.tok("ok");
    if (x != x) {
        o.unum(0).unum(0xC000000000000000ULL).unum(32767);
        return;
    }
    unsigned char b[16] = {};
    std::memcpy(b, &x, sizeof x);
    u64 m;
    std::uint16_t se;
    std::memcpy(&m, b, 8);
    std::memcpy(&se, b + 8, 2);
    o.unum((se >> 15) & 1U).unum(m).unum(se & 0x7fffU);
}
template <typename T>
static void ref_lrint80(Out& o, long double x)
{
    if (!(x == x) || std::isinf(x)) { return; }
    long double r = std::nearbyintl(x);
    if (r >= 9223372036854775808.0L || r < -9223372036854775808.0L) { return; }
    oki(o, static_cast<long long>(r));
}

static bool run80(std::string const& fn, Toks& in, Out& impl, Out& ref)
{
    using L = long double;
    struct U { char const* name; L (*impl)(L); L (*ref)(L); };
    static U const u1[] = {
        // every long double call of these runs the gcem kernel (no builtin path)
        {"floor", [](L x) -> L { return etl::floor(x); }, [](L x) -> L { return std::floor(x); }},
        {"ceil", [](L x) -> L { return etl::ceil(x); }, [](L x) -> L { return std::ceil(x); }},
        {"trunc", [](L x) -> L { return etl::trunc(x); }, [](L x) -> L { return std::trunc(x); }},
        {"round", [](L x) -> L { return etl::round(x); }, [](L x) -> L { return std::round(x); }},
        {"rint", [](L x) -> L { return etl::rint(x); }, [](L x) -> L { return std::rint(x); }},
        {"rint_fb", [](L x) -> L { return etl::detail::rint_fallback(x); }, [](L x) -> L { return std::rint(x); }},
        {"fabs", [](L x) -> L { return etl::fabs(x); }, [](L x) -> L { return std::fabs(x); }},
        {"abs", [](L x) -> L { return etl::abs(x); }, [](L x) -> L { return std::fabs(x); }},
        {"g_abs", [](L x) -> L { return g::abs(x); }, [](L x) -> L { return std::fabs(x); }},
    };
    for (auto const& e : u1) {
        if (fn == e.name) {
            L x = from80(in);
            ubguard(impl, [&](Out& o) { ok80(o, e.impl(x)); });
            ok80(ref, e.ref(x));
            return true;
        }
    }
    struct UB { char const* name; bool (*impl)(L); bool (*ref)(L); };
    static UB const ub[] = {
        {"isnan", [](L x) -> bool { return etl::isnan(x); }, [](L x) -> bool { return std::isnan(x); }},
        {"isinf", [](L x) -> bool { return etl::isinf(x); }, [](L x) -> bool { return std::isinf(x); }},
        {"isfinite", [](L x) -> bool { return etl::isfinite(x); }, [](L x) -> bool { return std::isfinite(x); }},
        {"signbit", [](L x) -> bool { return etl::signbit(x); }, [](L x) -> bool { return std::signbit(x); }},
        {"g_is_nan", [](L x) -> bool { return g::internal::is_nan(x); }, [](L x) -> bool { return std::isnan(x); }},
        {"g_is_inf", [](L x) -> bool { return g::internal::is_inf(x); }, [](L x) -> bool { return std::isinf(x); }},
        {"g_is_finite", [](L x) -> bool { return g::internal::is_finite(x); }, [](L x) -> bool { return std::isfinite(x); }},
    };
    for (auto const& e : ub) {
        if (fn == e.name) {
            L x = from80(in);
            ubguard(impl, [&](Out& o) { okb(o, e.impl(x)); });
            okb(ref, e.ref(x));
            return true;
        }
    }
    struct UI { char const* name; long long (*impl)(L); };
    static UI const ui[] = {
        {"lrint", [](L x) -> long long { return etl::lrint(x); }},
        {"llrint", [](L x) -> long long { return etl::llrint(x); }},
        {"lrint_fb", [](L x) -> long long { return etl::detail::lrint_fallback<long>(x); }},
        {"llrint_fb", [](L x) -> long long { return etl::detail::lrint_fallback<long long>(x); }},
    };
    for (auto const& e : ui) {
        if (fn == e.name) {
            L x = from80(in);
            ubguard(impl, [&](Out& o) { oki(o, e.impl(x)); });
            ref_lrint80<L>(ref, x);
            return true;
        }
    }
    if (fn == "g_sgn") {
        L x = from80(in);
        oki(impl, g::sgn(x));
        oki(ref, x > 0 ? 1 : (x < 0 ? -1 : 0));
        return true;
    }
    struct B { char const* name; L (*impl)(L, L); L (*ref)(L, L); };
    static B const b2[] = {
        {"copysign", [](L x, L y) -> L { return etl::copysign(x, y); }, [](L x, L y) -> L { return std::copysign(x, y); }},
        {"fmin", [](L x, L y) -> L { return etl::fmin(x, y); }, ref_fmin<L>},
        {"fmax", [](L x, L y) -> L { return etl::fmax(x, y); }, ref_fmax<L>},
        {"fdim", [](L x, L y) -> L { return etl::fdim(x, y); }, [](L x, L y) -> L { return std::fdim(x, y); }},
        {"fmod", [](L x, L y) -> L { return etl::fmod(x, y); }, [](L x, L y) -> L { return std::fmod(x, y); }},
        {"remainder", [](L x, L y) -> L { L r = etl::remainder(x, y); return r == 0.0L ? 0.0L : r; },
            [](L x, L y) -> L { L r = std::remainder(x, y); return r == 0.0L ? 0.0L : r; }},
        {"midpoint", [](L x, L y) -> L { return etl::midpoint(x, y); }, [](L x, L y) -> L { return std::midpoint(x, y); }},
    };
    for (auto const& e : b2) {
        if (fn == e.name) {
            L x = from80(in);
            L y = from80(in);
            ubguard(impl, [&](Out& o) { ok80(o, e.impl(x, y)); });
            ok80(ref, e.ref(x, y));
            return true;
        }
    }
    return false;
}

bool vh::run_case(std::string const& op, Toks& in, Out& impl, Out& ref)
{
    // op = <func><32|64>  or  sweep<32|64>
    if (op.size() < 3) { return false; }
    std::string fn  = op.substr(0, op.size() - 2);
    std::string fmt = op.substr(op.size() - 2);
    if (fmt == "80") { return run80(fn, in, impl, ref); }
    if (fmt != "32" && fmt != "64") { return false; }
    if (fn == "sweep" || fn == "sweepkf") {
        std::string f = in.str();
        u64 start     = in.unum();
        u64 stride    = in.unum();
        u64 count     = in.unum();
        return fmt == "32" ? run_sweep<float>(f, start, stride, count, impl, ref)
                           : run_sweep<double>(f, start, stride, count, impl, ref);
    }
    return fmt == "32" ? run_fmt<float>(fn, in, impl, ref) : run_fmt<double>(fn, in, impl, ref);
}

VERIF_MAIN()
