"""C16 — cmath: case generators and configuration.

Values are IEEE-754 bit patterns (binary32 -> ops ending in 32, binary64 -> ops ending in 64).
Three kinds of cases:
  * single evaluations through all four legs (etl | libm || extracted Coq model | Coq spec) on a
    boundary table x seeded random values,
  * sweep ops: the harness itself compares etl with libm over <count> patterns and reports the
    number of mismatches (expected "ok 0 -"); quick = 2^24 patterns per function, thorough = all
    2^32 binary32 patterns for the unary functions,
  * the approximate set (sqrt, exp, log..., not decided by proof) is only MEASURED against libm
    in extra_checks() and compared with the bounds recorded in APPROX_BOUNDS.
"""
import glob
import os
import struct
import subprocess

ID = "C16"
LEVEL = "proof"
HFLAGS = ["-O1", "-pthread", "-fsanitize=float-cast-overflow", "-fsanitize-undefined-trap-on-error",
          "-DTETL_ENABLE_CONTRACT_CHECKS=1"]
HARNESSES = [{"name": "main", "src": "harness.cpp", "flags": HFLAGS}]

RULE = ("cases = known-finding witnesses + boundary table (all exponents x {0,1,2,half,half+-1,all-ones} "
        "significands, +-0, subnormals, +-inf, NaN, k, k+-0.5 and neighbours for |k|<=40, 2^j and neighbours "
        "around every case split: epsilon, 1/epsilon, 2^31, 2^63, 2^64, max) x seeded random patterns for every "
        "unary op; binary ops on a boundary grid x random plus related pairs (equal, negated, neighbours, "
        "multiples); sweep ops count etl-vs-libm mismatches over 2^24 (quick) / 2^32 (thorough) patterns; "
        "non-trivial = distinct case whose impl leg is ok and (for value ops) not a NaN result")

TRUSTED_BASE = ["reference leg: glibc 2.36 libm (floor..nextafter, fmod, remainder, lrint) and libstdc++ 12 "
                "(std::lerp, std::midpoint) on the same bit patterns, called on run-time values",
                "Flocq 4.1.0 (IEEE754.BinarySingleNaN, Bits) as the definition of IEEE-754 arithmetic",
                "undefined float->integer conversions are observed through -fsanitize=float-cast-overflow traps"]
ASSUMPTIONS = ["x86-64 SSE2 arithmetic (FLT_EVAL_METHOD 0), default rounding mode (to nearest even)",
               "LP64: long and long long are 64 bits", "all NaNs are identified (payload and sign of a NaN are not observed)"]

UNARY_F = ["floor", "ceil", "trunc", "round", "rint", "fabs", "abs",
           "g_floor", "g_ceil", "g_trunc", "g_round", "g_abs", "rint_fb"]
UNARY_B = ["isnan", "isinf", "isfinite", "signbit", "signbit_fb", "g_is_nan", "g_is_inf", "g_is_finite"]
UNARY_I = ["lrint", "llrint", "lrint_fb", "llrint_fb", "g_sgn"]
BINARY = ["fmod", "remainder", "copysign", "fmin", "fmax", "fdim", "nextafter", "midpoint",
          "g_fmod", "g_remainder", "copysign_fb"]
# functions whose etl-vs-libm sweep must show zero mismatches
SWEEP_UNARY = ["floor", "ceil", "trunc", "round", "rint", "fabs", "abs", "g_floor", "g_ceil", "g_trunc",
               "g_round", "g_abs", "rint_fb", "isnan", "isinf", "isfinite", "signbit", "signbit_fb",
               "g_is_nan", "g_is_inf", "g_is_finite", "lrint", "llrint", "lrint_fb", "llrint_fb", "g_sgn"]
SWEEP_BINARY = ["fmod", "remainder", "copysign", "copysign_fb", "fmin", "fmax", "fdim", "nextafter", "midpoint"]


class Fmt:
    def __init__(self, mw, ew, tag, pack, unpack):
        self.mw, self.ew, self.tag = mw, ew, tag
        self.W = mw + ew + 1
        self.bias = 2 ** (ew - 1) - 1
        self.S = 1 << (self.W - 1)
        self.mask = (1 << self.W) - 1
        self.inf = ((1 << ew) - 1) << mw
        self.qnan = self.inf | (1 << (mw - 1))
        self.pack, self.unpack = pack, unpack

    def of_float(self, x):
        """bit pattern of the Python float x if it is exactly representable, else None"""
        try:
            b = struct.unpack(self.unpack, struct.pack(self.pack, x))[0]
        except OverflowError:
            return None
        back = struct.unpack(self.pack, struct.pack(self.unpack, b))[0]
        return b if back == x else None

    def nearest(self, x):
        try:
            return struct.unpack(self.unpack, struct.pack(self.pack, x))[0]
        except OverflowError:
            return self.inf if x > 0 else self.inf | self.S

    def exps(self, quick):
        n = 1 << self.ew
        if n <= 256:
            return list(range(n))
        near = set(range(self.bias - 70, self.bias + 71)) | {0, 1, 2, 3, n - 1, n - 2, n - 3}
        near |= set(range(0, n, 29 if quick else 3))
        near |= {self.bias - 1022, self.bias + 1023, self.bias - self.mw, self.bias + self.mw}
        return sorted(e for e in near if 0 <= e < n)


F32 = Fmt(23, 8, "32", "<f", "<I")
F64 = Fmt(52, 11, "64", "<d", "<Q")


def boundary(f, rng, quick):
    mw = f.mw
    vals = set()
    mants = [0, 1, 2, (1 << mw) - 1, (1 << mw) - 2, 1 << (mw - 1), (1 << (mw - 1)) + 1, (1 << (mw - 1)) - 1]
    core = [0, 1, (1 << mw) - 1, 1 << (mw - 1)]
    n = 1 << f.ew
    hot = set(range(f.bias - mw - 3, f.bias + mw + 4)) | {0, 1, n - 2, n - 1, f.bias + 62, f.bias + 63, f.bias + 64}
    for e in f.exps(quick):
        for m in (mants if (e in hot or not quick) else core) + [rng.getrandbits(mw)]:
            vals.add((e << mw) | m)
    # small integers, halves, quarters and their neighbours
    for k in range(-40, 41):
        for d in (0.0, 0.5, 0.25, 0.75):
            b = f.of_float(k + d)
            if b is not None:
                vals.update({b, (b + 1) & f.mask, (b - 1) & f.mask})
    # powers of two around every case split of the code and of the proofs
    js = list(range(-mw - 3, -mw + 3)) + list(range(-3, 4)) + list(range(mw - 3, mw + 4)) + \
        [30, 31, 32, 33, 52, 53, 54, 62, 63, 64, 65, 66, 100, 126, 127]
    for j in js:
        for d in (0.0, 0.5, -0.5, 1.0, -1.0, 1.5):
            try:
                x = 2.0 ** j + d
            except OverflowError:
                continue
            b = f.of_float(x)
            if b is not None:
                vals.update({b, (b + 1) & f.mask, (b - 1) & f.mask, (b + 2) & f.mask})
    # ties just below 2^mw: every representable k + 0.5 in a window
    base = 2.0 ** (mw - 1)
    for k in range(-6, 7):
        b = f.of_float(base + k + 0.5)
        if b is not None:
            vals.add(b)
        b = f.of_float(base / 2 + k + 0.25)
        if b is not None:
            vals.add(b)
    for _ in range(300 if quick else 6000):
        vals.add(rng.getrandbits(f.W - 1))
    # restrict to canonical values: finite, infinity, the quiet NaN; then add both signs
    out = set()
    for v in vals:
        v &= f.S - 1
        if v > f.inf:
            v = f.qnan
        out.add(v)
        if v != f.qnan:
            out.add(v | f.S)
    return sorted(out)


def small_grid(f, rng, n_rand):
    """operands for the binary functions"""
    mw = f.mw
    one = f.bias << mw
    g = [0, 1, 2, (1 << mw) - 1, 1 << mw, (1 << mw) + 1, f.inf - 1, f.inf, f.qnan,
         one, one + 1, one - 1, one + (1 << (mw - 1)), (f.bias + 1) << mw, ((f.bias + 1) << mw) + (1 << (mw - 1)),
         ((f.bias + 2) << mw) + (1 << (mw - 2)), (f.bias - 1) << mw, (f.bias + mw) << mw, (f.bias + mw + 1) << mw,
         ((f.bias + 62) << mw) | ((1 << mw) - 1), (f.bias + 63) << mw, (f.bias + 64) << mw, (f.bias - 30) << mw,
         f.inf - (1 << mw), f.inf - (1 << mw) - 1]
    for x in (3.0, 5.0, 7.0, 10.0, 0.1, 1e10, 1e-10, 2.5, 1.5, 6.0, 0.3, 1e30, 100.0):
        g.append(f.nearest(x))
    for _ in range(n_rand):
        g.append(rng.getrandbits(f.W - 1))
    out = []
    for v in g:
        v &= f.S - 1
        if v > f.inf:
            v = f.qnan
        out.append(v)
        if v != f.qnan:
            out.append(v | f.S)
    return sorted(set(out))


def related_pairs(f, rng, n):
    """pairs with related operands: equal, negated, neighbours, small multiples, close exponents"""
    out = []
    for _ in range(n):
        x = rng.getrandbits(f.W - 1)
        if x >= f.inf:
            x = f.inf - 1 - rng.getrandbits(f.mw)
        sx = rng.getrandbits(1) * f.S
        kind = rng.randrange(6)
        if kind == 0:
            y = x
        elif kind == 1:
            y = x + rng.choice([-2, -1, 1, 2])
        elif kind == 2:
            y = x ^ rng.getrandbits(f.mw // 2)
        elif kind == 3:
            e = rng.randrange(-40, 41) << f.mw
            y = x + e
        elif kind == 4:
            y = rng.getrandbits(f.mw) | (((x >> f.mw) + rng.randrange(-3, 4)) << f.mw)
        else:
            y = rng.getrandbits(f.W - 1)
        y = max(0, min(y, f.inf))
        sy = rng.getrandbits(1) * f.S
        out.append((x | sx, y | sy))
    return out


def gen(tier, rng):
    out = []
    quick = tier == "quick"
    search = tier == "search"
    for f in (F32, F64):
        t = f.tag
        bnd = boundary(f, rng, quick or search)
        if quick or search:
            # the unary table is big: every op sees the core of it, and a rotating random share
            pass
        for fn in UNARY_F + UNARY_B + UNARY_I:
            for v in bnd:
                out.append(f"{fn}{t} {v}")
        grid = small_grid(f, rng, 4 if (quick or search) else 40)
        pairs = [(x, y) for x in grid for y in grid]
        pairs += related_pairs(f, rng, 400 if (quick or search) else 20000)
        for fn in BINARY:
            for (x, y) in pairs:
                out.append(f"{fn}{t} {x} {y}")
        # lerp: boundary t (0, 1, in between, outside), operands of equal / opposite sign, a == b
        tv = [0, f.S, f.bias << f.mw, (f.bias << f.mw) | f.S, (f.bias - 1) << f.mw, (f.bias + 1) << f.mw,
              (f.bias << f.mw) + 1, (f.bias << f.mw) - 1, f.nearest(0.3), f.nearest(-0.7), f.nearest(1.5), 1, f.inf - 1]
        ab = [0, f.S, 1, f.bias << f.mw, (f.bias << f.mw) | f.S, f.nearest(20.0), f.nearest(-10.0), f.nearest(1e30),
              f.inf - 1, (f.inf - 1) | f.S, f.nearest(1e-30), f.nearest(0.1), f.nearest(3.0)]
        ab += [rng.getrandbits(f.W - 1) % f.inf | (rng.getrandbits(1) * f.S) for _ in range(6 if quick else 40)]
        for a in ab:
            for b in ab:
                for tt in tv + [rng.getrandbits(f.W - 1) % f.inf for _ in range(2)]:
                    out.append(f"lerp{t} {a} {b} {tt}")
        sp = [0, f.S, f.inf, f.inf | f.S, f.qnan, f.bias << f.mw, f.nearest(3.0), f.nearest(-4.0), f.inf - 1, 1]
        for x in sp:
            for y in sp:
                out.append(f"hypot{t} {x} {y}")
                for z in sp:
                    out.append(f"hypot3{t} {x} {y} {z}")
    # ---- sweeps (etl vs libm inside the harness)
    if quick or search:
        cnt32 = 1 << 24
        for fn in SWEEP_UNARY:
            out.append(f"sweep32 {fn} {rng.randrange(256)} 257 {cnt32}")
            out.append(f"sweep64 {fn} {rng.getrandbits(40)} {(1 << 40) + 2 * rng.getrandbits(20) + 1} {1 << 22}")
        for fn in SWEEP_BINARY:
            out.append(f"sweep32 {fn} {rng.randrange(1024)} 1031 {1 << 22}")
            out.append(f"sweep64 {fn} {rng.getrandbits(42)} {(1 << 42) + 2 * rng.getrandbits(20) + 1} {1 << 21}")
    else:
        for fn in SWEEP_UNARY:
            for k in range(16):
                out.append(f"sweep32 {fn} {k << 28} 1 {1 << 28}")
            out.append(f"sweep64 {fn} {rng.getrandbits(36)} {(1 << 36) + 2 * rng.getrandbits(20) + 1} {1 << 28}")
        for fn in SWEEP_BINARY:
            out.append(f"sweep32 {fn} {rng.randrange(16)} 17 {1 << 28}")
            out.append(f"sweep64 {fn} {rng.getrandbits(38)} {(1 << 38) + 2 * rng.getrandbits(20) + 1} {1 << 26}")
    return out


def nontrivial(case, impl):
    if not impl.startswith("ok"):
        return False
    op = case.split(" ", 1)[0]
    if op.startswith("sweep"):
        return True
    toks = impl.split()
    return not (len(toks) == 2 and toks[1] in ("2143289344", "9221120237041090560"))
