"""C16 — cmath: case generators and configuration.

Values are IEEE-754 bit patterns (binary32 -> ops ending in 32, binary64 -> ops ending in 64).
Three kinds of cases:
  * single evaluations through all four legs (etl | libm || extracted Coq model | Coq spec) on a
    boundary table x seeded random values,
  * sweep ops: the harness itself compares etl with libm over <count> patterns and reports the
    number of mismatches (expected "ok 0 -"); quick = 2^24 patterns per function, thorough = all
    2^32 binary32 patterns for the unary functions,
  * the approximate set (sqrt, exp, log..., not decided by proof) is only MEASURED against libm
    in extra_checks() and compared with the bounds recorded in APPROX_BOUNDS.
"""
import json
import os
import struct
import subprocess

ID = "C16"
LEVEL = "proof"
HFLAGS = ["-O1", "-pthread", "-fsanitize=float-cast-overflow", "-fsanitize-undefined-trap-on-error",
          "-DTETL_ENABLE_CONTRACT_CHECKS=1"]
# second build with clang (thorough tier): etl::signbit takes the library-written fallback there and several
# __has_builtin branches differ (TETL_COMPILER_CLANG)
HARNESSES = [{"name": "main", "src": "harness.cpp", "flags": HFLAGS},
             {"name": "clang", "src": "harness.cpp", "flags": HFLAGS, "compiler": "clang++-14", "thorough_only": True}]

RULE = ("cases = known-finding witnesses + boundary table (all exponents x {0,1,2,half,half+-1,all-ones} "
        "significands, +-0, subnormals, +-inf, NaN, k, k+-0.5 and neighbours for |k|<=40, 2^j and neighbours "
        "around every case split: epsilon, 1/epsilon, 2^31, 2^63, 2^64, max) x seeded random patterns for every "
        "unary op; binary ops on a boundary grid x random plus related pairs (equal, negated, neighbours, "
        "multiples); sweep ops count etl-vs-libm mismatches over 2^24 (quick) / 2^32 (thorough) patterns; "
        "review round: raw-pattern cases of fabs / abs / copysign / signbit incl. NaNs of both signs, rint / lrint / llrint in the "
        "four rounding directions, suffixed (f / l) and integral overloads on small tables; "
        "non-trivial = distinct case whose impl leg is ok and (for value ops) not a NaN result")

TRUSTED_BASE = ["reference leg: glibc 2.36 libm (floor..nextafter, fmod, remainder, lrint) and libstdc++ 12 "
                "(std::lerp, std::midpoint) on the same bit patterns, called on run-time values",
                "Flocq 4.1.0 (IEEE754.BinarySingleNaN, Bits) as the definition of IEEE-754 arithmetic",
                "undefined float->integer conversions are observed through -fsanitize=float-cast-overflow traps"]
ASSUMPTIONS = ["x86-64 SSE2 arithmetic (FLT_EVAL_METHOD 0), default rounding mode (to nearest even)",
               "LP64: long and long long are 64 bits",
               "all NaNs are identified (payload and sign of a NaN are not observed) except in the raw* ops and the fabs / abs / "
               "copysign sweeps, which compare raw bit patterns",
               "rm_* ops: fesetround + glibc rint / lrint / llrint (called through function pointers) define the reference under "
               "FE_DOWNWARD / FE_UPWARD / FE_TOWARDZERO; rint: non-negative binary32 / binary64 arguments, sign of a zero result dropped "
               "(GCC's inline expansion of __builtin_rint without -frounding-math)"]

UNARY_F = ["floor", "ceil", "trunc", "round", "rint", "fabs", "abs",
           "g_floor", "g_ceil", "g_trunc", "g_round", "g_abs", "rint_fb"]
UNARY_B = ["isnan", "isinf", "isfinite", "signbit", "signbit_fb", "g_is_nan", "g_is_inf", "g_is_finite"]
UNARY_I = ["lrint", "llrint", "lrint_fb", "llrint_fb", "g_sgn"]
BINARY = ["fmod", "remainder", "copysign", "fmin", "fmax", "fdim", "nextafter", "midpoint",
          "g_fmod", "g_remainder", "copysign_fb"]
# functions whose etl-vs-libm sweep must show zero mismatches
SWEEP_UNARY = ["floor", "ceil", "trunc", "round", "rint", "fabs", "abs", "g_floor", "g_ceil", "g_trunc",
               "g_round", "g_abs", "rint_fb", "isnan", "isinf", "isfinite", "signbit", "signbit_fb",
               "g_is_nan", "g_is_inf", "g_is_finite", "lrint", "llrint", "lrint_fb", "llrint_fb", "g_sgn"]
SWEEP_BINARY = ["fmod", "remainder", "copysign", "copysign_fb", "fmin", "fmax", "fdim", "nextafter", "midpoint"]


class Fmt:
    def __init__(self, mw, ew, tag, pack, unpack):
        self.mw, self.ew, self.tag = mw, ew, tag
        self.W = mw + ew + 1
        self.bias = 2 ** (ew - 1) - 1
        self.S = 1 << (self.W - 1)
        self.mask = (1 << self.W) - 1
        self.inf = ((1 << ew) - 1) << mw
        self.qnan = self.inf | (1 << (mw - 1))
        self.pack, self.unpack = pack, unpack

    def of_float(self, x):
        """bit pattern of the Python float x if it is exactly representable, else None"""
        try:
            b = struct.unpack(self.unpack, struct.pack(self.pack, x))[0]
        except OverflowError:
            return None
        back = struct.unpack(self.pack, struct.pack(self.unpack, b))[0]
        return b if back == x else None

    def nearest(self, x):
        try:
            return struct.unpack(self.unpack, struct.pack(self.pack, x))[0]
        except OverflowError:
            return self.inf if x > 0 else self.inf | self.S

    def exps(self, quick):
        n = 1 << self.ew
        if n <= 256:
            return list(range(n))
        near = set(range(self.bias - 70, self.bias + 71)) | {0, 1, 2, 3, n - 1, n - 2, n - 3}
        near |= set(range(0, n, 29 if quick else 3))
        near |= {self.bias - 1022, self.bias + 1023, self.bias - self.mw, self.bias + self.mw}
        return sorted(e for e in near if 0 <= e < n)


F32 = Fmt(23, 8, "32", "<f", "<I")
F64 = Fmt(52, 11, "64", "<d", "<Q")


def boundary(f, rng, quick):
    mw = f.mw
    vals = set()
    mants = [0, 1, 2, (1 << mw) - 1, (1 << mw) - 2, 1 << (mw - 1), (1 << (mw - 1)) + 1, (1 << (mw - 1)) - 1]
    core = [0, 1, (1 << mw) - 1, 1 << (mw - 1)]
    n = 1 << f.ew
    hot = set(range(f.bias - mw - 3, f.bias + mw + 4)) | {0, 1, n - 2, n - 1, f.bias + 62, f.bias + 63, f.bias + 64}
    for e in f.exps(quick):
        for m in (mants if (e in hot or not quick) else core) + [rng.getrandbits(mw)]:
            vals.add((e << mw) | m)
    # small integers, halves, quarters and their neighbours
    for k in range(-40, 41):
        for d in (0.0, 0.5, 0.25, 0.75):
            b = f.of_float(k + d)
            if b is not None:
                vals.update({b, (b + 1) & f.mask, (b - 1) & f.mask})
    # powers of two around every case split of the code and of the proofs
    js = list(range(-mw - 3, -mw + 3)) + list(range(-3, 4)) + list(range(mw - 3, mw + 4)) + \
        [30, 31, 32, 33, 52, 53, 54, 62, 63, 64, 65, 66, 100, 126, 127]
    for j in js:
        for d in (0.0, 0.5, -0.5, 1.0, -1.0, 1.5):
            try:
                x = 2.0 ** j + d
            except OverflowError:
                continue
            b = f.of_float(x)
            if b is not None:
                vals.update({b, (b + 1) & f.mask, (b - 1) & f.mask, (b + 2) & f.mask})
    # ties just below 2^mw: every representable k + 0.5 in a window
    base = 2.0 ** (mw - 1)
    for k in range(-6, 7):
        b = f.of_float(base + k + 0.5)
        if b is not None:
            vals.add(b)
        b = f.of_float(base / 2 + k + 0.25)
        if b is not None:
            vals.add(b)
    for _ in range(300 if quick else 6000):
        vals.add(rng.getrandbits(f.W - 1))
    # restrict to canonical values: finite, infinity, the quiet NaN; then add both signs
    out = set()
    for v in vals:
        v &= f.S - 1
        if v > f.inf:
            v = f.qnan
        out.add(v)
        if v != f.qnan:
            out.add(v | f.S)
    return sorted(out)


def small_grid(f, rng, n_rand):
    """operands for the binary functions"""
    mw = f.mw
    one = f.bias << mw
    g = [0, 1, 2, (1 << mw) - 1, 1 << mw, (1 << mw) + 1, f.inf - 1, f.inf, f.qnan,
         one, one + 1, one - 1, one + (1 << (mw - 1)), (f.bias + 1) << mw, ((f.bias + 1) << mw) + (1 << (mw - 1)),
         ((f.bias + 2) << mw) + (1 << (mw - 2)), (f.bias - 1) << mw, (f.bias + mw) << mw, (f.bias + mw + 1) << mw,
         ((f.bias + 62) << mw) | ((1 << mw) - 1), (f.bias + 63) << mw, (f.bias + 64) << mw, (f.bias - 30) << mw,
         f.inf - (1 << mw), f.inf - (1 << mw) - 1]
    for x in (3.0, 5.0, 7.0, 10.0, 0.1, 1e10, 1e-10, 2.5, 1.5, 6.0, 0.3, 1e30, 100.0):
        g.append(f.nearest(x))
    for _ in range(n_rand):
        g.append(rng.getrandbits(f.W - 1))
    out = []
    for v in g:
        v &= f.S - 1
        if v > f.inf:
            v = f.qnan
        out.append(v)
        if v != f.qnan:
            out.append(v | f.S)
    return sorted(set(out))


def related_pairs(f, rng, n):
    """pairs with related operands: equal, negated, neighbours, small multiples, close exponents"""
    out = []
    for _ in range(n):
        x = rng.getrandbits(f.W - 1)
        if x >= f.inf:
            x = f.inf - 1 - rng.getrandbits(f.mw)
        sx = rng.getrandbits(1) * f.S
        kind = rng.randrange(6)
        if kind == 0:
            y = x
        elif kind == 1:
            y = x + rng.choice([-2, -1, 1, 2])
        elif kind == 2:
            y = x ^ rng.getrandbits(f.mw // 2)
        elif kind == 3:
            e = rng.randrange(-40, 41) << f.mw
            y = x + e
        elif kind == 4:
            y = rng.getrandbits(f.mw) | (((x >> f.mw) + rng.randrange(-3, 4)) << f.mw)
        else:
            y = rng.getrandbits(f.W - 1)
        y = max(0, min(y, f.inf))
        sy = rng.getrandbits(1) * f.S
        out.append((x | sx, y | sy))
    return out


# ---------------------------------------------------------------------------------------------
# x87 extended (long double): values are triples (sign, 64-bit significand, 15-bit biased exponent)
# ---------------------------------------------------------------------------------------------
UNARY80 = ["floor", "ceil", "trunc", "round", "rint", "rint_fb", "fabs", "abs", "g_abs",
           "isnan", "isinf", "isfinite", "signbit", "g_is_nan", "g_is_inf", "g_is_finite",
           "lrint", "llrint", "lrint_fb", "llrint_fb", "g_sgn"]
BINARY80 = ["copysign", "fmin", "fmax", "fdim", "fmod", "remainder", "midpoint"]
X87_BIAS = 16383
X87_INF = (0, 1 << 63, 32767)
X87_NAN = (0, (1 << 63) | (1 << 62), 32767)


def x87_of_fraction(q):
    """canonical encoding of the rational q if it is exactly representable, else None"""
    from fractions import Fraction
    q = Fraction(q)
    if q == 0:
        return (0, 0, 0)
    s = 1 if q < 0 else 0
    q = abs(q)
    e2 = q.numerator.bit_length() - q.denominator.bit_length() - 63
    two = Fraction(2)
    while q / two ** e2 >= 1 << 64:
        e2 += 1
    while q / two ** e2 < 1 << 63:
        e2 -= 1
    E = e2 + X87_BIAS + 63
    if E >= 32767:
        return None
    if E <= 0:
        m = q / two ** (-16445)
        return (s, int(m), 0) if m.denominator == 1 else None
    m = q / two ** e2
    return (s, int(m), E) if m.denominator == 1 else None


def x87_neighbours(v):
    s, m, e = v
    out = []
    if e == 0:
        for d in (-1, 1):
            if 0 <= m + d < (1 << 63):
                out.append((s, m + d, 0))
    elif e < 32767:
        for d in (-1, 1, 2):
            if (1 << 63) <= m + d < (1 << 64):
                out.append((s, m + d, e))
    return out


def boundary80(rng, quick):
    from fractions import Fraction
    vals = set()
    top = 1 << 63
    mants = [top, top + 1, top + 2, top | (1 << 62), (top | (1 << 62)) + 1, (top | (1 << 62)) - 1, (1 << 64) - 1, (1 << 64) - 2]
    exps = set(range(X87_BIAS - 68, X87_BIAS + 70)) | {1, 2, 3, 32766, 32765, X87_BIAS + 100, X87_BIAS - 100, X87_BIAS + 1000}
    exps |= set(range(1, 32767, 977 if quick else 61))
    for e in sorted(exps):
        for m in mants + [top | rng.getrandbits(63)]:
            vals.add((0, m, e))
    for m in [1, 2, 3, 1 << 62, top - 1, top - 2, rng.getrandbits(63) % top or 1]:
        vals.add((0, m, 0))
    for k in range(-40, 41):
        for d in (Fraction(0), Fraction(1, 2), Fraction(1, 4), Fraction(3, 4)):
            v = x87_of_fraction(k + d)
            if v is not None:
                vals.add(v)
                vals.update(x87_neighbours(v))
    for j in [-70, -64, -63, -1, 0, 1, 23, 24, 31, 32, 52, 53, 61, 62, 63, 64, 65, 66, 100]:
        for d in (Fraction(0), Fraction(1, 2), Fraction(-1, 2), Fraction(1), Fraction(-1), Fraction(3, 2)):
            v = x87_of_fraction(Fraction(2) ** j + d)
            if v is not None:
                vals.add(v)
                vals.update(x87_neighbours(v))
    for k in range(-6, 7):
        for base, d in ((Fraction(2) ** 62, Fraction(1, 2)), (Fraction(2) ** 61, Fraction(1, 4)), (Fraction(2) ** 63, Fraction(0))):
            v = x87_of_fraction(base + k + d)
            if v is not None:
                vals.add(v)
    for _ in range(100 if quick else 3000):
        vals.add((0, top | rng.getrandbits(63), rng.randrange(1, 32767)))
    out = set()
    for (s, m, e) in vals:
        out.add((0, m, e))
        out.add((1, m, e))
    out |= {X87_INF, (1,) + X87_INF[1:], X87_NAN}
    return sorted(out)


def grid80(rng, n_rand):
    from fractions import Fraction
    g = [(0, 0, 0), (0, 1, 0), (0, (1 << 63) - 1, 0), (0, 1 << 63, 1), X87_INF, X87_NAN, (0, (1 << 64) - 1, 32766),
         (0, (1 << 64) - 1, 32765), (0, 1 << 63, 32766)]
    for q in (1, 2, 3, 5, 7, 10, Fraction(1, 2), Fraction(3, 2), Fraction(5, 2), Fraction(1, 4), 6, 100,
              Fraction(2) ** 63, Fraction(2) ** 63 - Fraction(1, 2), Fraction(2) ** 64, Fraction(2) ** -30,
              Fraction(2) ** 62 + Fraction(1, 2), 10 ** 10, Fraction(1, 1024)):
        g.append(x87_of_fraction(q))
    for _ in range(n_rand):
        g.append((0, (1 << 63) | rng.getrandbits(63), rng.randrange(1, 32767)))
        g.append((0, (1 << 63) | rng.getrandbits(63), X87_BIAS + rng.randrange(-20, 21)))
    out = set()
    for (s, m, e) in g:
        out.add((0, m, e))
        if (0, m, e) != X87_NAN:
            out.add((1, m, e))
    return sorted(out)


def t80(v):
    return "%d %d %d" % v


def gen80(tier, rng):
    quick = tier != "thorough"
    out = []
    bnd = boundary80(rng, quick)
    for fn in UNARY80:
        for v in bnd:
            out.append(f"{fn}80 {t80(v)}")
    grid = grid80(rng, 3 if quick else 30)
    def near(x, y):
        # the exact integer arithmetic of the Coq spec of fmod / remainder / midpoint works on
        # 2^|ex - ey|-sized integers: keep the exponents within 200 of each other (or a special operand)
        return x[2] in (0, 32767) and x[1] in (0, 1 << 63) or y[2] in (0, 32767) and y[1] in (0, 1 << 63) or abs(x[2] - y[2]) <= 200
    for fn in BINARY80:
        for x in grid:
            for y in grid:
                if fn in ("fmod", "remainder", "midpoint") and not near(x, y):
                    continue
                out.append(f"{fn}80 {t80(x)} {t80(y)}")
    return out


# ---------------------------------------------------------------------------------------------
# review round: sign-bit operations on raw patterns (NaN sign / payload), rounding directions,
# suffixed and integral overloads
# ---------------------------------------------------------------------------------------------
def raw_values(f, rng, n_rand):
    """bit patterns incl. NaNs of both signs, quiet and signalling, with payloads"""
    mw = f.mw
    mags = [0, 1, (1 << mw) - 1, 1 << mw, f.bias << mw, (f.bias << mw) + 1, f.inf - 1, f.inf,
            f.qnan, f.qnan | 1, f.qnan | rng.getrandbits(mw - 1), f.qnan | ((1 << (mw - 1)) - 1),   # quiet NaNs
            f.inf | 1, f.inf | (1 << (mw - 2)), f.inf | (rng.getrandbits(mw - 1) or 1)]               # signalling NaNs
    mags += [rng.getrandbits(f.W - 1) for _ in range(n_rand)]
    mags += [f.inf | (rng.getrandbits(mw) or 1) for _ in range(n_rand // 2)]
    out = []
    for m in mags:
        out += [m, m | f.S]
    return sorted(set(out))


def raw_values80(rng, n_rand):
    top = 1 << 63
    q = top | (1 << 62)
    mags = [(0, 0), (1, 0), (top - 1, 0), (top, 1), (top, X87_BIAS), (top + 1, X87_BIAS), ((1 << 64) - 1, 32766), (top, 32767),
            (q, 32767), (q | 1, 32767), (q | rng.getrandbits(62), 32767), ((1 << 64) - 1, 32767)]          # quiet NaNs only
    mags += [(top | rng.getrandbits(63), rng.randrange(1, 32767)) for _ in range(n_rand)]
    mags += [(q | rng.getrandbits(62), 32767) for _ in range(n_rand // 2)]
    out = []
    for (m, e) in mags:
        out += [(0, m, e), (1, m, e)]
    return sorted(set(out))


def rm_values(f, rng, n_rand):
    """NON-NEGATIVE magnitudes for the rounding-direction cases: k, k + 1/4, 1/2, 3/4 and neighbours, tiny, huge, random"""
    vals = set()
    for k in list(range(0, 12)) + [1 << (f.mw - 2), (1 << (f.mw - 1)) - 2, (1 << (f.mw - 1)) - 1, (1 << f.mw) - 1, 1 << 31, (1 << 62)]:
        for d in (0.0, 0.25, 0.5, 0.75):
            b = f.of_float(k + d)
            if b is not None:
                vals.update({b, b + 1, max(b - 1, 0)})
    vals.update({0, 1, 2, 1 << f.mw, f.nearest(1e-10), f.nearest(0.1), f.nearest(0.9999999), f.inf - 1, f.inf, f.qnan,
                 (f.bias + 62) << f.mw, ((f.bias + 63) << f.mw) - 1, (f.bias + 63) << f.mw, ((f.bias + 63) << f.mw) + 1,
                 (f.bias + f.mw) << f.mw, ((f.bias + f.mw) << f.mw) - 1, ((f.bias + f.mw - 1) << f.mw) + 1})
    for _ in range(n_rand):
        e = rng.randrange(f.bias - 3, f.bias + f.mw + 2)
        vals.add((e << f.mw) | rng.getrandbits(f.mw))
    return sorted(v for v in vals if v <= f.inf or v == f.qnan)


def rm_values80(rng, n_rand):
    from fractions import Fraction
    vals = set()
    for k in list(range(0, 8)) + [(1 << 62) - 1, (1 << 62), (1 << 63) - 1, (1 << 31)]:
        for d in (Fraction(0), Fraction(1, 4), Fraction(1, 2), Fraction(3, 4)):
            v = x87_of_fraction(k + d)
            if v is not None:
                vals.add(v)
                vals.update(x87_neighbours(v))
    vals.update({(0, 0, 0), (0, 1, 0), (0, 1 << 63, 1), X87_INF, X87_NAN, (0, (1 << 64) - 1, 32766),
                 x87_of_fraction(Fraction(2) ** 63), x87_of_fraction(Fraction(2) ** 64)})
    for _ in range(n_rand):
        vals.add((0, (1 << 63) | rng.getrandbits(63), X87_BIAS + rng.randrange(-3, 66)))
    return sorted((0, m, e) for (s, m, e) in vals)


def gen_review(tier, rng):
    quick = tier != "thorough"
    out = []
    # --- raw sign-bit operations
    for f in (F32, F64):
        t = f.tag
        rv = raw_values(f, rng, 12 if quick else 200)
        for v in rv:
            for fn in ("rawfabs", "rawabs", "rawsignbit", "rawsignbit_fb"):
                out.append(f"{fn}{t} {v}")
        sub = [rv[i] for i in sorted(rng.sample(range(len(rv)), min(len(rv), 26 if quick else 120)))]
        core = [0, f.S, f.bias << f.mw, (f.bias << f.mw) | f.S, f.qnan, f.qnan | f.S, f.inf | 1, f.inf | 1 | f.S, f.inf, f.inf | f.S]
        for x in sorted(set(sub + core)):
            for y in sorted(set(sub + core)):
                out.append(f"rawcopysign{t} {x} {y}")
                out.append(f"rawcopysign_fb{t} {x} {y}")
    rv80 = raw_values80(rng, 8 if quick else 100)
    for v in rv80:
        for fn in ("rawfabs", "rawabs", "rawfabsl", "rawsignbit", "rawsignbit_fb"):
            out.append(f"{fn}80 {t80(v)}")
    sub80 = [rv80[i] for i in sorted(rng.sample(range(len(rv80)), min(len(rv80), 48 if quick else 120)))]
    for x in sub80:
        for y in sub80:
            out.append(f"rawcopysign80 {t80(x)} {t80(y)}")
            out.append(f"rawcopysignl80 {t80(x)} {t80(y)}")
    # --- rounding directions: rint for non-negative arguments (GCC's inline expansion of __builtin_rint / std::rint
    # for binary32 / binary64 rounds |x| and is wrong for negative arguments in the directed modes unless
    # -frounding-math is given: a property of the compiler, the same for libstdc++), lrint / llrint and the x87
    # rint for both signs
    for f in (F32, F64):
        t = f.tag
        mv = rm_values(f, rng, 20 if quick else 600)
        for md in (0, 1, 2, 3):
            for v in mv:
                out.append(f"rm_rint{t} {md} {v}")
                for fn in ("rm_lrint", "rm_llrint"):
                    out.append(f"{fn}{t} {md} {v}")
                    if v != f.qnan:
                        out.append(f"{fn}{t} {md} {v | f.S}")
    # ... and the suffixed overloads rintf / lrintf / llrintf, rintl / lrintl / llrintl on a part of the table
    mvs = [v for v in rm_values(F32, rng, 4) if rng.random() < 0.35]
    for md in (1, 2, 3):
        for v in mvs:
            for fn in ("rm_rintf", "rm_lrintf", "rm_llrintf"):
                out.append(f"{fn}32 {md} {v}")
    mv80 = rm_values80(rng, 10 if quick else 300)
    for md in (1, 2, 3):
        for v in mv80:
            if rng.random() < 0.35:
                for fn in ("rm_rintl", "rm_lrintl", "rm_llrintl"):
                    out.append(f"{fn}80 {md} {t80(v)}")
    for md in (0, 1, 2, 3):
        for v in mv80:
            for fn in ("rm_rint", "rm_lrint", "rm_llrint"):
                out.append(f"{fn}80 {md} {t80(v)}")
                if v != X87_NAN:
                    out.append(f"{fn}80 {md} {t80((1,) + v[1:])}")
    # --- C-style suffixed overloads and the integral overloads: a small table each (same code behind them)
    f = F32
    uv = [0, f.S, 1, f.bias << f.mw, f.nearest(2.5), f.nearest(-2.5), f.nearest(-3.5), f.nearest(0.5), f.nearest(-0.5), f.nearest(1e10),
          f.inf - 1, f.inf, f.inf | f.S, f.qnan, f.nearest(8388607.5), f.nearest(-4194303.5)] + [rng.getrandbits(32) % f.inf for _ in range(6)]
    for fn in ("floorf", "ceilf", "truncf", "roundf", "rintf", "fabsf", "lrintf", "llrintf"):
        for v in uv:
            out.append(f"{fn}32 {v}")
    bv = [0, f.S, 1, f.bias << f.mw, f.nearest(3.0), f.nearest(-5.0), f.nearest(0.3), f.inf - 1, f.inf, f.inf | f.S, f.qnan, rng.getrandbits(31) % f.inf]
    for fn in ("fmodf", "remainderf", "copysignf", "fminf", "fmaxf", "fdimf", "nextafterf"):
        for x in bv:
            for y in bv:
                out.append(f"{fn}32 {x} {y}")
    from fractions import Fraction
    uv80 = [(0, 0, 0), (1, 0, 0), X87_INF, (1,) + X87_INF[1:], X87_NAN] + [x87_of_fraction(q) for q in
            (1, -1, Fraction(5, 2), Fraction(-5, 2), Fraction(-7, 2), Fraction(1, 2), Fraction(2) ** 63 - Fraction(1, 2), Fraction(2) ** 64, 10 ** 10)]
    uv80 += [(rng.getrandbits(1), (1 << 63) | rng.getrandbits(63), X87_BIAS + rng.randrange(-3, 66)) for _ in range(6)]
    for fn in ("floorl", "ceill", "truncl", "roundl", "rintl", "fabsl", "lrintl", "llrintl"):
        for v in uv80:
            out.append(f"{fn}80 {t80(v)}")
    bv80 = uv80[:12]
    for fn in ("copysignl", "fminl", "fmaxl", "fdiml", "fmodl", "remainderl"):
        for x in bv80:
            for y in bv80:
                out.append(f"{fn}80 {t80(x)} {t80(y)}")
    # lerp and the hypot ladders for long double; hypotf / hypotl
    lv = [x87_of_fraction(q) for q in (0, 1, -1, 20, -10, Fraction(1, 2 ** 20), 3, Fraction(2) ** 16000, -Fraction(2) ** 16000)] + [(1, 0, 0), (0, 1, 0), (0, (1 << 64) - 1, 32766), (1, (1 << 64) - 1, 32766)]
    lv += [(rng.getrandbits(1), (1 << 63) | rng.getrandbits(63), rng.randrange(1, 32767)) for _ in range(3)]
    tv80 = [x87_of_fraction(q) for q in (0, 1, Fraction(1, 2), Fraction(3, 2), -1, Fraction(1, 4), 2)] + [(1, 0, 0), (0, (1 << 63) + 1, X87_BIAS), (0, (1 << 64) - 1, X87_BIAS - 1)]
    for a in lv:
        for b in lv:
            for tt in tv80:
                out.append(f"lerp80 {t80(a)} {t80(b)} {t80(tt)}")
    sp80 = [(0, 0, 0), (1, 0, 0), X87_INF, (1,) + X87_INF[1:], X87_NAN, x87_of_fraction(1), x87_of_fraction(-4), (0, (1 << 64) - 1, 32766), (0, 1, 0)]
    for x in sp80:
        for y in sp80:
            out.append(f"hypot80 {t80(x)} {t80(y)}")
            out.append(f"hypotl80 {t80(x)} {t80(y)}")
            for z in sp80:
                out.append(f"hypot380 {t80(x)} {t80(y)} {t80(z)}")
    spf = [0, f.S, f.inf, f.inf | f.S, f.qnan, f.bias << f.mw, f.nearest(-4.0), f.inf - 1, 1]
    for x in spf:
        for y in spf:
            out.append(f"hypotf32 {x} {y}")
    iv = [0, 1, -1, 2, -7, (1 << 24) + 1, (1 << 31) + 1, 1 << 31, -(1 << 31), (1 << 53) + 1, -(1 << 53) - 1, (1 << 62) + 1, (1 << 63) - 1, -(1 << 63),
          (1 << 63) - 513, (1 << 63) - 512] + [rng.getrandbits(63) - (1 << 62) for _ in range(6)]
    ivu = [0, 1, 7, (1 << 53) + 1, (1 << 63) - 1, 1 << 63, (1 << 64) - 1, (1 << 64) - 1025, (1 << 64) - 1024] + [rng.getrandbits(64) for _ in range(6)]
    for fn in ("floor", "ceil", "trunc", "round", "rint", "lrint", "llrint", "isnan", "isinf"):
        for v in iv:
            out.append(f"i_{fn}64 {v}")
        for v in ivu:
            out.append(f"u_{fn}64 {v}")
    return out


def gen(tier, rng):
    out = []
    quick = tier == "quick"
    search = tier == "search"
    out += gen80(tier, rng)
    out += gen_review(tier, rng)
    for f in (F32, F64):
        t = f.tag
        bnd = boundary(f, rng, quick or search)
        if quick or search:
            # the unary table is big: every op sees the core of it, and a rotating random share
            pass
        for fn in UNARY_F + UNARY_B + UNARY_I:
            for v in bnd:
                out.append(f"{fn}{t} {v}")
        grid = small_grid(f, rng, 4 if (quick or search) else 40)
        pairs = [(x, y) for x in grid for y in grid]
        pairs += related_pairs(f, rng, 400 if (quick or search) else 20000)
        # the fuelled long-division model of gcem fmod / remainder costs one extracted Flocq operation per
        # binade between the operands: keep the exponents within 48 of each other (or a special operand),
        # plus a few far-apart pairs; the sweeps below compare the C++ with libm over the whole range
        def close(x, y):
            ex, ey = (x & (f.S - 1)) >> f.mw, (y & (f.S - 1)) >> f.mw
            top = (1 << f.ew) - 1
            return ex == top or ey == top or (y & (f.S - 1)) == 0 or ex < ey or ex - ey <= 48
        far = [p for p in pairs if not close(*p)]
        far = [far[i] for i in sorted(rng.sample(range(len(far)), min(len(far), 12 if (quick or search) else 300)))]
        for fn in BINARY:
            for (x, y) in pairs:
                if fn in ("g_fmod", "g_remainder") and not close(x, y):
                    continue
                out.append(f"{fn}{t} {x} {y}")
        for fn in ("g_fmod", "g_remainder"):
            for (x, y) in far:
                out.append(f"{fn}{t} {x} {y}")
        # lerp: boundary t (0, 1, in between, outside), operands of equal / opposite sign, a == b
        tv = [0, f.S, f.bias << f.mw, (f.bias << f.mw) | f.S, (f.bias - 1) << f.mw, (f.bias + 1) << f.mw,
              (f.bias << f.mw) + 1, (f.bias << f.mw) - 1, f.nearest(0.3), f.nearest(-0.7), f.nearest(1.5), 1, f.inf - 1]
        ab = [0, f.S, 1, f.bias << f.mw, (f.bias << f.mw) | f.S, f.nearest(20.0), f.nearest(-10.0), f.nearest(1e30),
              f.inf - 1, (f.inf - 1) | f.S, f.nearest(1e-30), f.nearest(0.1), f.nearest(3.0)]
        ab += [rng.getrandbits(f.W - 1) % f.inf | (rng.getrandbits(1) * f.S) for _ in range(6 if quick else 40)]
        for a in ab:
            for b in ab:
                for tt in tv + [rng.getrandbits(f.W - 1) % f.inf for _ in range(2)]:
                    out.append(f"lerp{t} {a} {b} {tt}")
        sp = [0, f.S, f.inf, f.inf | f.S, f.qnan, f.bias << f.mw, f.nearest(3.0), f.nearest(-4.0), f.inf - 1, 1]
        for x in sp:
            for y in sp:
                out.append(f"hypot{t} {x} {y}")
                for z in sp:
                    out.append(f"hypot3{t} {x} {y} {z}")
    # ---- sweeps (etl vs libm inside the harness)
    if quick or search:
        cnt32 = 1 << 24
        for fn in SWEEP_UNARY:
            out.append(f"sweep32 {fn} {rng.randrange(256)} 257 {cnt32}")
            # stride ~ 2^64 / count: the arithmetic progression wraps over the whole pattern space
            out.append(f"sweep64 {fn} {rng.getrandbits(64)} {(1 << 42) + 2 * rng.getrandbits(20) + 1} {1 << 22}")
        for fn in SWEEP_BINARY:
            out.append(f"sweep32 {fn} {rng.randrange(1024)} 1031 {1 << 22}")
            out.append(f"sweep64 {fn} {rng.getrandbits(64)} {(1 << 43) + 2 * rng.getrandbits(20) + 1} {1 << 21}")
    else:
        for fn in SWEEP_UNARY:
            for k in range(16):
                out.append(f"sweep32 {fn} {k << 28} 1 {1 << 28}")
            out.append(f"sweep64 {fn} {rng.getrandbits(64)} {(1 << 36) + 2 * rng.getrandbits(20) + 1} {1 << 28}")
        # binary functions: 2^28 binary32 and 2^26 binary64 patterns per function (x 5 partner operands each), in
        # chunks small enough for the per-case time limit of the harness (libm's fmod / remainder loop over the
        # exponent difference)
        for fn in SWEEP_BINARY:
            slow = fn in ("fmod", "remainder")
            n32, c32 = (256, 1 << 20) if slow else (16, 1 << 24)
            for k in range(n32):
                out.append(f"sweep32 {fn} {(rng.randrange(17) + k * 17 * c32) & 0xffffffff} 17 {c32}")
            n64, c64 = (64, 1 << 20) if slow else (16, 1 << 22)
            stride = (1 << 38) + 2 * rng.getrandbits(20) + 1
            start = rng.getrandbits(64)
            for k in range(n64):
                out.append(f"sweep64 {fn} {(start + k * c64 * stride) & ((1 << 64) - 1)} {stride} {c64}")
    return out


def nontrivial(case, impl):
    if not impl.startswith("ok"):
        return False
    op = case.split(" ", 1)[0]
    if op.startswith("sweep"):
        return True
    toks = impl.split()
    return not (len(toks) == 2 and toks[1] in ("2143289344", "9221120237041090560"))


# ---------------------------------------------------------------------------------------------
# the approximate set: MEASURED against libm, compared with recorded numbers (regression test)
# ---------------------------------------------------------------------------------------------
HERE = os.path.dirname(os.path.abspath(__file__))
# a cell whose recorded error is larger than this (or that has NaN/inf placement mismatches) is a
# recorded inaccuracy region: only "does not crash" is checked there (see NOTES.md, known findings)
APPROX_GROSS_ULP = 1000.0
APPROX_GROSS_MARGIN = 64.0   # coarse regression margin inside recorded inaccuracy regions
APPROX_MARGIN = 4.0      # measured error may be this many times the recorded one (sampling differs)
APPROX_FLOOR = 3.0       # ... but at least this many ulps are always allowed


def _approx_run(exe, lines, timeout=600):
    """runs the measurement tool on the given request lines; returns list of dicts (None = no answer)"""
    try:
        r = subprocess.run([str(exe)], input="\n".join(lines) + "\n", capture_output=True, text=True, timeout=timeout)
        outs = r.stdout.splitlines()
    except subprocess.TimeoutExpired as e:
        outs = (e.stdout or b"").decode("utf-8", "replace").splitlines() if isinstance(e.stdout, bytes) else []
    res = []
    for i in range(len(lines)):
        if i >= len(outs) or "max_ulp=" not in outs[i]:
            res.append(None)
            continue
        kv = dict(t.split("=", 1) for t in outs[i].split()[2:])
        res.append({"max_ulp": float(kv["max_ulp"]), "at": int(kv["at"]), "special": int(kv["special"]),
                    "first_special": kv["first_special"], "n": int(kv["n"]),
                    "got": kv.get("got"), "want": kv.get("want"), "raw": outs[i]})
    return res


def extra_checks(ctx):
    from vlib import engine
    items = []
    exe, log = engine.build_harness("C16", "approx", "approx.cpp", ["-O1"])
    if exe is None:
        return [{"kind": "violation", "found_input": False,
                 "payload": {"property": "C16", "kind": "approx.cpp does not compile against /repo/include",
                             "no_longer_checks": log[-2000:]}}]
    table = json.load(open(os.path.join(HERE, "approx_bounds.json")))
    per_cell = 1500 if ctx.tier != "thorough" else 20000
    reqs, cells = [], []
    for c in table["cells"]:
        if "crash" in c:
            continue
        lo, hi = c["lo"], c["hi"]
        step = max(1, (hi - lo) // per_cell)
        lo2 = lo + ctx.rng.randrange(step)
        reqs.append(f"{c['name']} {c['fmt']} {lo2} {hi} {per_cell}")
        cells.append(c)
    # the tool stops at the first request it cannot survive (stack overflow ...): resume after it
    results = [None] * len(reqs)
    start = 0
    crashed = []
    while start < len(reqs):
        part = _approx_run(exe, reqs[start:])
        k = 0
        while k < len(part) and part[k] is not None:
            results[start + k] = part[k]
            k += 1
        if start + k < len(reqs):
            crashed.append(start + k)
            start = start + k + 1
        else:
            break
    evaluations = 0
    worst = []
    checked = gross = 0
    by_fn = {}     # function -> list of (excess factor, payload): one VIOLATION per function, worst cell first
    for i, (c, r) in enumerate(zip(cells, results)):
        tag = f"{c['name']} binary{c['fmt']} {c['cell']}"
        if r is None:
            by_fn.setdefault(c["name"], []).append((float("inf"), {
                "property": "C16", "kind": "approximate function crashes or hangs on this argument range",
                "case": "approx " + reqs[i], "cell": tag}))
            continue
        evaluations += r["n"]
        if c["max_ulp"] > APPROX_GROSS_ULP or c["special"] > 0:
            # recorded inaccuracy region: only a coarse "not much worse than recorded" test
            gross += 1
            frac0 = c["special"] / max(1, c["n"])
            frac = r["special"] / max(1, r["n"])
            # (an error bound is applied only when the region is listed for NaN/inf placement alone: near a zero of
            # the function an already inaccurate kernel has an unbounded error in ulps, sampling decides what is seen)
            ubound = APPROX_GROSS_MARGIN * max(c["max_ulp"], APPROX_FLOOR) if c["max_ulp"] <= APPROX_GROSS_ULP else float("inf")
            if r["max_ulp"] > ubound or frac > 1.5 * frac0 + 0.02:
                bits = r["at"] if r["max_ulp"] > ubound else r["first_special"]
                by_fn.setdefault(c["name"], []).append((r["max_ulp"] / ubound, {
                    "property": "C16", "kind": "approximate function became much worse than its recorded (already inaccurate) behaviour",
                    "case": f"approx {c['name']} {c['fmt']} {bits} {bits} 1", "cell": tag,
                    "failing_argument_bits": bits, "impl": r["raw"],
                    "reference": f"recorded max_ulp={c['max_ulp']} special={c['special']}/{c['n']}; allowed max_ulp<={ubound} special fraction<={1.5 * frac0 + 0.02:.3f}"}))
            continue
        checked += 1
        bound = max(APPROX_FLOOR, APPROX_MARGIN * c["max_ulp"])
        if r["max_ulp"] > bound or r["special"] > 0:
            bits = r["at"] if r["max_ulp"] > bound else r["first_special"]
            by_fn.setdefault(c["name"], []).append((r["max_ulp"] / bound if r["special"] == 0 else float("inf"), {
                "property": "C16", "kind": "approximate function left its recorded error bound against libm",
                "case": f"approx {c['name']} {c['fmt']} {bits} {bits} 1", "cell": tag,
                "failing_argument_bits": bits, "impl": r["raw"],
                "reference": f"recorded max_ulp={c['max_ulp']} special={c['special']}; allowed max_ulp<={bound} special=0"}))
        worst.append((r["max_ulp"], tag))
    # special points: zeros, infinities, NaN, +-1 and neighbours, extreme magnitudes (and pairs of them for the
    # two-argument functions): NaN / infinity placement must agree with libm and the error must stay within the
    # recorded one, unless the point is recorded as inaccurate (known findings name representatives)
    pts = table.get("points", [])
    plines = [f"{q['name']} {q['fmt']} {q['x']} {q['x']} 1" + (f" {q['y']}" if "y" in q else "") for q in pts]
    pres = [None] * len(plines)
    start = 0
    while start < len(plines):
        part = _approx_run(exe, plines[start:])
        k = 0
        while k < len(part) and part[k] is not None:
            pres[start + k] = part[k]
            k += 1
        start += k + 1
    pts_checked = pts_recorded_bad = 0
    for q, r, line in zip(pts, pres, plines):
        tag = f"{q['name']} binary{q['fmt']} at special point x={q['x']}" + (f" y={q['y']}" if "y" in q else "")
        recorded_bad = q.get("crash") or q.get("special", 0) > 0 or q.get("max_ulp", 0) > APPROX_GROSS_ULP
        if r is None:
            if not q.get("crash"):
                by_fn.setdefault(q["name"], []).append((float("inf"), {
                    "property": "C16", "kind": "approximate function crashes or hangs on this special argument",
                    "case": "approx " + line, "cell": tag}))
            continue
        evaluations += 1
        if recorded_bad:
            pts_recorded_bad += 1
            continue
        pts_checked += 1
        bound = max(APPROX_FLOOR, APPROX_MARGIN * q["max_ulp"])
        if r["special"] > 0 or r["max_ulp"] > bound:
            by_fn.setdefault(q["name"], []).append((float("inf") if r["special"] else r["max_ulp"] / bound, {
                "property": "C16", "kind": "approximate function deviates from libm at a special argument (NaN / infinity placement or error bound)",
                "case": "approx " + line, "cell": tag, "failing_argument_bits": q["x"], "impl": r["raw"],
                "reference": f"recorded max_ulp={q['max_ulp']} special=0 (got {q.get('got')} want {q.get('want')}); allowed max_ulp<={bound} special=0"}))
    for fn, lst in sorted(by_fn.items()):
        lst.sort(key=lambda t: -t[0])
        payload = dict(lst[0][1])
        payload["failing_cells_same_function"] = len(lst)
        payload["more_failing_cells"] = [p["cell"] + " @ " + str(p.get("failing_argument_bits", "?")) for _, p in lst[1:6]]
        items.append({"kind": "violation", "found_input": True, "payload": payload})
    # recorded defect of the platform's libm reached through a builtin: replayed through the main harness
    for k in ctx.known:
        w = k.get("harness_witness")
        if not w:
            continue
        hexe, hlog = engine.build_harness("C16", "main", "harness.cpp", HFLAGS)
        legs = ""
        if hexe is not None:
            rc, lines, err = engine.run_bin(hexe, [w])
            legs = lines[0] if lines else ""
        if legs == k.get("legs"):
            ctx.reported_known.add(k["id"])
            items.append({"kind": "known", "text": f"{k['id']}: {k['what']} [witness: {w} -> {legs}; expected {k.get('expected')}]"})
        else:
            items.append({"kind": "violation", "found_input": False,
                          "payload": {"property": "C16", "kind": "recorded finding no longer reproduces (update known_findings.json)",
                                      "no_longer_checks": k["id"], "case": w, "got": legs, "recorded": k.get("legs")}})
    # recorded defects of the approximate set: single arguments, must still fail in the recorded way
    for k in ctx.known:
        a = k.get("approx")
        if not a:
            continue
        r = _approx_run(exe, [f"{a['name']} {a['fmt']} {a['bits']} {a['bits']} 1" + (f" {a['y']}" if "y" in a else "")])[0]
        still = r is not None and (r["max_ulp"] >= a.get("min_ulp", float("inf")) or (a.get("special") and r["special"] > 0))
        if still:
            ctx.reported_known.add(k["id"])
            items.append({"kind": "known", "text": f"{k['id']}: {k['what']} [witness: {a['name']} binary{a['fmt']} bits {a['bits']} -> {r['got']}; expected {r['want']}]"})
        else:
            items.append({"kind": "violation", "found_input": False,
                          "payload": {"property": "C16", "kind": "recorded finding of the approximate set no longer reproduces (update known_findings.json)",
                                      "no_longer_checks": k["id"], "measured": None if r is None else r["raw"]}})
    worst.sort(reverse=True)
    ctx.evidence = {"approximate_set": {
        "status": "measured against glibc libm (long double), not proved",
        "cells_checked_against_recorded_bound": checked, "cells_recorded_as_inaccurate_not_bounded": gross,
        "special_points_checked": pts_checked, "special_points_recorded_as_inaccurate": pts_recorded_bad,
        "evaluations": evaluations, "margin": APPROX_MARGIN, "floor_ulp": APPROX_FLOOR,
        "largest_errors_in_checked_cells": [f"{u:.1f} ulp {t}" for u, t in worst[:8]]}}
    return items
