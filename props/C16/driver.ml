(* C16 driver: model leg = extracted Model.v functions (or, for a function whose run-time path is
   a compiler builtin, the Spec.v function: the builtin is not library code); spec leg =
   extracted Spec.v.  Values are IEEE bit patterns, the single NaN prints as the quiet NaN. *)
type fmtrec = { p : z; e : z; rd : toks -> binary_float; pr : binary_float -> string;
                na : binary_float -> binary_float -> binary_float; sb : binary_float -> bool;
                w : z; rdraw : toks -> z; prraw : z -> string }

let no_na _ _ = raise Not_found
let no_sb _ = raise Not_found
let f32 = { p = z_of_int 24; e = z_of_int 128; rd = (fun t -> dec32 (next_z t)); pr = (fun v -> str_of_z (enc32 v));
            na = nextafter32; sb = signbit_fb32; w = z_of_int 32; rdraw = next_z; prraw = str_of_z }
let f64 = { p = z_of_int 53; e = z_of_int 1024; rd = (fun t -> dec64 (next_z t)); pr = (fun v -> str_of_z (enc64 v));
            na = nextafter64; sb = signbit_fb64; w = z_of_int 64; rdraw = next_z; prraw = str_of_z }
(* x87 extended: three tokens "sign significand biased-exponent" *)
let z0 = z_of_int 0
let f80 = { p = z_of_int 64; e = z_of_int 16384;
            rd = (fun t -> let s = next_z t in let m = next_z t in let ex = next_z t in dec80 (s <> z0) m ex);
            pr = (fun v -> let (s, (m, ex)) = enc80 v in join [ b2s s; str_of_z m; str_of_z ex ]);
            na = no_na; sb = no_sb; w = z_of_int 80;
            (* raw x87 pattern: sign * 2^79 + biased exponent * 2^64 + significand *)
            rdraw = (fun t -> let s = next_big t in let m = next_big t in let ex = next_big t in
                       z_of_big (Big.add (Big.shift_left s 79) (Big.add (Big.shift_left ex 64) m)));
            prraw = (fun v -> let b = big_of_z v in
                       join [ Big.to_string (Big.shift_right b 79);
                              Big.to_string (Big.logand b (Big.pred (Big.shift_left Big.one 64)));
                              Big.to_string (Big.logand (Big.shift_right b 64) (Big.of_int 32767)) ]) }
let okraw f v = join [ "ok"; f.prraw v ]

let okf f v = join [ "ok"; f.pr v ]
let okb b = join [ "ok"; b2s b ]
let okz z = join [ "ok"; str_of_z z ]
let resf f = function Ok v -> okf f v | UB _ -> "ub" | Contract -> "contract" | OutOfFuel -> "fuel"
let resz = function Ok v -> okz v | UB _ -> "ub" | Contract -> "contract" | OutOfFuel -> "fuel"
let optf f = function Some v -> okf f v | None -> "na"
let w64 = z_of_int 64
let int_min64 = z_of_big (Big.neg (Big.shift_left Big.one 63))

let is_zero = function B754_zero _ -> true | _ -> false

let run_fmt f fn t =
  let p = f.p and e = f.e in
  let u1 m s = let x = f.rd t in (m x, s x) in
  let b2 m s = let x = f.rd t in let y = f.rd t in (m x y, s x y) in
  let is80 = (f == f80) in
  match fn with
  (* --- sign-bit operations on the raw encoding (NaN sign and payload included): abs_impl,
         copysign_fallback (long double; constant evaluation) / the builtin (= specification), signbit *)
  | "rawfabs" | "rawabs" | "rawfabsl" ->
      let b = f.rdraw t in (okraw f (raw_e_abs f.w b), okraw f (spec_raw_fabs f.w b))
  | "rawcopysign_fb" ->
      let x = f.rdraw t in let y = f.rdraw t in
      (okraw f (raw_e_copysign_fb f.w x y), okraw f (spec_raw_copysign f.w x y))
  | "rawcopysign" | "rawcopysignl" ->
      let x = f.rdraw t in let y = f.rdraw t in
      (okraw f (if is80 then raw_e_copysign_fb f.w x y else spec_raw_copysign f.w x y), okraw f (spec_raw_copysign f.w x y))
  | "rawsignbit" -> let b = f.rdraw t in (okb (raw_signbit f.w b), okb (spec_raw_signbit f.w b))
  | "rawsignbit_fb" ->
      (* long double: __builtin_copysignl(1.0L, arg) < 0.0L, i.e. the sign bit *)
      let b = f.rdraw t in (okb (if is80 then raw_signbit f.w b else raw_e_signbit_fb f.w b), okb (spec_raw_signbit f.w b))
  (* --- rint / lrint / llrint in the four rounding directions (run-time path = builtin = specification) *)
  | "rm_rint" ->
      let md = next_z t in let x = f.rd t in
      (* binary32 / binary64: the sign of a zero result is not compared (compiler's inline expansion, see harness.cpp) *)
      let pz v = if is80 then v else (match v with B754_zero _ -> B754_zero false | _ -> v) in
      (okf f (pz (spec_rint_rm p e md x)), okf f (pz (spec_rint_rm p e md x)))
  | "rm_lrint" | "rm_llrint" ->
      let md = next_z t in let x = f.rd t in
      ((match spec_lrint_rm p e w64 md x with Some z -> okz z | None -> okz int_min64),
       (match spec_lrint_rm p e w64 md x with Some z -> okz z | None -> "na"))
  (* --- long double: the public functions run the gcem kernels also at run time *)
  | "floor" when is80 -> u1 (fun x -> resf f (g_floor p e x)) (fun x -> okf f (spec_floor p e x))
  | "ceil" when is80 -> u1 (fun x -> resf f (g_ceil p e x)) (fun x -> okf f (spec_ceil p e x))
  | "trunc" when is80 -> u1 (fun x -> resf f (g_trunc p e x)) (fun x -> okf f (spec_trunc p e x))
  | "round" when is80 -> u1 (fun x -> resf f (g_round p e x)) (fun x -> okf f (spec_round p e x))
  | "copysign" when is80 -> b2 (fun x y -> okf f (e_copysign_fb p e x y)) (fun x y -> okf f (spec_copysign p e x y))
  (* --- run-time path = compiler builtin: modelled by the specification *)
  | "floor" -> u1 (fun x -> okf f (spec_floor p e x)) (fun x -> okf f (spec_floor p e x))
  | "ceil" -> u1 (fun x -> okf f (spec_ceil p e x)) (fun x -> okf f (spec_ceil p e x))
  | "trunc" -> u1 (fun x -> okf f (spec_trunc p e x)) (fun x -> okf f (spec_trunc p e x))
  | "round" -> u1 (fun x -> okf f (spec_round p e x)) (fun x -> okf f (spec_round p e x))
  | "rint" -> u1 (fun x -> okf f (spec_rint p e x)) (fun x -> okf f (spec_rint p e x))
  | "isnan" -> u1 (fun x -> okb (spec_isnan p e x)) (fun x -> okb (spec_isnan p e x))
  | "isinf" -> u1 (fun x -> okb (spec_isinf p e x)) (fun x -> okb (spec_isinf p e x))
  | "signbit" -> u1 (fun x -> okb (spec_signbit p e x)) (fun x -> okb (spec_signbit p e x))
  | "copysign" -> b2 (fun x y -> okf f (spec_copysign p e x y)) (fun x y -> okf f (spec_copysign p e x y))
  | "fmod" -> b2 (fun x y -> okf f (spec_fmod p e x y)) (fun x y -> okf f (spec_fmod p e x y))
  | "remainder" ->
      (* the sign of a zero result of the run-time (builtin = libm) remainder is not compared, see harness.cpp *)
      let poszero v = match v with B754_zero _ -> B754_zero false | _ -> v in
      b2 (fun x y -> okf f (poszero (spec_remainder p e x y))) (fun x y -> okf f (poszero (spec_remainder p e x y)))
  | "remainder_raw" -> b2 (fun x y -> okf f (spec_remainder p e x y)) (fun x y -> okf f (spec_remainder p e x y))
  | "lrint" | "llrint" ->
      (* outside the representable range the builtin returns the x86-64 "integer indefinite" *)
      u1 (fun x -> match spec_lrint p e w64 x with Some z -> okz z | None -> okz int_min64)
         (fun x -> match spec_lrint p e w64 x with Some z -> okz z | None -> "na")
  (* --- library-written code *)
  | "fabs" | "abs" -> u1 (fun x -> okf f (e_abs p e x)) (fun x -> okf f (spec_fabs p e x))
  | "isfinite" -> u1 (fun x -> okb (e_isfinite p e x)) (fun x -> okb (spec_isfinite p e x))
  | "g_floor" -> u1 (fun x -> resf f (g_floor p e x)) (fun x -> okf f (spec_floor p e x))
  | "g_ceil" -> u1 (fun x -> resf f (g_ceil p e x)) (fun x -> okf f (spec_ceil p e x))
  | "g_trunc" -> u1 (fun x -> resf f (g_trunc p e x)) (fun x -> okf f (spec_trunc p e x))
  | "g_round" -> u1 (fun x -> resf f (g_round p e x)) (fun x -> okf f (spec_round p e x))
  | "g_abs" -> u1 (fun x -> okf f (g_abs p e x)) (fun x -> okf f (spec_fabs p e x))
  | "rint_fb" -> u1 (fun x -> resf f (e_rint_fb p e x)) (fun x -> okf f (spec_rint p e x))
  | "signbit_fb" -> u1 (fun x -> okb (f.sb x)) (fun x -> okb (spec_signbit p e x))
  | "g_is_nan" -> u1 (fun x -> okb (g_is_nan p e x)) (fun x -> okb (spec_isnan p e x))
  | "g_is_inf" -> u1 (fun x -> okb (g_is_inf p e x)) (fun x -> okb (spec_isinf p e x))
  | "g_is_finite" -> u1 (fun x -> okb (g_is_finite p e x)) (fun x -> okb (spec_isfinite p e x))
  | "lrint_fb" | "llrint_fb" ->
      u1 (fun x -> resz (e_lrint_fb p e x))
         (fun x -> match spec_lrint p e w64 x with Some z -> okz z | None -> "na")
  | "g_sgn" ->
      u1 (fun x -> okz (g_sgn p e x))
         (fun x -> okz (match x with
                        | B754_zero _ | B754_nan -> Z0
                        | B754_infinity s | B754_finite (s, _, _) -> if s then Zneg XH else Zpos XH))
  | "fmin" -> b2 (fun x y -> okf f (e_fmin p e x y)) (fun x y -> okf f (spec_fmin p e x y))
  | "fmax" -> b2 (fun x y -> okf f (e_fmax p e x y)) (fun x y -> okf f (spec_fmax p e x y))
  | "fdim" -> b2 (fun x y -> okf f (e_fdim p e x y)) (fun x y -> okf f (spec_fdim p e x y))
  | "nextafter" -> b2 (fun x y -> okf f (f.na x y)) (fun x y -> okf f (spec_nextafter p e x y))
  | "midpoint" -> b2 (fun x y -> okf f (e_midpoint p e x y)) (fun x y -> optf f (spec_midpoint p e x y))
  | "g_fmod" -> b2 (fun x y -> resf f (g_fmod p e x y)) (fun x y -> okf f (spec_fmod p e x y))
  | "g_remainder" -> b2 (fun x y -> resf f (g_remainder p e x y)) (fun x y -> okf f (spec_remainder p e x y))
  | "copysign_fb" -> b2 (fun x y -> okf f (e_copysign_fb p e x y)) (fun x y -> okf f (spec_copysign p e x y))
  | "lerp" ->
      let a = f.rd t in let b = f.rd t in let tt = f.rd t in
      (okf f (e_lerp p e a b tt),
       (* the exactness guarantees are stated with ==: a zero expectation leaves the sign open *)
       match spec_lerp_exact p e a b tt with
       | Some v when not (is_zero v) -> okf f v
       | _ -> "na")
  | "hypot" ->
      let x = f.rd t in let y = f.rd t in
      ((match e_hypot_ladder p e x y with Some v -> okf f v | None -> "ok finite"),
       optf f (spec_hypot_special p e x y))
  | "hypot3" ->
      let x = f.rd t in let y = f.rd t in let zz = f.rd t in
      ((match e_hypot3_ladder p e x y zz with Some v -> okf f v | None -> "ok finite"),
       optf f (spec_hypot3_special p e x y zz))
  | _ -> raise Not_found

let run_case op t =
  let n = String.length op in
  if n < 3 then raise Not_found;
  let fn = String.sub op 0 (n - 2) and fm = String.sub op (n - 2) 2 in
  let f = match fm with "32" -> f32 | "64" -> f64 | "80" -> f80 | _ -> raise Not_found in
  (* C-style suffixed overloads (floorf32, fminl80, ...) forward to the same code as the unsuffixed ones *)
  let fn =
    let k = String.length fn in
    if k < 2 then fn else begin
      let base = String.sub fn 0 (k - 1) in
      let raw = String.length base > 3 && String.sub base 0 3 = "raw" in
      if ((fn.[k - 1] = 'f' && fm = "32") || (fn.[k - 1] = 'l' && fm = "80")) && not raw
         && List.mem base [ "floor"; "ceil"; "trunc"; "round"; "rint"; "fabs"; "lrint"; "llrint"; "fmod"; "remainder";
                            "copysign"; "fmin"; "fmax"; "fdim"; "nextafter"; "rm_rint"; "rm_lrint"; "rm_llrint"; "hypot" ]
      then base else fn
    end in
  match fn with
  | "sweep" -> ("ok 0 -", "ok 0 -")
  | _ when String.length fn > 2 && (String.sub fn 0 2 = "i_" || String.sub fn 0 2 = "u_") && fm = "64" ->
      (* integral overloads: the argument is converted to double (round to nearest even), then the double overload *)
      let n = next_z t in
      let x = of_Z f.p f.e n in
      let t' = toks_of_line (str_of_z (enc64 x)) in
      run_fmt f (String.sub fn 2 (String.length fn - 2)) t'
  | _ -> run_fmt f fn t

(* The extracted Flocq code computes on unary-binary positives and is slow; a large batch is
   split into chunks that are evaluated by copies of this executable running in parallel
   (plain Stdlib: chunk files + one shell command), the outputs are concatenated in order. *)
let read_all () =
  let acc = ref [] in
  (try while true do acc := input_line stdin :: !acc done with End_of_file -> ());
  List.rev !acc

let () =
  if Array.length Sys.argv > 1 && Sys.argv.(1) = "--chunk" then main run_case
  else begin
    let lines = Array.of_list (read_all ()) in
    let n = Array.length lines in
    let jobs = try int_of_string (Sys.getenv "VERIF_THREADS") with _ -> 8 in
    let jobs = max 1 (min 32 jobs) in
    if n < 4000 || jobs = 1 then begin
      (* small batch: evaluate in process *)
      let buf = Buffer.create (1 lsl 16) in
      Array.iter (fun line ->
        let t = toks_of_line line in
        let op = next_str t in
        if op = "" || op.[0] = '#' then Buffer.add_string buf "skip | na\n"
        else begin
          let (m, p) = try run_case op t with Not_found -> ("unknown-op", "na") in
          Buffer.add_string buf (if m = "" then "void" else m);
          Buffer.add_string buf " | ";
          Buffer.add_string buf (if p = "" then "na" else p);
          Buffer.add_char buf '\n'
        end) lines;
      print_string (Buffer.contents buf)
    end else begin
      (* interleave so that expensive ops are spread evenly: line i goes to chunk i mod jobs *)
      let ins = Array.init jobs (fun _ -> Filename.temp_file "c16drv" ".in") in
      let outs = Array.init jobs (fun _ -> Filename.temp_file "c16drv" ".out") in
      let ocs = Array.map open_out ins in
      Array.iteri (fun i l -> let oc = ocs.(i mod jobs) in output_string oc l; output_char oc '\n') lines;
      Array.iter close_out ocs;
      let cmd = Buffer.create 1024 in
      Array.iteri (fun k _ ->
        Buffer.add_string cmd (Printf.sprintf "%s --chunk < %s > %s & " (Filename.quote Sys.executable_name)
                                 (Filename.quote ins.(k)) (Filename.quote outs.(k)))) ins;
      Buffer.add_string cmd "wait";
      let rc = Sys.command (Buffer.contents cmd) in
      let ics = Array.map open_in outs in
      let buf = Buffer.create (1 lsl 20) in
      (try
         for i = 0 to n - 1 do
           Buffer.add_string buf (input_line ics.(i mod jobs));
           Buffer.add_char buf '\n';
           if Buffer.length buf > (1 lsl 19) then (print_string (Buffer.contents buf); Buffer.clear buf)
         done
       with End_of_file -> (print_string (Buffer.contents buf); Buffer.clear buf; prerr_endline "chunk output short"; exit 3));
      print_string (Buffer.contents buf);
      Array.iter close_in ics;
      Array.iter Sys.remove ins;
      Array.iter Sys.remove outs;
      if rc <> 0 then exit 3
    end
  end
