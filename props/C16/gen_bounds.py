#!/usr/bin/env python3
"""C16 — (re)measure the approximate set and write props/C16/approx_bounds.json.

NOT part of ./check.  Run by hand when the recorded bounds have to be refreshed:
    python3 props/C16/gen_bounds.py            (compiles approx.cpp against $VERIF_REPO or /repo)
For every function, format, sign and magnitude cell it records the largest error (in ulps of the
result type, against glibc libm evaluated in long double) and the number of arguments where exactly one
of the two results is NaN/infinite.  ./check C16 re-measures a seeded sample of every cell and compares
with these numbers (regression test, no proof)."""
import json
import os
import struct
import subprocess
import sys
import tempfile

HERE = os.path.dirname(os.path.abspath(__file__))
REPO = os.environ.get("VERIF_REPO", "/repo")

NAMES = ("sqrt exp log log2 log10 log1p sin cos tan asin acos atan sinh cosh tanh asinh acosh atanh erf tgamma lgamma "
         "g_exp g_log g_sin g_cos g_tan g_tanh hypot hypot3 atan2 pow g_pow c_polar c_sin c_cos c_tan c_sinh c_cosh c_tanh c_log c_log10 "
         "c_abs c_arg c_norm").split()
EDGES = [1e-30, 1e-10, 1e-5, 1e-2, 0.5, 2.0, 10.0, 100.0, 1e4, 1e10, 1e30]
COUNT = 20000


def bits(fmt, x):
    if fmt == 32:
        return struct.unpack("<I", struct.pack("<f", x))[0]
    return struct.unpack("<Q", struct.pack("<d", x))[0]


def cells(fmt):
    S = 1 << (fmt - 1)
    out = []
    for sgn in (0, 1):
        for a, b in zip(EDGES, EDGES[1:]):
            out.append(((S if sgn else 0) + bits(fmt, a), (S if sgn else 0) + bits(fmt, b) - 1,
                        "%s[%g,%g)" % ("-" if sgn else "+", a, b)))
    return out


def near_cells(fmt):
    """review round: 5 consecutive patterns centred on 2^k (both signs) - the case splits of argument reductions sit at
    powers of two (gcem sqrt was wrong just below every power of 1/4) - and dense ranges around the overflow / underflow
    thresholds of exp for the format (sinh / cosh overflowed one binade early); recorded and re-measured like cells"""
    S = 1 << (fmt - 1)
    ks = set(range(-34, 35)) | {-65, -64, -63, 63, 64, 65, -100, 100, -126, -125, 126, 127}
    if fmt == 64:
        ks |= {-1022, -1021, -1000, -500, 500, 1000, 1022, 1023}
    out = []
    for k in sorted(ks):
        b = bits(fmt, 2.0 ** k)
        for sgn in (0, 1):
            out.append(((S if sgn else 0) + b - 2, (S if sgn else 0) + b + 2, "%snear 2^%d" % ("-" if sgn else "+", k)))
    rng = [(88.0, 90.0), (86.0, 88.0), (102.0, 105.0)] if fmt == 32 else \
          [(88.0, 90.0), (709.0, 711.0), (707.0, 709.0), (744.0, 746.5)]
    for a, b in rng:
        for sgn in (0, 1):
            out.append(((S if sgn else 0) + bits(fmt, a), (S if sgn else 0) + bits(fmt, b), "%s[%g,%g] dense" % ("-" if sgn else "+", a, b)))
    return out


def build(outdir):
    exe = os.path.join(outdir, "approx")
    subprocess.run(["g++", "-std=c++20", "-O1", "-w", f"-I{REPO}/include", os.path.join(HERE, "approx.cpp"), "-o", exe],
                   check=True)
    return exe


def measure(exe, name, fmt, lo, hi, count):
    try:
        r = subprocess.run([exe], input=f"{name} {fmt} {lo} {hi} {count}\n", capture_output=True, text=True, timeout=120)
    except subprocess.TimeoutExpired:
        return {"crash": "timeout"}
    if r.returncode != 0 or not r.stdout.strip():
        return {"crash": "rc=%d" % r.returncode}
    kv = dict(t.split("=") for t in r.stdout.split()[2:])
    return {"max_ulp": float(kv["max_ulp"]), "at": int(kv["at"]), "special": int(kv["special"]),
            "first_special": kv["first_special"], "n": int(kv["n"])}


UNARY = [n for n in NAMES if n not in ("hypot", "hypot3", "atan2", "pow", "g_pow") and not n.startswith("c_")]
BINARY = ["hypot", "hypot3", "atan2", "pow", "g_pow"]


def special_points(fmt):
    """arguments where C prescribes the result class: zeros, infinities, NaN, +-1 and their neighbours,
    the smallest / largest magnitudes, a few ordinary values"""
    inf, nan = float("inf"), float("nan")
    one, S = bits(fmt, 1.0), 1 << (fmt - 1)
    mw = 23 if fmt == 32 else 52
    mags = [0, bits(fmt, inf), one, one - 1, one + 1, 1, 1 << mw, (1 << mw) - 1, bits(fmt, inf) - 1,
            bits(fmt, 0.5), bits(fmt, 2.0), bits(fmt, 3.0), bits(fmt, 1.5), bits(fmt, 2.5), bits(fmt, 100.0),
            bits(fmt, 1e-8), bits(fmt, 1e-30), bits(fmt, 1e10)]
    pts = [bits(fmt, nan)]
    for m in mags:
        pts += [m, m | S]
    return pts


def point_requests():
    reqs = []
    for fmt in (32, 64):
        P = special_points(fmt)
        for n in UNARY:
            for x in P:
                reqs.append((n, fmt, x, None))
        P2 = P[:11] + P[17:23]
        for n in BINARY:
            for x in P2:
                for y in P2:
                    reqs.append((n, fmt, x, y))
    return reqs


def measure_points(exe, reqs):
    lines = [f"{n} {fmt} {x} {x} 1" + ("" if y is None else f" {y}") for (n, fmt, x, y) in reqs]
    out = []
    i = 0
    while i < len(lines):   # the tool dies on an argument it cannot survive: record and resume after it
        r = subprocess.run([exe], input="\n".join(lines[i:]) + "\n", capture_output=True, text=True, timeout=600)
        got = [l for l in r.stdout.splitlines() if "max_ulp=" in l]
        out += got
        i += len(got)
        if i < len(lines):
            out.append("CRASH")
            i += 1
    res = []
    for (n, fmt, x, y), l in zip(reqs, out):
        e = {"name": n, "fmt": fmt, "x": x}
        if y is not None:
            e["y"] = y
        if l == "CRASH":
            e["crash"] = True
        else:
            kv = dict(t.split("=", 1) for t in l.split()[2:])
            e.update({"max_ulp": float(kv["max_ulp"]), "special": int(kv["special"]), "got": kv.get("got"), "want": kv.get("want")})
        res.append(e)
    return res


def main():
    """no argument: measure everything; `--only f1,f2,...`: re-measure these functions only (cells, near-cells and
    points) and merge into the existing table; `--near`: (re)measure only the near-2^k / threshold cells of every function"""
    only = None
    near_only = "--near" in sys.argv
    if "--only" in sys.argv:
        only = set(sys.argv[sys.argv.index("--only") + 1].split(","))
    path = os.path.join(HERE, "approx_bounds.json")
    old = json.load(open(path)) if (only or near_only) and os.path.exists(path) else {"cells": [], "points": []}
    want = (lambda n: True) if only is None else (lambda n: n in only)
    with tempfile.TemporaryDirectory() as d:
        exe = build(d)
        if near_only:
            points = old["points"]
        else:
            reqs = [r for r in point_requests() if want(r[0])]
            points = [p for p in old["points"] if not want(p["name"])] + measure_points(exe, reqs)
        nbad = sum(1 for p in points if p.get("crash") or p.get("special") or p.get("max_ulp", 0) > 1000)
        print("points:", len(points), "recorded as inaccurate:", nbad, flush=True)
        if near_only:
            table = [c for c in old["cells"] if not c.get("near")]
        else:
            table = [c for c in old["cells"] if not want(c["name"])]
        for n in NAMES:
            if not want(n):
                continue
            for fmt in (32, 64):
                if not near_only:
                    for lo, hi, tag in cells(fmt):
                        m = measure(exe, n, fmt, lo, hi, COUNT)
                        m.update({"name": n, "fmt": fmt, "lo": lo, "hi": hi, "cell": tag})
                        table.append(m)
                        print(n, fmt, tag, {k: v for k, v in m.items() if k in ("max_ulp", "special", "crash")}, flush=True)
                if n in UNARY:
                    for lo, hi, tag in near_cells(fmt):
                        m = measure(exe, n, fmt, lo, hi, 5 if "near" in tag else 4000)
                        m.update({"name": n, "fmt": fmt, "lo": lo, "hi": hi, "cell": tag, "near": 1})
                        table.append(m)
                        if m.get("special") or m.get("max_ulp", 0) > 1000 or "crash" in m:
                            print(n, fmt, tag, {k: v for k, v in m.items() if k in ("max_ulp", "special", "crash")}, flush=True)
    json.dump({"count": COUNT, "cells": table, "points": points}, open(path, "w"), indent=0)


if __name__ == "__main__":
    sys.exit(main())
