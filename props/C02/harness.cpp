// C02 harness (own legs): (a) "never calls a dynamic allocator": global operator new/delete and
// malloc-family interposers count allocations while a battery of library operations runs on caller-provided
// and inline storage only; (b) default-initialised objects: placement-new WITHOUT initialiser over storage
// pre-filled with 0xFF, then the observers must report the empty state (reads no indeterminate value);
// (c) `noalloc_ce`: the constexpr-capable batteries are additionally evaluated by GCC's constant evaluator at
// compile time (static_assert below): undefined behaviour inside a constant expression -- out-of-bounds access also
// INSIDE an object (which ASan cannot see), read of an uninitialised value, signed overflow -- makes this
// translation unit ill-formed, i.e. the harness no longer builds.
#include "common.hpp"

#include <cmath>
#include <cstdlib>
#include <new>

#include <etl/algorithm.hpp>
#include <etl/array.hpp>
#include <etl/bit.hpp>
#include <etl/bitset.hpp>
#include <etl/cctype.hpp>
#include <etl/charconv.hpp>
#include <etl/chrono.hpp>
#include <etl/cstdlib.hpp>
#include <etl/cstring.hpp>
#include <etl/cwchar.hpp>
#include <etl/expected.hpp>
#include <etl/flat_set.hpp>
#include <etl/functional.hpp>
#include <etl/inplace_vector.hpp>
#include <etl/iterator.hpp>
#include <etl/mdarray.hpp>
#include <etl/mdspan.hpp>
#include <etl/memory.hpp>
#include <etl/numeric.hpp>
#include <etl/optional.hpp>
#include <etl/set.hpp>
#include <etl/span.hpp>
#include <etl/stack.hpp>
#include <etl/string.hpp>
#include <etl/string_view.hpp>
#include <etl/strings.hpp>
#include <etl/tuple.hpp>
#include <etl/utility.hpp>
#include <etl/variant.hpp>
#include <etl/vector.hpp>

static volatile bool g_count_allocs = false;
static volatile long g_allocs       = 0;

#if !defined(C02_SAN)   // the sanitizer variant keeps ASan's own allocator: the batteries run under ASan+UBSan instead
void* operator new(std::size_t n)
{
    if (g_count_allocs) { g_allocs = g_allocs + 1; }
    void* p = std::malloc(n == 0 ? 1 : n);
    if (p == nullptr) { std::abort(); }
    return p;
}
void* operator new[](std::size_t n) { return operator new(n); }
void operator delete(void* p) noexcept { std::free(p); }
void operator delete[](void* p) noexcept { std::free(p); }
void operator delete(void* p, std::size_t) noexcept { std::free(p); }
void operator delete[](void* p, std::size_t) noexcept { std::free(p); }

extern "C" void* __libc_malloc(std::size_t);
extern "C" void* __libc_calloc(std::size_t, std::size_t);
extern "C" void* __libc_realloc(void*, std::size_t);
extern "C" void* malloc(std::size_t n)
{
    if (g_count_allocs) { g_allocs = g_allocs + 1; }
    return __libc_malloc(n);
}
extern "C" void* calloc(std::size_t a, std::size_t b)
{
    if (g_count_allocs) { g_allocs = g_allocs + 1; }
    return __libc_calloc(a, b);
}
extern "C" void* realloc(void* p, std::size_t n)
{
    if (g_count_allocs) { g_allocs = g_allocs + 1; }
    return __libc_realloc(p, n);
}
#endif

using namespace vh;

struct NonTrivial {
    int v{0};
    NonTrivial() = default;
    NonTrivial(int x) : v{x} { }   // NOLINT
    NonTrivial(NonTrivial const& o) noexcept : v{o.v} { }
    NonTrivial(NonTrivial&& o) noexcept : v{o.v} { }
    auto operator=(NonTrivial const& o) noexcept -> NonTrivial& { v = o.v; return *this; }
    auto operator=(NonTrivial&& o) noexcept -> NonTrivial& { v = o.v; return *this; }
    ~NonTrivial() { v = -1; }
    friend bool operator==(NonTrivial const& a, NonTrivial const& b) { return a.v == b.v; }
    friend bool operator<(NonTrivial const& a, NonTrivial const& b) { return a.v < b.v; }
};

static long long g_sink = 0;

// element type whose copy constructor throws on demand and which keeps a registry of the addresses that hold a live object:
// a destructor (or an assignment) on an address that holds no live object aborts
struct Thrower {
    static inline void const* live[256] = {};
    static inline int n_live            = 0;
    static inline int countdown         = -1;   // the (countdown+1)-th copy construction from now on throws; -1: never
    static void reg(void const* p) { live[n_live++] = p; }
    static void unreg(void const* p)
    {
        for (int i = 0; i < n_live; ++i) {
            if (live[i] == p) { live[i] = live[--n_live]; return; }
        }
        std::abort();   // destroying / assigning storage that holds no live object
    }
    static bool is_live(void const* p)
    {
        for (int i = 0; i < n_live; ++i) { if (live[i] == p) { return true; } }
        return false;
    }
    int v{0};
    Thrower() { reg(this); }
    Thrower(int x) : v{x} { reg(this); }   // NOLINT
    Thrower(Thrower const& o) : v{o.v}
    {
        if (countdown >= 0 && countdown-- == 0) { throw 42; }
        reg(this);
    }
    Thrower(Thrower&& o) : v{o.v}   // a move construction counts (and throws) like a copy construction
    {
        if (!is_live(&o)) { std::abort(); }
        if (countdown >= 0 && countdown-- == 0) { throw 42; }
        reg(this);
    }
    auto operator=(Thrower const& o) -> Thrower&
    {
        if (!is_live(this) || !is_live(&o)) { std::abort(); }
        v = o.v;
        return *this;
    }
    ~Thrower() { unreg(this); }
};

// copy / move construction and copy / move assignment whose element construction throws part-way: afterwards the target must
// hold exactly size() live objects (so that its destructor, clear() or the next assignment never touches dead storage), the
// source holds size() live objects; mode 0 copy construction, 1 copy assignment, 2 move construction, 3 move assignment
template <typename Vec>
static void throwing_scenario(Out& impl, int mode, int target_elems, int source_elems, int countdown)
{
    bool const assign = (mode == 1 || mode == 3);
    bool const moving = (mode == 2 || mode == 3);
    Thrower::n_live    = 0;
    Thrower::countdown = -1;
    bool threw = false;
    {
        Vec src{};   // value-initialised: a default-initialised inplace_vector has an indeterminate size (known finding)
        for (int i = 0; i < source_elems; ++i) { if constexpr (requires { src.try_emplace_back(1); }) { (void)src.try_emplace_back(i + 1); } else { (void)src.emplace_back(i + 1); } }
        if (assign) {
            Vec dst{};
            for (int i = 0; i < target_elems; ++i) { if constexpr (requires { dst.try_emplace_back(1); }) { (void)dst.try_emplace_back(100 + i); } else { (void)dst.emplace_back(100 + i); } }
            Thrower::countdown = countdown;
            try { if (moving) { dst = etl::move(src); } else { dst = src; } } catch (int) { threw = true; }
            Thrower::countdown = -1;
            int live_in_dst = 0;
            for (auto const& x : dst) { live_in_dst += Thrower::is_live(&x) ? 1 : 0; }
            int live_in_src = 0;
            for (auto const& x : src) { live_in_src += Thrower::is_live(&x) ? 1 : 0; }
            impl.tok("ok").b(threw).b(live_in_dst == static_cast<int>(dst.size()) && live_in_src == static_cast<int>(src.size())).b(Thrower::n_live == static_cast<int>(dst.size() + src.size()));
            dst.clear();
            dst = src;   // the object is still usable
        } else {
            Thrower::countdown = countdown;
            try {
                Vec dst{moving ? Vec{etl::move(src)} : Vec{src}};   // guaranteed elision: exactly one construction
                Thrower::countdown = -1;
                impl.tok("ok").b(false).b(true).b(Thrower::n_live == static_cast<int>(dst.size() + src.size()));
            } catch (int) {
                threw = true;
                Thrower::countdown = -1;
                impl.tok("ok").b(true).b(true).b(Thrower::n_live == static_cast<int>(src.size()));
            }
        }
    }
    impl.b(Thrower::n_live == 0);   // everything constructed was destroyed exactly once
}

static constexpr int free_twice(int x) { return 2 * x; }
struct Acc {
    int base{0};
    constexpr auto add(int x) const -> int { return base + x; }
};

// range-guarded iterators: stepping past the end of the range (or before its beginning), or dereferencing at the end, calls
// a non-constexpr function: at run time that aborts (the case is reported as `crash 6`), inside a constant expression it makes
// the evaluation ill-formed (variant ce)
[[noreturn]] inline void iterator_left_its_range() { std::abort(); }
template <bool Bidi>
struct GuardIt {
    using value_type        = int;
    using difference_type   = etl::ptrdiff_t;
    using reference         = int&;
    using pointer           = int*;
    using iterator_category = etl::conditional_t<Bidi, etl::bidirectional_iterator_tag, etl::forward_iterator_tag>;
    int* p{nullptr};
    int* lo{nullptr};
    int* hi{nullptr};
    constexpr auto operator*() const -> int& { if (p == hi || p == nullptr) { iterator_left_its_range(); } return *p; }
    constexpr auto operator++() -> GuardIt& { if (p == hi) { iterator_left_its_range(); } ++p; return *this; }
    constexpr auto operator++(int) -> GuardIt { auto t = *this; ++(*this); return t; }
    constexpr auto operator--() -> GuardIt& requires(Bidi) { if (p == lo) { iterator_left_its_range(); } --p; return *this; }
    constexpr auto operator--(int) -> GuardIt requires(Bidi) { auto t = *this; --(*this); return t; }
    friend constexpr auto operator==(GuardIt const& a, GuardIt const& b) -> bool { return a.p == b.p; }
};

// ---- batteries that are also constant expressions: every one is run (i) at run time under the allocation counter
// and (ii) by the constant evaluator (static_assert at the end of the file) --------------------------------------
namespace ce {

constexpr auto vec(int seed) -> long long
{
    etl::static_vector<int, 8> v;
    for (int i = 0; i < 8; ++i) { v.push_back(seed + i); }   // exactly full
    v.erase(v.begin() + 2, v.begin() + 4);
    v.insert(v.begin() + 1, 2, 7);                           // exactly full again
    v.pop_back();
    v.insert(v.end(), 1, 9);
    v.resize(3);
    auto w = v;
    w.swap(v);
    etl::static_vector<int, 0> z;
    return static_cast<long long>(v.size() + w.size() + z.size()) + v.front() + w.back();
}

constexpr auto str(int seed) -> long long
{
    etl::inplace_string<15> s{"abc"};        // tiny layout: the size lives in the last character
    s.append("defgh");
    s.insert(2, "xy");
    s.erase(1, 2);
    s.push_back(static_cast<char>('a' + (seed % 20)));
    s.append(7, 'z');                        // reaches capacity 15 exactly
    auto const full = s.size();
    s.resize(4);
    etl::inplace_string<16> t{"hello world"};   // normal layout
    t.append(5, '!');                        // reaches capacity 16 exactly
    t.replace(0, 1, "J");
    t.pop_back();
    auto const u = t.substr(6, 100);
    // inserts that exceed the capacity are clamped (append clamps; the rotation must use the clamped end)
    etl::inplace_string<15> near{"abcdefghijklmn"};   // 14 of 15
    near.insert(2, "xyz");                            // only one character fits
    etl::inplace_string<16> near2{"abcdefghijklmnop"};   // full, normal layout
    near2.insert(0, "q");                             // nothing fits
    near2.insert(16, "r");
    etl::inplace_string<20> near3{"0123456789abcdefgh"};  // 18 of 20
    near3.insert(5, 7, '!');                          // two fit
    return static_cast<long long>(near.size() + near2.size() + near3.size() + full + s.size() + t.size() + u.size() + t.find("wor") + t.rfind('o') + t.find_first_of("xyz!"))
         + s.compare(t) + (t.starts_with("Jello") ? 1 : 0) + (t.ends_with('!') ? 1 : 0);
}

constexpr auto view(int seed) -> long long
{
    // NOT null-terminated, the view ends with the array: a one-past read is an out-of-bounds read of the array
    char const raw[] = {'t', 'h', 'e', ' ', 'q', 'u', 'i', 'c', 'k', ' ', 'f', 'o', 'x', 'f', 'o'};
    etl::string_view h{raw, sizeof raw};
    etl::string_view e{};
    auto const n = etl::string_view{raw + 10, 3};   // "fox"
    long long acc = 0;
    acc += static_cast<long long>(h.find(n) + h.find("fo", 11) + h.rfind("fo") + h.find('x', static_cast<etl::size_t>(seed % 15)));
    acc += static_cast<long long>(h.find_first_of("xq") + h.find_last_of("t") + h.find_first_not_of("the ") + h.find_last_not_of("fo"));
    acc += static_cast<long long>(h.find("fox!") == etl::string_view::npos ? 1 : 0);   // needle runs past the end
    acc += static_cast<long long>(e.find("a") == etl::string_view::npos ? 1 : 0) + static_cast<long long>(e.rfind("") );
    acc += static_cast<long long>(e.find_last_of("a") == etl::string_view::npos ? 1 : 0);
    acc += static_cast<long long>(e.find_last_not_of("a") == etl::string_view::npos ? 1 : 0);
    acc += h.substr(13).compare("fo") + h.compare(10, 3, n) + (h.starts_with("the") ? 1 : 0) + (h.ends_with("xfo") ? 1 : 0);
    acc += static_cast<long long>(h.substr(15).size() + h.substr(4, 5).size());
    // positions at and beyond size() on a view that ends with its array: data()[size()] does not exist
    acc += static_cast<long long>(h.rfind('o', h.size()) + h.rfind('q', etl::string_view::npos) + h.rfind("o", h.size()));
    acc += static_cast<long long>(h.find_last_of('o', h.size()) + h.find_last_not_of('o', h.size()) + h.find_last_of("fo", 15));
    acc += static_cast<long long>(h.find('t', h.size()) == etl::string_view::npos ? 1 : 0) + static_cast<long long>(h.find_first_of('o', 15) == etl::string_view::npos ? 1 : 0);
    acc += static_cast<long long>(e.rfind('a', 0) == etl::string_view::npos ? 1 : 0);
    return acc;
}

constexpr auto algo(int seed) -> long long
{
    int a[8] = {5, 3, 8, 1, 9, 2, 7, seed};
    etl::sort(a, a + 8);
    etl::rotate(a, a + 3, a + 8);
    etl::stable_sort(a, a + 8);
    auto* p = etl::lower_bound(a, a + 8, 5);
    etl::reverse(a, a + 8);
    etl::shift_left(a, a + 8, 3);
    etl::shift_right(a, a + 8, 2);
    auto* q  = etl::remove_if(a, a + 8, [](int x) { return x % 2 == 0; });
    auto* u  = etl::unique(a, q);
    auto* pp = etl::partition(a, u, [](int x) { return x > 4; });
    // EMPTY ranges through forward-only and bidirectional iterators, with positive n: nothing may be stepped or read
    {
        int g[4] = {1, 2, 3, 4};
        using F = GuardIt<false>;
        using B = GuardIt<true>;
        auto fe = F{g + 4, g, g + 4};     // the empty range at the very end of the array
        auto be = B{g + 4, g, g + 4};
        auto f0 = F{g, g, g};             // the empty range at its beginning
        auto b0 = B{g, g, g};
        (void)etl::shift_left(fe, fe, 2);
        (void)etl::shift_left(be, be, 1);
        (void)etl::shift_left(f0, f0, 3);
        (void)etl::shift_right(be, be, 2);
        (void)etl::shift_right(b0, b0, 1);
        (void)etl::rotate(fe, fe, fe);
        (void)etl::rotate(be, be, be);
        etl::reverse(be, be);
        etl::reverse(b0, b0);
        (void)etl::remove_if(fe, fe, [](int x) { return x > 0; });
        (void)etl::unique(fe, fe);
        (void)etl::partition(fe, fe, [](int x) { return x > 0; });
        etl::fill(fe, fe, 0);
        (void)etl::swap_ranges(fe, fe, f0);
        // and non-empty ranges that end with the array
        auto f2 = F{g + 2, g, g + 4};
        (void)etl::shift_left(f2, fe, 1);
        (void)etl::shift_left(f2, fe, 2);
        (void)etl::shift_left(f2, fe, 5);
        auto b2 = B{g + 1, g, g + 4};
        (void)etl::shift_right(b2, be, 1);
        (void)etl::shift_right(b2, be, 7);
        (void)etl::rotate(f2, F{g + 3, g, g + 4}, fe);
        etl::reverse(b2, be);
    }
    int e[1] = {0};
    etl::sort(e, e);                  // empty ranges
    etl::exchange_sort(e, e);
    etl::rotate(e, e, e);
    etl::reverse(e, e);
    return (p - a) + (q - a) + (u - a) + (pp - a) + etl::accumulate(a, a + 8, 0) + *etl::max_element(a, a + 8);
}

constexpr auto algo2(int seed) -> long long
{
    int a[6]  = {1, 2, 2, 5, 7, 9};
    int b[4]  = {2, 5, seed, 11};
    int o[10] = {};
    etl::sort(b, b + 4);
    long long acc = 0;
    acc += etl::find(a, a + 6, 5) - a;
    acc += etl::search(a, a + 6, b, b + 1) - a;
    acc += etl::find_end(a, a + 6, b, b + 1) - a;
    acc += etl::adjacent_find(a, a + 6) - a;
    acc += etl::count(a, a + 6, 2);
    acc += etl::equal(a, a + 4, b, b + 4) ? 1 : 0;
    acc += etl::lexicographical_compare(a, a + 6, b, b + 4) ? 1 : 0;
    acc += etl::mismatch(a, a + 4, b).first - a;
    acc += etl::binary_search(a, a + 6, 7) ? 1 : 0;
    acc += etl::upper_bound(a, a + 6, 2) - a;
    acc += etl::equal_range(a, a + 6, 2).second - a;
    acc += etl::includes(a, a + 6, b, b + 1) ? 1 : 0;
    acc += etl::merge(a, a + 6, b, b + 4, o) - o;                      // exact fit: 10
    acc += etl::set_union(a, a + 6, b, b + 4, o) - o;
    acc += etl::set_intersection(a, a + 6, b, b + 4, o) - o;
    acc += etl::set_difference(a, a + 6, b, b + 4, o) - o;
    acc += etl::set_symmetric_difference(a, a + 6, b, b + 4, o) - o;
    acc += etl::is_permutation(a, a + 6, a) ? 1 : 0;
    acc += etl::min_element(a, a + 6) - a;
    acc += etl::minmax_element(a, a + 6).second - a;
    acc += etl::is_sorted_until(b, b + 4) - b;
    acc += etl::inner_product(a, a + 4, b, 0);
    etl::partial_sum(a, a + 6, o);
    etl::adjacent_difference(a, a + 6, o + 4);                         // ends exactly at o + 10
    etl::iota(o, o + 10, seed);
    etl::copy_n(a, 6, o + 4);                                          // exact fit
    etl::copy_backward(a, a + 6, o + 10);
    etl::fill_n(o, 10, 1);
    etl::inplace_merge(a, a + 3, a + 6);
    etl::nth_element(o, o + 5, o + 10);
    etl::partial_sort(o, o + 3, o + 10);
    etl::stable_partition(o, o + 10, [](int x) { return x > 0; });
    etl::rotate_copy(a, a + 2, a + 6, o);
    etl::reverse_copy(a, a + 6, o + 4);
    etl::swap_ranges(a, a + 4, b);
    etl::transform(a, a + 4, b, o, [](int x, int y) { return x + y; });
    acc += etl::gcd(seed + 12, 18) + etl::lcm(4, 6) + etl::midpoint(seed, 100);
    return acc + o[9];
}

constexpr auto conv(int seed) -> long long
{
    long long acc = 0;
    char exact[11] = {};                      // "-2147483648": exact fit, no room for a terminator
    auto r = etl::to_chars(exact, exact + 11, -2147483647 - 1, 10);
    acc += r.ptr - exact;
    int back = 0;
    auto f = etl::from_chars(exact, r.ptr, back, 10);
    acc += (f.ptr - exact) + (back == -2147483647 - 1 ? 1 : 0);
    char small[3] = {};
    auto r2 = etl::to_chars(small, small + 3, 1000 + seed, 10);   // does not fit
    acc += r2.ptr - small;
    auto r3 = etl::to_chars(small, small, 7, 10);                 // empty buffer
    acc += r3.ptr - small;
    char hex[16] = {};
    auto r4 = etl::to_chars(hex, hex + 16, 0xFFFFFFFFFFFFFFFFULL, 16);   // exact fit
    acc += r4.ptr - hex;
    unsigned char uc = 0;
    auto f2 = etl::from_chars(hex, r4.ptr, uc, 16);               // overflow detected, no signed overflow
    acc += static_cast<long long>(f2.ec == etl::errc{} ? 1 : 0);
    auto ti = etl::strings::to_integer<int>(etl::string_view{"  -123x", 7}, 10);
    acc += ti.value;
    auto ti2 = etl::strings::to_integer<signed char>(etl::string_view{"999", 3}, 10);
    acc += static_cast<long long>(ti2.error == etl::strings::to_integer_error::none ? 1 : 0);
    char fi[4] = {};
    auto fr = etl::strings::from_integer(-12, fi, 4, 10);         // exact fit with terminator
    acc += static_cast<long long>(fr.error == etl::strings::from_integer_error::none ? 1 : 0);
    char one[1] = {};
    auto fz = etl::strings::from_integer(0, one, 1, 10);          // "0" + terminator does not fit: nothing behind one[0]
    acc += static_cast<long long>(fz.error == etl::strings::from_integer_error::none ? 1 : 0);
    auto fz0 = etl::strings::from_integer(seed, one, 0, 10);      // length 0
    acc += static_cast<long long>(fz0.error == etl::strings::from_integer_error::none ? 1 : 0);
    char two[2] = {};
    auto fz2 = etl::strings::from_integer(0, two, 2, 10);         // exact fit
    acc += static_cast<long long>(fz2.error == etl::strings::from_integer_error::none ? 1 : 0);
    auto tz = etl::to_chars(one, one + 1, 0, 10);                 // "0" fits exactly, no terminator
    acc += tz.ptr - one;
    auto tz9 = etl::to_chars(one, one + 1, 10 + seed, 10);        // does not fit
    acc += tz9.ptr - one;
    return acc;
}

constexpr auto sets(int seed) -> long long
{
    etl::static_set<int, 4> s;
    s.insert(3); s.insert(1); s.insert(seed); s.insert(3); s.insert(9); s.insert(11);   // full: the last ones are refused
    s.erase(1);
    etl::flat_set<int, etl::static_vector<int, 4>> f;
    f.insert(4); f.insert(2); f.insert(4); f.insert(8);
    f.erase(2);
    long long acc = static_cast<long long>(s.size() + f.size()) + (s.contains(3) ? 1 : 0) + (f.contains(8) ? 1 : 0);
    acc += static_cast<long long>(s.count(7) + f.count(4));
    auto it = s.lower_bound(4);
    acc += (it == s.end()) ? 0 : *it;
    return acc;
}

constexpr auto sum(int seed) -> long long
{
    etl::optional<int> o;
    o.emplace(4);
    auto o2 = o;
    o.reset();
    etl::variant<int, long, char> v{1};
    v = 2L;
    v.emplace<0>(seed);
    auto vv = v;
    etl::expected<int, char> e{etl::in_place, 3};
    etl::expected<int, char> g{etl::unexpect, 'x'};
    auto tmp = e;
    e        = g;
    g        = tmp;
    g.emplace(seed);
    long long acc = static_cast<long long>(v.index() + vv.index()) + o2.value_or(0) + o.value_or(5);
    acc += e.has_value() ? *e : static_cast<long long>(e.error());
    acc += g.value_or(0);
    acc += etl::visit([](auto x) { return static_cast<long long>(x); }, vv);
    return acc;
}

constexpr auto bits(int seed) -> long long
{
    etl::bitset<70> b;
    b.set(69);
    b.flip();
    b &= ~etl::bitset<70>{0x0FULL};
    b ^= etl::bitset<70>{static_cast<unsigned long long>(seed)};
    b.reset(static_cast<etl::size_t>(seed % 70));
    etl::bitset<64> c{0xF0F0F0F0F0F0F0F0ULL};
    etl::bitset<8> d{etl::string_view{"10110"}};
    long long acc = static_cast<long long>(b.count() + c.count() + d.count()) + (b.test(0) ? 1 : 0) + (c[63] ? 1 : 0);
    acc += static_cast<long long>(c.to_ullong() & 0xFFU);
    acc += etl::popcount(static_cast<unsigned>(seed)) + etl::countl_zero(1U) + etl::countr_zero(8U);
    acc += static_cast<long long>(etl::bit_ceil(5U) + etl::bit_floor(5U) + etl::bit_width(255U) + etl::rotl(static_cast<unsigned char>(0x81), -9));
    acc += static_cast<long long>(etl::byteswap(static_cast<etl::uint16_t>(0x1234)));
    acc += static_cast<long long>(etl::add_sat(2147483647, seed)) + etl::saturate_cast<signed char>(300) + (etl::cmp_less(-1, 1U) ? 1 : 0);
    return acc;
}

constexpr auto views(int seed) -> long long
{
    int arr[12] = {1, 2, 3, 4, 5, 6, 7, 8, 9, 10, 11, 12};
    etl::span<int> sp{arr};
    auto sub  = sp.subspan(1, 2);
    auto last = sp.last(12);                 // the whole span
    auto none = sp.subspan(12);              // empty, at the end
    auto fst  = sp.first<3>();
    // static extent: the templated sub-views end with the array; iterating them inside a constant expression reads only arr
    etl::span<int, 12> st{arr};
    auto tail = st.subspan<9>();             // span<int, 3> over arr[9..11]
    auto mid  = st.subspan<2, 3>();
    auto l4   = st.last<4>();
    auto f12  = st.first<12>();
    auto zero = st.subspan<12>();            // span<int, 0> at the end
#if defined(C02_CE)   // a wrong extent of the result type breaks only variant ce; the run-time observation is op sspan (sub.cpp)
    static_assert(decltype(tail)::extent == 3 && decltype(mid)::extent == 3 && decltype(l4)::extent == 4 && decltype(zero)::extent == 0);
#endif
    long long st_acc = static_cast<long long>(tail.size() + mid.size() + l4.size() + f12.size() + zero.size());
    for (auto x : tail) { st_acc += x; }
    for (auto x : l4) { st_acc += x; }
    for (auto x : zero) { st_acc += x; }
    st_acc += tail.back() + mid.front() + f12.back() + l4[3];
    etl::mdspan<int, etl::extents<int, 3, 4>> m{arr};
    etl::mdspan<int, etl::dextents<int, 2>, etl::layout_left> ml{arr, 4, 3};
    long long acc = static_cast<long long>(sub.size() + last.size() + none.size() + fst.size());
    acc += m(2, 3) + ml(3, 2) + m(seed % 3, seed % 4);       // the last element of the buffer through both layouts
    acc += static_cast<long long>(m.size() + m.extent(1) + m.mapping().required_span_size());
    acc += sp.front() + sp.back() + sp[11];
    return acc + st_acc;
}

constexpr auto wrap(int seed) -> long long
{
    etl::pair<int, long> p{seed, 2L};
    auto q = p;
    q.swap(p);
    etl::tuple<int, char, long> t{1, 'a', 3L};
    auto t2 = t;
    auto const s = etl::apply([](int a, char b, long c) { return static_cast<long long>(a) + b + c; }, t2);
    auto cat     = etl::tuple_cat(t, etl::tuple<int>{4});
    int x        = 5;
    auto r       = etl::ref(x);
    r.get()      = 6;
    auto nf      = etl::not_fn([](int y) { return y > 3; });
    Acc acc_obj{3};
    long long acc = s + etl::get<3>(cat) + x + (nf(2) ? 1 : 0) + etl::invoke(&Acc::add, acc_obj, 4);
    acc += etl::get<0>(p) + static_cast<long long>(etl::get<1>(q)) + etl::exchange(x, 1) + etl::invoke(free_twice, 2);
    return acc;
}

constexpr auto chrono(int seed) -> long long
{
    namespace ch = etl::chrono;
    auto ms  = ch::milliseconds{2500 + seed};
    auto s   = ch::duration_cast<ch::seconds>(ms);
    auto f   = ch::floor<ch::seconds>(-ms);
    auto c   = ch::ceil<ch::seconds>(ms);
    auto r   = ch::round<ch::seconds>(ms);
    auto h   = ch::hours{2} + ch::minutes{30} - ch::seconds{5};
    auto ymd = ch::year_month_day{ch::year{2024}, ch::month{2}, ch::day{29}};
    auto sd  = ch::sys_days{ymd};
    auto back = ch::year_month_day{sd + ch::days{seed}};
    auto lo   = ch::year_month_day{ch::sys_days{ch::days{-12687428}}};   // first supported day
    auto wd   = ch::weekday{sd};
    auto ym   = ch::year{2020} / ch::month{12} + ch::months{1 + seed};
    long long acc = s.count() + f.count() + c.count() + r.count() + h.count();
    acc += static_cast<int>(back.year()) + static_cast<unsigned>(back.month()) + static_cast<unsigned>(back.day());
    acc += static_cast<int>(lo.year()) + static_cast<long long>(wd.c_encoding()) + static_cast<int>(ym.year());
    acc += (ymd.ok() ? 1 : 0) + (ch::year{1900}.is_leap() ? 1 : 0) + (ms < ch::seconds{3} ? 1 : 0);
    return acc;
}

// cstr.hpp on arrays that are exactly as large as the C standard requires: inside a constant expression a read behind
// the terminator or a store behind the destination is out of the array's bounds, also when the array is a member or
// has a neighbour on the stack
constexpr auto cstr(int seed) -> long long
{
    char dst[7] = {};                    // "abcdef" + terminator: exact fit
    etl::strcpy(dst, "abc");
    etl::strcat(dst, "def");
    char const* cdst = dst;
    char small[3] = {};
    etl::strncpy(small, dst, 3);         // exactly 3 characters, no terminator written
    char pad[5] = {'x', 'x', 'x', 'x', 'x'};
    etl::strncpy(pad, "ab", 5);          // pads with nulls up to exactly 5
    char cat[6] = {'a', 'b', 0, 'x', 'x', 'x'};
    etl::strncat(cat, "cdefgh", 3);      // "abcde" + terminator: exact fit
    long long acc = static_cast<long long>(etl::strlen(cdst)) + etl::strcmp(cdst, "abcdeg") + etl::strncmp(small, "abd", 3);
    acc += (etl::strchr(cdst, 'f') - cdst) + (etl::strrchr(cdst, 0) - cdst) + (etl::strstr(cdst, "ef") - cdst);
    acc += static_cast<long long>(etl::strspn(cdst, "abc") + etl::strcspn(cdst, "f")) + (etl::strpbrk(cdst, "xe") - cdst);
    acc += (etl::strchr(cdst, 'q') == nullptr ? 1 : 0) + (etl::strstr(cdst, "fg") == nullptr ? 1 : 0) + (etl::strstr(cdst, "") - cdst);
    acc += etl::strncmp(cat, "abcde", 6) + pad[4] + small[2];
    wchar_t wd[4] = {};
    etl::wcscpy(wd, L"ab");
    etl::wcscat(wd, L"c");
    wchar_t const* cwd = wd;
    acc += static_cast<long long>(etl::wcslen(cwd)) + etl::wcscmp(cwd, L"abd") + (etl::wcschr(cwd, L'c') - cwd) + (etl::wcsstr(cwd, L"bc") - cwd);
    acc += etl::isalpha('a' + (seed % 26)) + etl::tolower('A') + etl::isdigit(0xFF) + etl::isspace(-1) + etl::toupper('z');
    return acc;
}

// default-INITIALISED (not value-initialised) objects inside a constant expression: reading a member that has no
// initialiser is not a constant expression (the constant evaluator is exact about indeterminate values).
// inplace_vector is not here: its size member has no initialiser (known finding KF-C02-inplace-vector-...).
constexpr auto dflt(int seed) -> long long
{
    etl::static_vector<int, 4> v;
    etl::inplace_string<7> s7;
    etl::inplace_string<16> s16;
    etl::string_view sv;
    etl::span<int> sp;
    etl::static_set<int, 4> ss;
    etl::flat_set<int, etl::static_vector<int, 4>> fs;
    etl::optional<int> o;
    etl::variant<int, long> va;
    etl::expected<int, int> ex;
    etl::bitset<70> b;
    etl::pair<int, long> p;
    etl::tuple<int, long> t;
    etl::chrono::seconds d;
    etl::dextents<int, 2> e;
    etl::mdspan<int, etl::dextents<etl::size_t, 2>> md;
    long long acc = static_cast<long long>(v.size() + s7.size() + s16.size() + sv.size() + sp.size() + ss.size() + fs.size());
    acc += (o.has_value() ? 1 : 0) + static_cast<long long>(va.index()) + *etl::get_if<0>(&va) + (ex.has_value() ? *ex : -1);
    acc += static_cast<long long>(b.count()) + p.first + p.second + etl::get<0>(t) + etl::get<1>(t) + d.count();
    acc += e.extent(0) + e.extent(1) + static_cast<long long>(md.size()) + s7.c_str()[0] + s16.c_str()[0] + seed;
    return acc;
}

}   // namespace ce

// each battery returns a checksum so that nothing is optimised away; no std:: containers inside
static long long battery(int which, int seed)
{
    long long acc = 0;
    switch (which) {
    case 0: {   // static_vector, trivial and non-trivial storage
        acc += ce::vec(seed);
        etl::static_vector<NonTrivial, 4> n;
        n.emplace_back(1); n.emplace_back(2); n.insert(n.begin(), NonTrivial{3}); n.erase(n.begin());
        n.emplace_back(4); n.emplace_back(5);   // exactly full
        auto m = n;
        auto k = etl::move(m);
        n.clear();
        acc += static_cast<long long>(n.size() + k.size()) + k.back().v;
        break;
    }
    case 1: {   // inplace_vector
        etl::inplace_vector<NonTrivial, 4> v{};
        (void)v.try_emplace_back(seed); (void)v.try_push_back(NonTrivial{2}); v.pop_back();
        (void)v.try_emplace_back(3); (void)v.try_emplace_back(4); (void)v.try_emplace_back(5);
        auto* refused = v.try_emplace_back(6);   // full: nullptr
        auto c = v; auto m = etl::move(c);
        etl::inplace_vector<int, 2> t{};
        t.unchecked_push_back(1); (void)t.try_push_back(2); (void)t.try_push_back(3);
        auto t2 = t;
        etl::inplace_vector<int, 0> z{};
        acc += static_cast<long long>(v.size() + m.size() + t2.size() + z.size()) + (refused == nullptr ? 1 : 0);
        break;
    }
    case 2: acc += ce::str(seed); break;     // inplace_string on both sides of the small-layout boundary
    case 3: acc += ce::view(seed); break;    // string_view searches on a non-terminated array
    case 4: acc += ce::algo(seed); break;    // mutating algorithms on caller arrays
    case 5: acc += ce::conv(seed); break;    // charconv, to_integer, from_integer with exact-fit buffers
    case 6: {                                // sets
        acc += ce::sets(seed);
        etl::static_vector<int, 6> cont; cont.push_back(3); cont.push_back(1); cont.push_back(3);
        etl::flat_multiset<int, etl::static_vector<int, 6>> fm{cont};
        etl::static_set<NonTrivial, 3> sn;
        sn.insert(NonTrivial{2}); sn.insert(NonTrivial{1}); sn.insert(NonTrivial{2}); sn.erase(NonTrivial{1});
        acc += static_cast<long long>(fm.size() + sn.size());
        break;
    }
    case 7: {                                // optional / variant / expected, trivial and non-trivial
        acc += ce::sum(seed);
        etl::optional<NonTrivial> o; o.emplace(4); auto o2 = o; o.reset(); o = etl::move(o2);
        etl::variant<int, NonTrivial> v{1}; v = NonTrivial{2}; auto v2 = v; v.emplace<0>(seed); etl::swap(v, v2);
        etl::expected<NonTrivial, int> e{etl::in_place, 3}; etl::expected<NonTrivial, int> g{etl::unexpect, 7}; auto e3 = e; e = g; g = etl::move(e3);
        int target = 5; etl::optional<int&> ref{target}; *ref = 6;
        acc += static_cast<long long>(v.index() + v2.index()) + (o ? o->v : 0) + (e ? e->v : e.error()) + target;
        break;
    }
    case 8: acc += ce::algo2(seed); break;   // non-mutating, set, numeric algorithms with exact-fit outputs
    case 9: acc += ce::bits(seed); break;    // bitset, <bit>, saturation helpers
    case 10: acc += ce::views(seed); break;  // span, mdspan
    case 11: {                               // pair / tuple / callable wrappers
        acc += ce::wrap(seed);
        etl::inplace_function<int(int)> f{[seed](int x) { return x + seed; }};
        etl::inplace_function<int(int)> g{free_twice};
        NonTrivial cap{3};
        etl::inplace_function<int(int)> h{[cap](int x) { return x + cap.v; }};
        auto f2 = f; f = g; g = etl::move(h); f.swap(g); f.swap(f);
        etl::inplace_function<int(int)> empty{};
        empty = f2;
        etl::function_ref<int(int)> fr{free_twice};
        auto lam = [](int x) { return x - 1; };
        etl::function_ref<int(int)> fl{lam};
        auto bf = etl::bind_front([](int a, int b) { return a - b; }, 10);
        acc += f(1) + g(2) + f2(3) + empty(4) + fr(5) + fl(6) + (h ? 1 : 0) + bf(4);
        etl::tuple<NonTrivial, int> tn{NonTrivial{1}, 2}; auto tn2 = tn; tn = tn2;
        etl::pair<NonTrivial, NonTrivial> pn{NonTrivial{1}, NonTrivial{2}}; auto pn2 = etl::move(pn);
        acc += etl::get<0>(tn).v + pn2.second.v;
        break;
    }
    case 12: acc += ce::chrono(seed); break; // durations, rounding casts, calendar
    case 13: {                               // cstring / cctype / cstdlib / cwchar on exact-size arrays
        char dst[7];                         // "abcdef" + terminator: exact fit
        char const* cdst = dst;
        etl::strcpy(dst, "abc"); etl::strcat(dst, "def");
        char small[3]; etl::strncpy(small, dst, 3);   // no terminator written, none needed
        char mv[6] = {'a', 'b', 'c', 'd', 'e', 'f'};
        etl::memmove(mv + 1, mv, 5); etl::memmove(mv, mv + 2, 4); etl::memset(mv, 'z', 6);
        acc += static_cast<long long>(etl::strlen(dst)) + etl::strcmp(dst, "abcdeg") + etl::strncmp(small, "abd", 3)
             + (etl::strchr(dst, 'f') - dst) + (etl::strrchr(dst, 0) - dst) + (etl::strstr(cdst, "ef") - cdst)
             + static_cast<long long>(etl::strspn(dst, "abc") + etl::strcspn(dst, "f")) + (etl::strpbrk(cdst, "xe") - cdst)
             + (static_cast<char const*>(etl::memchr(mv, 'z', 6)) - mv) + etl::memcmp(mv, "zzzzzz", 6);
        wchar_t wd[4]; etl::wcscpy(wd, L"ab"); etl::wcscat(wd, L"c");
        acc += static_cast<long long>(etl::wcslen(wd)) + etl::wcscmp(wd, L"abd");
        acc += etl::isalpha('a' + (seed % 26)) + etl::tolower('A') + etl::isdigit(0xFF) + etl::isspace(-1);
        acc += etl::atoi("  42x") + etl::strtol("-0x1f", nullptr, 0) + etl::abs(-seed) + etl::div(7, -2).quot;
        acc += static_cast<long long>(etl::strtoul("99999999999999999999", nullptr, 10) & 0xFF);
        break;
    }
    case 14: {                               // stack, iterator adaptors, uninitialised-memory algorithms, array
        etl::stack<int, etl::static_vector<int, 4>> st; st.push(1); st.push(seed); st.pop();
        etl::array<int, 4> ar{1, 2, 3, 4};
        etl::static_vector<int, 4> out;
        etl::copy(ar.rbegin(), ar.rend(), etl::back_inserter(out));   // exactly full
        alignas(NonTrivial) unsigned char raw[sizeof(NonTrivial) * 3];
        auto* first = reinterpret_cast<NonTrivial*>(raw);
        NonTrivial src[3] = {NonTrivial{1}, NonTrivial{2}, NonTrivial{3}};
        etl::uninitialized_copy(src, src + 3, first);
        etl::destroy(first, first + 3);
        etl::uninitialized_fill(first, first + 3, NonTrivial{7});
        auto* one = etl::construct_at(first + 1, 9); acc += one->v; etl::destroy_at(first + 1); etl::construct_at(first + 1, 1);
        etl::destroy_n(first, 3);
        etl::mdarray<int, etl::extents<int, 2, 3>, etl::layout_right, etl::array<int, 6>> ma{};
        ma(1, 2) = seed;
        acc += static_cast<long long>(st.size() + out.size()) + out.back() + ar[3] + ma(1, 2) + static_cast<long long>(ma.size());
        break;
    }
    case 15: {                               // wide / 16 / 32-bit character strings, to_string, sto*
        etl::basic_inplace_string<wchar_t, 7> w{L"ab"}; w.append(5, L'x'); w.insert(1, L"");   // full, tiny layout
        etl::basic_inplace_string<char16_t, 20> u{u"hello"}; u.replace(1, 2, u"EE"); u.resize(20, u'!'); u.erase(3);
        auto ts = etl::to_string<12>(-2147483647 - 1);   // 11 characters + terminator region: fits exactly
        auto tu = etl::to_string<21>(18446744073709551615ULL);
        acc += static_cast<long long>(w.size() + u.size() + ts.size() + tu.size() + w.find(L'x') + u.rfind(u'l'));
        acc += etl::stoi(etl::inplace_string<16>{"  -77 "}) + static_cast<long long>(etl::stoul(etl::inplace_string<16>{"0x1F"}, nullptr, 16));
        // the floating-point readers / writers (to_floating_point, from_floating_point and their front ends)
        etl::inplace_string<8> full8{"12345.75"};   // full: data()[8] is the terminator, nothing behind it is the string's
        etl::size_t used = 0;
        acc += static_cast<long long>(etl::stod(full8, &used)) + static_cast<long long>(used);
        acc += static_cast<long long>(etl::stof(etl::inplace_string<4>{" 2.5"})) + static_cast<long long>(etl::strtod("3.5x", nullptr));
        acc += static_cast<long long>(etl::atof("7.25"));
        char fbuf[8];                               // "233.007" + terminator: exact fit
        auto fr = etl::strings::from_floating_point(233.007, etl::span<char>{fbuf}, 3);
        char tiny[2];
        auto fo = etl::strings::from_floating_point(static_cast<double>(seed) + 0.5, etl::span<char>{tiny}, 2);   // reports overflow
        acc += static_cast<long long>(fr.error == etl::strings::from_floating_point_error::none ? 1 : 0)
             + static_cast<long long>(fo.error == etl::strings::from_floating_point_error::overflow ? 1 : 0);
        break;
    }
    default: break;
    }
    return acc;
}
constexpr int n_batteries = 16;

// the constexpr batteries by number; ce_table holds their values as computed by the constant evaluator
constexpr int ce_count    = 14;
constexpr int ce_seeds[3] = {0, 1, 7};
constexpr auto ce_run(int which, int seed) -> long long
{
    switch (which) {
    case 0: return ce::vec(seed);
    case 1: return ce::str(seed);
    case 2: return ce::view(seed);
    case 3: return ce::algo(seed);
    case 4: return ce::algo2(seed);
    case 5: return ce::conv(seed);
    case 6: return ce::sets(seed);
    case 7: return ce::sum(seed);
    case 8: return ce::bits(seed);
    case 9: return ce::views(seed);
    case 10: return ce::wrap(seed);
    case 11: return ce::chrono(seed);
    case 12: return ce::dflt(seed);
    default: return ce::cstr(seed);
    }
}
#if defined(C02_CE)   // variant `ce` only: a battery that is UB for the constant evaluator makes THAT variant ill-formed,
                      // the other variants still build and run the same batteries at run time
#define C02_ROW(w) {ce_run(w, 0), ce_run(w, 1), ce_run(w, 7)}
constexpr long long ce_table[ce_count][3] = {C02_ROW(0), C02_ROW(1), C02_ROW(2), C02_ROW(3), C02_ROW(4), C02_ROW(5),
                                             C02_ROW(6), C02_ROW(7), C02_ROW(8), C02_ROW(9), C02_ROW(10), C02_ROW(11), C02_ROW(12), C02_ROW(13)};
#endif

template <typename T, typename F>
static void default_init_probe(Out& impl, F&& observe)
{
    alignas(alignof(T) > 16 ? alignof(T) : 16) unsigned char storage[sizeof(T) + 16];
#if !defined(C02_VG)   // variant vg runs under valgrind memcheck: the storage stays UNDEFINED there, so that a read of a
                       // member without initialiser is reported by memcheck instead of being made deterministic
    std::memset(storage, 0xFF, sizeof storage);
#endif
    T* p = ::new (static_cast<void*>(storage)) T;   // default-initialisation: no () and no {}
    impl.tok("ok");
    observe(impl, *p);
    // an object whose size member is indeterminate must not run its destructor (it would destroy size() elements)
    if constexpr (requires { p->size(); p->capacity(); }) {
        if (static_cast<unsigned long long>(p->size()) > static_cast<unsigned long long>(p->capacity())) { return; }
    }
    p->~T();
}

[[gnu::noinline]] static auto canary_load_double(void const* p) -> double { return *static_cast<double const*>(p); }

bool vh::run_case(std::string const& op, Toks& in, Out& impl, Out& ref)
{
    // the alignment leg (ops align / asdef) lives in align.cpp (variants al, alo2, alsan)
    if (op == "align" || op == "asdef") { impl.tok("skip"); return true; }
    // the sub-view / raw-storage leg (ops sspan / uninit) lives in sub.cpp (variants sb, sbo2, sbsan)
    if (op == "sspan" || op == "uninit") { impl.tok("skip"); return true; }
    if (op == "san_canary") {
        // the sanitizer build must abort on a deliberate misaligned load / constructor call / heap overflow (`crash 6`):
        // clean sanitizer runs of the batteries mean something only then; every other build skips the case
        auto what = in.str();
#if defined(C02_SAN) && !defined(C02_VG)
        alignas(16) static unsigned char bytes[32] = {};
        if (what == "align") { impl.tok("ok").tok("SANITIZER-BLIND").num(static_cast<i64>(canary_load_double(bytes + 1))); return true; }
        if (what == "construct") { auto* p = ::new (static_cast<void*>(bytes + 1)) NonTrivial(3); impl.tok("ok").tok("SANITIZER-BLIND").num(p->v); return true; }
        if (what == "heap") { auto* h = static_cast<char volatile*>(std::malloc(8)); h[8] = 1; impl.tok("ok").tok("SANITIZER-BLIND").num(h[8]); return true; }
        return false;
#else
        (void)what;
        impl.tok("skip");
        return true;
#endif
    }
    if (op == "noalloc") {
        auto which = static_cast<int>(in.num());
        auto seed  = static_cast<int>(in.num());
        if (which < 0 || which >= n_batteries) { return false; }
        g_allocs       = 0;
        g_count_allocs = true;
        g_sink += battery(which, seed);
        g_count_allocs = false;
        impl.tok("ok").tok("allocs").num(g_allocs);
        ref.tok("ok").tok("allocs").num(0);
        return true;
    }
    if (op == "noalloc_ce") {
        // the constexpr batteries: value computed by the constant evaluator == value computed at run time
        auto which = static_cast<int>(in.num());
        auto idx   = static_cast<int>(in.num());
        if (which < 0 || which >= ce_count || idx < 0 || idx >= 3) { return false; }
        g_allocs       = 0;
        g_count_allocs = true;
        auto const v   = ce_run(which, ce_seeds[idx]);
        g_count_allocs = false;
        g_sink += v;
        impl.tok("ok").tok("allocs").num(g_allocs);
#if defined(C02_CE)
        if (v != ce_table[which][idx]) { impl.tok("runtime").num(v).tok("consteval").num(ce_table[which][idx]); }
#endif
        ref.tok("ok").tok("allocs").num(0);
        return true;
    }
    if (op == "tofloat") {
        // to_floating_point on a view into an EXACT-SIZE heap buffer (no terminator, nothing behind the last character):
        // a read past the view that is also past the buffer is an ASan report in the san variant
        auto kind = in.str();
        auto cs   = in.list();
        auto off  = static_cast<std::size_t>(in.num());
        auto len  = static_cast<std::size_t>(in.num());
        if (off + len > cs.size()) { return false; }
        char* heap = cs.empty() ? nullptr : static_cast<char*>(std::malloc(cs.size()));
        for (std::size_t i = 0; i < cs.size(); ++i) { heap[i] = static_cast<char>(cs[i]); }
        auto const view = (heap == nullptr) ? etl::string_view{} : etl::string_view{heap + off, len};
        int err       = 0;
        long long end = 0;
        if (kind == "f") {
            auto r = etl::strings::to_floating_point<float>(view);
            err = static_cast<int>(r.error); end = r.end - view.data(); g_sink += static_cast<long long>(r.value);
        } else {
            auto r = etl::strings::to_floating_point<double>(view);
            err = static_cast<int>(r.error); end = r.end - view.data(); g_sink += static_cast<long long>(r.value);
        }
        impl.tok("ok").num(err).num(end);
        // reference: the text ends at the first null character or the end of the view; optional leading white space, then
        // only digits and '.'; otherwise invalid_input with end == begin
        std::size_t n = 0;
        while (n < len && heap[off + n] != '\0') { ++n; }
        std::size_t i = 0;
        auto is_sp = [](char c) { return c == ' ' || c == '\f' || c == '\n' || c == '\r' || c == '\t' || c == '\v'; };
        while (i < n && is_sp(heap[off + i])) { ++i; }
        bool good = true;
        for (; i < n; ++i) { char c = heap[off + i]; if (!((c >= '0' && c <= '9') || c == '.')) { good = false; } }
        if (good) { ref.tok("ok").num(0).num(static_cast<i64>(n)); } else { ref.tok("ok").num(1).num(0); }
        std::free(heap);
        return true;
    }
    if (op == "throwing") {
        // throwing <sv|iv> <mode 0 copy-construct | 1 copy-assign | 2 move-construct | 3 move-assign> <target elems> <source elems> <countdown>
        auto kind   = in.str();
        auto assign = static_cast<int>(in.num());
        if (assign < 0 || assign > 3) { return false; }
        auto te     = static_cast<int>(in.num());
        auto se     = static_cast<int>(in.num());
        auto cd     = static_cast<int>(in.num());
        if (te > 4 || se > 4) { return false; }
        if (kind == "sv") { throwing_scenario<etl::static_vector<Thrower, 4>>(impl, assign, te, se, cd); }
        else if (kind == "iv") { throwing_scenario<etl::inplace_vector<Thrower, 4>>(impl, assign, te, se, cd); }
        else { return false; }
        // reference: the copy throws iff the countdown is reached; the target then holds size() live objects, nothing leaks
        ref.tok("ok").b(cd >= 0 && cd < se).b(true).b(true).b(true);
        return true;
    }
    if (op == "strtod") {
        // etl::strtod / strtof / atof on a C string whose terminator is the LAST byte of an exact-size heap buffer
        auto cs  = in.list();
        auto off = static_cast<std::size_t>(in.num());
        if (cs.empty() || off >= cs.size() || cs.back() != 0) { return false; }
        char* heap = static_cast<char*>(std::malloc(cs.size()));
        for (std::size_t i = 0; i < cs.size(); ++i) { heap[i] = static_cast<char>(cs[i]); }
        char const* last = nullptr;
        g_sink += static_cast<long long>(etl::strtod(heap + off, &last));
        char const* lastf = nullptr;
        g_sink += static_cast<long long>(etl::strtof(heap + off, &lastf)) + static_cast<long long>(etl::atof(heap + off));
        impl.tok("ok").num(last - (heap + off));
        if (lastf != last) { impl.tok("strtof-end").num(lastf - (heap + off)); }
        std::free(heap);
        return true;
    }
    if (op == "fromfloat") {
        // from_floating_point into an EXACT-SIZE heap buffer of n characters: a store past the span is an ASan report
        auto whole = static_cast<double>(in.num());
        auto k     = static_cast<double>(in.num());
        auto m     = static_cast<int>(in.num());
        auto prec  = static_cast<int>(in.num());
        auto n     = static_cast<std::size_t>(in.num());
        double val = whole + std::ldexp(k, -m);
        char* heap = static_cast<char*>(std::malloc(n == 0 ? 1 : n));
        std::memset(heap, 'x', n == 0 ? 1 : n);
        auto r = etl::strings::from_floating_point(val, etl::span<char>{heap, n}, prec);
        impl.tok("ok").num(static_cast<int>(r.error));
        if (r.end == nullptr) { impl.tok("null"); } else { impl.num(r.end - heap); }
        impl.list(heap, heap + n);
        std::free(heap);
        return true;
    }
    if (op == "default_init") {
        auto what  = in.str();
        auto sized = [](Out& o, auto const& x) { o.num(static_cast<i64>(x.size())).b(x.empty()); };
        auto strng = [](Out& o, auto const& x) { o.num(static_cast<i64>(x.size())).b(x.empty()).num(static_cast<i64>(x.c_str()[0])); };
        auto viewd = [](Out& o, auto const& x) { o.num(static_cast<i64>(x.size())).b(x.empty()).b(x.data() == nullptr); };
        auto optnl = [](Out& o, auto const& x) { o.b(x.has_value()); };
        auto bitst = [](Out& o, auto const& x) { o.num(static_cast<i64>(x.count())).b(x.none()); };
        if (what == "sv_int") { default_init_probe<etl::static_vector<int, 4>>(impl, sized); }
        else if (what == "sv_nt") { default_init_probe<etl::static_vector<NonTrivial, 4>>(impl, sized); }
        else if (what == "iv_int") { default_init_probe<etl::inplace_vector<int, 4>>(impl, sized); }
        else if (what == "iv_nt") { default_init_probe<etl::inplace_vector<NonTrivial, 4>>(impl, sized); }
        else if (what == "iv_cap_254") { default_init_probe<etl::inplace_vector<char, 254>>(impl, sized); }
        else if (what == "iv_cap_255") { default_init_probe<etl::inplace_vector<char, 255>>(impl, sized); }
        else if (what == "iv_cap_256") { default_init_probe<etl::inplace_vector<char, 256>>(impl, sized); }
        else if (what == "iv_cap_65534") { default_init_probe<etl::inplace_vector<char, 65534>>(impl, sized); }
        else if (what == "iv_cap_65535") { default_init_probe<etl::inplace_vector<char, 65535>>(impl, sized); }
        else if (what == "iv_cap_1") { default_init_probe<etl::inplace_vector<char, 1>>(impl, sized); }
        else if (what == "sv_cap_0") { default_init_probe<etl::static_vector<char, 0>>(impl, sized); }
        else if (what == "sv_cap_254") { default_init_probe<etl::static_vector<char, 254>>(impl, sized); }
        else if (what == "sv_cap_255") { default_init_probe<etl::static_vector<char, 255>>(impl, sized); }
        else if (what == "sv_cap_256") { default_init_probe<etl::static_vector<char, 256>>(impl, sized); }
        else if (what == "sv_cap_65535") { default_init_probe<etl::static_vector<char, 65535>>(impl, sized); }
        else if (what == "str7") { default_init_probe<etl::inplace_string<7>>(impl, strng); }
        else if (what == "str15") { default_init_probe<etl::inplace_string<15>>(impl, strng); }
        else if (what == "str16") { default_init_probe<etl::inplace_string<16>>(impl, strng); }
        else if (what == "str255") { default_init_probe<etl::inplace_string<255>>(impl, strng); }
        else if (what == "str256") { default_init_probe<etl::inplace_string<256>>(impl, strng); }
        else if (what == "wstr7") { default_init_probe<etl::basic_inplace_string<wchar_t, 7>>(impl, strng); }
        else if (what == "wstr16") { default_init_probe<etl::basic_inplace_string<wchar_t, 16>>(impl, strng); }
        else if (what == "string_view") { default_init_probe<etl::string_view>(impl, viewd); }
        else if (what == "wstring_view") { default_init_probe<etl::wstring_view>(impl, viewd); }
        else if (what == "span") { default_init_probe<etl::span<int>>(impl, viewd); }
        else if (what == "span_static0") { default_init_probe<etl::span<int, 0>>(impl, viewd); }
        else if (what == "mdspan") {
            default_init_probe<etl::mdspan<int, etl::dextents<etl::size_t, 2>>>(impl, [](Out& o, auto const& x) {
                o.num(static_cast<i64>(x.size())).b(x.empty()).b(x.data_handle() == nullptr);
            });
        }
        else if (what == "static_set") { default_init_probe<etl::static_set<int, 4>>(impl, sized); }
        else if (what == "flat_set") { default_init_probe<etl::flat_set<int, etl::static_vector<int, 4>>>(impl, sized); }
        else if (what == "flat_multiset") { default_init_probe<etl::flat_multiset<int, etl::static_vector<int, 4>>>(impl, sized); }
        else if (what == "stack") { default_init_probe<etl::stack<int, etl::static_vector<int, 4>>>(impl, sized); }
        else if (what == "optional") { default_init_probe<etl::optional<int>>(impl, optnl); }
        else if (what == "optional_nt") { default_init_probe<etl::optional<NonTrivial>>(impl, optnl); }
        else if (what == "variant") {
            default_init_probe<etl::variant<int, NonTrivial>>(impl, [](Out& o, auto const& x) {
                o.num(static_cast<i64>(x.index())).num(x.index() == 0 ? *etl::get_if<0>(&x) : -1);
            });
        }
        else if (what == "expected") {
            default_init_probe<etl::expected<int, int>>(impl, [](Out& o, auto const& x) { o.b(x.has_value()).num(x.has_value() ? *x : -1); });
        }
        else if (what == "bitset") { default_init_probe<etl::bitset<70>>(impl, bitst); }
        else if (what == "bitset8") { default_init_probe<etl::bitset<8>>(impl, bitst); }
        else if (what == "bitset64") { default_init_probe<etl::bitset<64>>(impl, bitst); }
        else if (what == "inplace_function") {
            default_init_probe<etl::inplace_function<int(int)>>(impl, [](Out& o, auto const& x) { o.b(static_cast<bool>(x)); });
        }
        else if (what == "pair") { default_init_probe<etl::pair<int, long>>(impl, [](Out& o, auto const& x) { o.num(x.first).num(x.second); }); }
        else if (what == "tuple") {
            default_init_probe<etl::tuple<int, long>>(impl, [](Out& o, auto const& x) { o.num(etl::get<0>(x)).num(etl::get<1>(x)); });
        }
        else if (what == "extents") {
            default_init_probe<etl::dextents<int, 2>>(impl, [](Out& o, auto const& x) { o.num(x.extent(0)).num(x.extent(1)); });
        }
        else if (what == "duration") { default_init_probe<etl::chrono::seconds>(impl, [](Out& o, auto const& x) { o.num(x.count()); }); }
        else { return false; }
        // reference leg: the standard's default-constructed state, written out per kind
        if (what == "sv_int" || what == "sv_nt" || what == "iv_int" || what == "iv_nt" || what == "static_set" || what == "flat_set"
            || what == "flat_multiset" || what == "stack" || what.rfind("iv_cap_", 0) == 0 || what.rfind("sv_cap_", 0) == 0) {
            ref.tok("ok").num(0).b(true);
        }
        else if (what.rfind("str", 0) == 0 && what != "string_view") { ref.tok("ok").num(0).b(true).num(0); }
        else if (what.rfind("wstr", 0) == 0 && what != "wstring_view") { ref.tok("ok").num(0).b(true).num(0); }
        else if (what == "string_view" || what == "wstring_view" || what == "span" || what == "span_static0" || what == "mdspan") {
            ref.tok("ok").num(0).b(true).b(true);
        }
        else if (what == "optional" || what == "optional_nt" || what == "inplace_function" || what == "duration") { ref.tok("ok").num(0); }
        else if (what == "variant" || what == "pair" || what == "tuple" || what == "extents") { ref.tok("ok").num(0).num(0); }
        else if (what == "expected") { ref.tok("ok").num(1).num(0); }
        else { ref.tok("ok").num(0).b(true); }   // bitsets
        return true;
    }
    return false;
}

// (c) the constant evaluator as UB oracle: ce_table above is a constexpr array, so (in variant `ce`) every constexpr
// battery is evaluated at compile time for the seeds 0, 1, 7; UB in any of them makes the translation unit ill-formed.
#if defined(C02_CE)
static_assert(ce_table[0][0] == ce::vec(0));
#endif

VERIF_MAIN()
