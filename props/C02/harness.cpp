// C02 harness (own legs): (a) "never calls a dynamic allocator": global operator new/delete and
// malloc-family interposers count allocations while a battery of library operations runs on caller-provided
// and inline storage only; (b) default-initialised objects: placement-new WITHOUT initialiser over storage
// pre-filled with 0xFF, then the observers must report an empty object (reads no indeterminate value).
#include "common.hpp"

#include <cstdlib>
#include <new>

#include <etl/algorithm.hpp>
#include <etl/array.hpp>
#include <etl/bitset.hpp>
#include <etl/charconv.hpp>
#include <etl/cstring.hpp>
#include <etl/flat_set.hpp>
#include <etl/inplace_vector.hpp>
#include <etl/numeric.hpp>
#include <etl/optional.hpp>
#include <etl/set.hpp>
#include <etl/span.hpp>
#include <etl/string.hpp>
#include <etl/string_view.hpp>
#include <etl/variant.hpp>
#include <etl/vector.hpp>

static volatile bool g_count_allocs = false;
static volatile long g_allocs       = 0;

void* operator new(std::size_t n)
{
    if (g_count_allocs) { g_allocs = g_allocs + 1; }
    void* p = std::malloc(n == 0 ? 1 : n);
    if (p == nullptr) { std::abort(); }
    return p;
}
void* operator new[](std::size_t n) { return operator new(n); }
void operator delete(void* p) noexcept { std::free(p); }
void operator delete[](void* p) noexcept { std::free(p); }
void operator delete(void* p, std::size_t) noexcept { std::free(p); }
void operator delete[](void* p, std::size_t) noexcept { std::free(p); }

extern "C" void* __libc_malloc(std::size_t);
extern "C" void* __libc_calloc(std::size_t, std::size_t);
extern "C" void* __libc_realloc(void*, std::size_t);
extern "C" void* malloc(std::size_t n)
{
    if (g_count_allocs) { g_allocs = g_allocs + 1; }
    return __libc_malloc(n);
}
extern "C" void* calloc(std::size_t a, std::size_t b)
{
    if (g_count_allocs) { g_allocs = g_allocs + 1; }
    return __libc_calloc(a, b);
}
extern "C" void* realloc(void* p, std::size_t n)
{
    if (g_count_allocs) { g_allocs = g_allocs + 1; }
    return __libc_realloc(p, n);
}

using namespace vh;

struct NonTrivial {
    int v{0};
    NonTrivial() = default;
    NonTrivial(int x) : v{x} { }   // NOLINT
    NonTrivial(NonTrivial const& o) noexcept : v{o.v} { }
    NonTrivial(NonTrivial&& o) noexcept : v{o.v} { }
    auto operator=(NonTrivial const& o) noexcept -> NonTrivial& { v = o.v; return *this; }
    auto operator=(NonTrivial&& o) noexcept -> NonTrivial& { v = o.v; return *this; }
    ~NonTrivial() { v = -1; }
    friend bool operator==(NonTrivial const& a, NonTrivial const& b) { return a.v == b.v; }
    friend bool operator<(NonTrivial const& a, NonTrivial const& b) { return a.v < b.v; }
};

static long long g_sink = 0;

// each battery returns a checksum so that nothing is optimised away; no std:: containers inside
static long long battery(int which, int seed)
{
    long long acc = 0;
    switch (which) {
    case 0: {   // static_vector, trivial and non-trivial storage
        etl::static_vector<int, 8> v;
        for (int i = 0; i < 8; ++i) { v.push_back(seed + i); }
        v.erase(v.begin() + 2, v.begin() + 4);
        v.insert(v.begin() + 1, 2, 7);
        v.resize(3);
        auto w = v;
        w.swap(v);
        etl::static_vector<NonTrivial, 4> n;
        n.emplace_back(1); n.emplace_back(2); n.insert(n.begin(), NonTrivial{3}); n.erase(n.begin());
        acc += v.size() + w.size() + n.size() + v.front();
        break;
    }
    case 1: {   // inplace_vector
        etl::inplace_vector<NonTrivial, 4> v{};
        (void)v.try_emplace_back(seed); (void)v.try_push_back(NonTrivial{2}); v.pop_back();
        auto c = v; auto m = etl::move(c);
        acc += static_cast<long long>(v.size() + m.size());
        break;
    }
    case 2: {   // inplace_string on both sides of the small-layout boundary
        etl::inplace_string<15> s{"abc"};
        s.append("defgh"); s.insert(2, "xy"); s.erase(1, 2); s.push_back('q'); s.resize(4);
        etl::inplace_string<32> t{"hello world"};
        t.append(4, '!'); t.replace(0, 1, "J");
        acc += static_cast<long long>(s.size() + t.size() + t.find("wor") + s.compare(t));
        break;
    }
    case 3: {   // string_view searches
        etl::string_view h{"the quick brown fox"};
        acc += static_cast<long long>(h.find("brown") + h.rfind('o') + h.find_first_of("xyz") + h.find_last_not_of("x") + h.substr(4, 5).size());
        break;
    }
    case 4: {   // algorithms on caller arrays
        int a[8] = {5, 3, 8, 1, 9, 2, 7, seed};
        etl::sort(a, a + 8);
        etl::rotate(a, a + 3, a + 8);
        etl::stable_sort(a, a + 8);
        auto* p = etl::lower_bound(a, a + 8, 5);
        etl::reverse(a, a + 8);
        acc += (p - a) + etl::accumulate(a, a + 8, 0) + *etl::max_element(a, a + 8);
        break;
    }
    case 5: {   // charconv
        char buf[24];
        auto r = etl::to_chars(buf, buf + 24, seed * 1000 + 123, 10);
        int out = 0;
        auto f = etl::from_chars(buf, r.ptr, out, 10);
        acc += out + (f.ptr - buf);
        break;
    }
    case 6: {   // sets
        etl::static_set<int, 6> s;
        s.insert(3); s.insert(1); s.insert(seed); s.insert(3); s.erase(1);
        etl::flat_set<int, etl::static_vector<int, 6>> f;
        f.insert(4); f.insert(2); f.insert(4);
        acc += static_cast<long long>(s.size() + f.size() + (s.contains(3) ? 1 : 0));
        break;
    }
    case 7: {   // optional / variant / bitset / span / cstring
        etl::optional<NonTrivial> o; o.emplace(4); o.reset();
        etl::variant<int, NonTrivial> v{1}; v = NonTrivial{2}; v.emplace<0>(seed);
        etl::bitset<70> b; b.set(69); b.flip();
        int arr[4] = {1, 2, 3, 4};
        etl::span<int> sp{arr}; auto sub = sp.subspan(1, 2);
        char dst[16]; etl::strcpy(dst, "abc"); etl::strcat(dst, "def");
        acc += static_cast<long long>(v.index() + b.count() + sub.size() + etl::strlen(dst));
        break;
    }
    default: break;
    }
    return acc;
}

template <typename T, typename F>
static void default_init_probe(Out& impl, F&& observe)
{
    alignas(alignof(T) > 16 ? alignof(T) : 16) unsigned char storage[sizeof(T) + 16];
    std::memset(storage, 0xFF, sizeof storage);
    T* p = ::new (static_cast<void*>(storage)) T;   // default-initialisation: no () and no {}
    observe(impl, *p);
    p->~T();
}

bool vh::run_case(std::string const& op, Toks& in, Out& impl, Out& ref)
{
    if (op == "noalloc") {
        auto which = static_cast<int>(in.num());
        auto seed  = static_cast<int>(in.num());
        g_allocs       = 0;
        g_count_allocs = true;
        g_sink += battery(which, seed);
        g_count_allocs = false;
        impl.tok("ok").tok("allocs").num(g_allocs);
        ref.tok("ok").tok("allocs").num(0);
        return true;
    }
    if (op == "default_init") {
        auto what = in.str();
        auto sized = [](Out& o, auto const& x) { o.tok("ok").num(static_cast<i64>(x.size())).b(x.empty()); };
        if (what == "sv_int") { default_init_probe<etl::static_vector<int, 4>>(impl, sized); }
        else if (what == "sv_nt") { default_init_probe<etl::static_vector<NonTrivial, 4>>(impl, sized); }
        else if (what == "iv_int") { default_init_probe<etl::inplace_vector<int, 4>>(impl, sized); }
        else if (what == "iv_nt") { default_init_probe<etl::inplace_vector<NonTrivial, 4>>(impl, sized); }
        else if (what == "str7") { default_init_probe<etl::inplace_string<7>>(impl, sized); }
        else if (what == "str16") { default_init_probe<etl::inplace_string<16>>(impl, sized); }
        else if (what == "str255") { default_init_probe<etl::inplace_string<255>>(impl, sized); }
        else if (what == "string_view") { default_init_probe<etl::string_view>(impl, sized); }
        else if (what == "span") { default_init_probe<etl::span<int>>(impl, sized); }
        else if (what == "static_set") { default_init_probe<etl::static_set<int, 4>>(impl, sized); }
        else if (what == "flat_set") { default_init_probe<etl::flat_set<int, etl::static_vector<int, 4>>>(impl, sized); }
        else if (what == "optional") { default_init_probe<etl::optional<int>>(impl, [](Out& o, auto const& x) { o.tok("ok").num(0).b(!x.has_value()); }); }
        else if (what == "bitset") { default_init_probe<etl::bitset<70>>(impl, [](Out& o, auto const& x) { o.tok("ok").num(static_cast<i64>(x.count())).b(x.none()); }); }
        else { return false; }
        ref.tok("ok").num(0).b(true);
        return true;
    }
    return false;
}

VERIF_MAIN()
