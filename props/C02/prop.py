"""C02 — no UB / no allocation / no out-of-range access.  Own legs (allocation counter over operation batteries,
constant-evaluator run of the constexpr batteries, default-initialised objects over 0xFF-poisoned storage) +
aggregation: the sanitizer builds that the other packages declare for their harnesses are run on those packages'
case sets and must agree with the extracted models case by case (a sanitizer abort shows up as `crash`)."""
import concurrent.futures
import os
import random
import time

ID = "C02"
LEVEL = "proof"
SAN = ["-fsanitize=address,undefined", "-fno-sanitize-recover=all", "-fno-omit-frame-pointer"]
HARNESSES = [
    {"name": "main", "src": "harness.cpp", "flags": ["-O1", "-DTETL_ENABLE_CONTRACT_CHECKS=1"]},
    {"name": "nochecks", "src": "harness.cpp", "flags": ["-O2"]},
    # the same batteries and probes under ASan+UBSan (the allocation interposers are compiled out: ASan owns malloc)
    {"name": "san", "src": "harness.cpp", "flags": ["-O1", "-g0", "-DC02_SAN=1", "-DTETL_ENABLE_CONTRACT_CHECKS=1"] + SAN},
    # the constexpr batteries evaluated by the constant evaluator (table ce_table): UB there makes THIS variant ill-formed
    {"name": "ce", "src": "harness.cpp", "flags": ["-O0", "-DC02_CE=1", "-DTETL_ENABLE_CONTRACT_CHECKS=1"]},
    # the same under valgrind memcheck (vgcxx.py wraps the binary): no 0xFF poisoning of the default-initialisation storage
    # there, so a read of a member without initialiser is a memcheck error (= `crash 1099`), which is what the model says
    # (UB UninitRead) -- the driver prints that for the model leg when C02_VG is set
    {"name": "vg", "src": "harness.cpp", "compiler": os.path.join(os.path.dirname(os.path.abspath(__file__)), "vgcxx.py"),
     "flags": ["-O1", "-g", "-DC02_SAN=1", "-DC02_VG=1", "-DTETL_ENABLE_CONTRACT_CHECKS=1"], "env": {"C02_VG": "1"}},
    # the alignment leg (align.cpp; ops align / asdef / san_canary, every other op is `skip` there and these ops are `skip` in
    # harness.cpp): static alignment facts + containers placed at the least aligned legal addresses; checked build, -O2 build
    # (the optimiser may rely on alignof), ASan+UBSan build (-fsanitize=undefined contains -fsanitize=alignment: a misaligned
    # construction / load aborts; `san_canary` proves on every run that it does)
    {"name": "al", "src": "align.cpp", "flags": ["-O1", "-DTETL_ENABLE_CONTRACT_CHECKS=1"]},
    {"name": "alo2", "src": "align.cpp", "flags": ["-O2"]},
    {"name": "alsan", "src": "align.cpp", "flags": ["-O1", "-g0", "-DC02_SAN=1", "-DTETL_ENABLE_CONTRACT_CHECKS=1"] + SAN},
    # the sub-view / raw-storage leg (sub.cpp; ops sspan / uninit, every other op is `skip` there and these ops are `skip` in
    # harness.cpp / align.cpp): span sub-views (templated and run-time, static- and dynamic-extent parents) over exact-size heap
    # buffers, uninitialized_move / copy / fill with an element whose construction throws at slot t.  sbsan is ASan+UBSan WITHOUT
    # contract checks: an access outside the caller's buffer is seen by the sanitizer itself, not pre-empted by a TETL_PRECONDITION
    {"name": "sb", "src": "sub.cpp", "flags": ["-O1", "-DTETL_ENABLE_CONTRACT_CHECKS=1"]},
    {"name": "sbo2", "src": "sub.cpp", "flags": ["-O2"]},
    {"name": "sbsan", "src": "sub.cpp", "flags": ["-O1", "-g0", "-DC02_SAN=1"] + SAN},
]
# alignment leg: element types of align.cpp (code, sizeof, alignof; t* = trivial) and storage families
ALIGN_ELEMS = [("s2", 2, 2), ("i4", 4, 4), ("d8", 8, 8), ("ld16", 16, 16), ("i12", 12, 4), ("c3", 3, 1), ("d24", 24, 8),
               ("o16", 16, 16), ("o32", 32, 32), ("o64", 64, 64), ("ti4", 4, 4), ("td8", 8, 8), ("tc3", 3, 1), ("to32", 32, 32)]
ALIGN_PLACEMENTS = (0, 1, 20, 21, 3, 4, 5, 6, 7, 8, 9)


def _asdef_al(n):
    """default alignment of aligned_storage_t<n> (largest fundamental alignment that fits): which callables fit `fund`"""
    return 16 if n >= 16 else 8 if n >= 8 else 4 if n >= 4 else 2 if n >= 2 else 1


def _sub_cases():
    """sspan: EVERY (N, Offset, Count) of the documented domain for N in 0..6, Count = dynamic_extent (-1) included, for the
    templated and the run-time sub-views, static- and dynamic-extent parents, two element types; uninit: every throwing slot
    t in 0..n (t == n: no throw) for n in 0..6, plus one longer run"""
    out = []
    for elem in ("c", "i"):
        for st in (1, 0):
            for n in range(0, 7):
                for off in range(0, n + 1):
                    for cnt in [-1] + list(range(0, n - off + 1)):
                        out.append(f"sspan sub {elem} {st} {n} {off} {cnt}")
                        out.append(f"sspan rsub {elem} {st} {n} {off} {cnt}")
                for cnt in range(0, n + 1):
                    for kind in ("first", "last", "rfirst", "rlast"):
                        out.append(f"sspan {kind} {elem} {st} {n} 0 {cnt}")
    for algo in ("move", "copy", "fill"):
        for n in list(range(0, 7)) + [13]:
            for t in range(0, n + 1):
                out.append(f"uninit {algo} {n} {t}")
    return out


def _align_cases():
    out = ["san_canary align", "san_canary construct", "san_canary heap"]
    for code, s, a in ALIGN_ELEMS:
        fams = [("sv", 1), ("sv", 3), ("iv", 1), ("iv", 3), ("ua", 3), ("as", 1), ("au", 1), ("opt", 1), ("var", 1), ("exp", 1),
                ("exu", 1), ("fun", 1)]
        if s <= 3:
            fams += [("sv", 300), ("iv", 300)]
        if a <= _asdef_al(s):
            fams.append(("fund", 1))
        for fam, n in fams:
            for p in ALIGN_PLACEMENTS:
                out.append(f"align {fam} {code} {s} {a} {n} {p}")
    out += [f"asdef {n}" for n in range(1, 65)]
    return out
N_BATTERIES = 16
N_CE = 14
KINDS = ("sv_int", "sv_nt", "iv_int", "iv_nt", "str7", "str15", "str16", "str255", "str256", "wstr7", "wstr16",
         "string_view", "wstring_view", "span", "span_static0", "mdspan", "static_set", "flat_set", "flat_multiset", "stack",
         "optional", "optional_nt", "variant", "expected", "bitset", "bitset8", "bitset64", "inplace_function", "pair", "tuple",
         "extents", "duration",
         # the size-type boundaries of smallest_size_t<Capacity> (uint8 below 255, uint16 below 65535, then uint32)
         "iv_cap_1", "iv_cap_254", "iv_cap_255", "iv_cap_256", "iv_cap_65534", "iv_cap_65535",
         "sv_cap_0", "sv_cap_254", "sv_cap_255", "sv_cap_256", "sv_cap_65535")
RULE = ("own legs: %d operation batteries (vectors, inplace_vector, strings in both layouts and three character types, views on "
        "non-terminated arrays, mutating / non-mutating / numeric algorithms with exact-fit outputs, charconv with exact-fit and "
        "empty buffers, sets, optional/variant/expected, bitset and <bit>, span/mdspan/mdarray, pair/tuple/callable wrappers, "
        "chrono, cstring/cctype/cstdlib/cwchar, stack/iterators/uninitialised-memory algorithms) x seeds under an allocation "
        "counter (replaced operator new + interposed malloc family), the same under ASan+UBSan (variant san); %d constexpr "
        "batteries x 3 seeds evaluated by GCC's constant evaluator at compile time (UB there = the harness does not build) and "
        "compared with their run-time values; %d object kinds default-initialised over 0xFF-poisoned storage; to_floating_point on every "
        "view of length <= 3 (9-character alphabet, flush against the end of an exact-size heap buffer) + seeded random longer ones; "
        "strtod / strtof / atof on every C string of length <= 3 whose terminator is the last byte of an exact-size heap buffer; "
        "from_floating_point for exactly representable values x precisions 0..6 x every span length around the exact fit (exact-size heap buffers); "
        "alignment battery (align.cpp, builds -O1 checked / -O2 / ASan+UBSan): 11 in-object storage families (static_vector, inplace_vector, "
        "uninitialized_array, aligned_storage, aligned_union, optional, variant, expected value / error, inplace_function with explicit / default "
        "alignment) x 14 element types (ordinary, over-aligned 16 / 32 / 64, odd sizes, non-trivial and trivial) x 11 placements at the least "
        "aligned legal addresses, alignof / sizeof / slot offset / stride / placement offset compared with the layout model, misaligned slots "
        "counted and (variant alsan) trapped by -fsanitize=alignment; aligned_storage_t<1..64> default alignment; san_canary: the sanitizer "
        "builds must abort on a deliberate misaligned load / constructor call / heap overflow; "
        "sub-view battery (sub.cpp, builds -O1 checked / -O2 / ASan+UBSan without contract checks): span sub-views subspan<Offset, Count>() / "
        "first<Count>() / last<Count>() and their run-time forms for EVERY N in 0..6 x Offset x Count (dynamic_extent included) on static- and "
        "dynamic-extent parents over exact-size heap buffers, two element types, extent of the result type / size() / touched index range / "
        "elements outside the parent compared with the model and with std::span; uninitialized_move / copy / fill into n raw slots (n in 0..6, 13) "
        "with an element whose copy and move constructors throw at every slot t, per-slot construct / destroy events compared with the model and "
        "the std algorithm; copy / move construction / assignment of static_vector / inplace_vector with a throwing element (op throwing); "
        "aggregated legs: the cases of the listed packages' generators re-run under the sanitizer variant the package declares (for the "
        "packages that declare none: the package's main harness built with ASan+UBSan by C02) "
        "(-fno-sanitize-recover / trap) and compared with the extracted model (a sanitizer report = `crash` = disagreement); "
        "non-trivial = distinct case" % (N_BATTERIES, N_CE, len(KINDS)))
TRUSTED_BASE = ["ASan/UBSan runtime of g++ 12 (what they can see: heap/stack/global out-of-bounds, misaligned/null access, signed overflow, "
                "invalid shifts; NOT intra-object overflow, NOT uninitialised reads — those are covered by the models' checked accesses "
                "and, for the constexpr batteries, by GCC's constant evaluator)",
                "GCC 12 constant evaluator as UB oracle for the constexpr batteries (fixed inputs: seeds 0, 1, 7)",
                "allocation counter: replaced operator new/delete + interposed malloc/calloc/realloc",
                "valgrind 3.19 memcheck (variant vg): use of uninitialised values, invalid heap reads/writes at run time",
                "-fsanitize=alignment (part of -fsanitize=undefined) of g++ 12: shown to abort on a misaligned load and a misaligned constructor call "
                "on every run (op san_canary); x86-64 SysV sizes / alignments of the fundamental types (in coq/C02/ModelAlign.v)"]
ASSUMPTIONS = ["memory safety of the compiled object code beyond the models' index/initialisation/overflow discipline is sanitizer-observed, not proved"]

# every package with a model (C05: the precondition-violating calls -- under ASan+UBSan they show that the contract check
# stops the call BEFORE any out-of-range access); the sanitizer variants are discovered from the package's own prop.py (_variants)
AGGREGATE = ["C01", "C03", "C04", "C05", "C06a", "C06b", "C07", "C08", "C09", "C10", "C11", "C12", "C14", "C17", "C18", "C19", "C20"]
# quick tier: cases sampled per package (the thorough tier runs the package's whole quick AND thorough generators)
QUICK_CASES = {"C05": 12000, "C01": 10000, "C03": 6000, "C04": 12000, "C06a": 12000, "C06b": 20000, "C07": 6000, "C08": 20000, "C09": 12000, "C10": 20000, "C11": 20000, "C12": 10000, "C14": 20000, "C17": 1500, "C18": 20000, "C19": 6000, "C20": 6000}
QUICK_DEFAULT = 4000
THOROUGH_CASES = 400000
# C02 is THE sanitizer property: variants that a package marks thorough_only (too expensive for the package's own quick
# tier) are still built and run here, on a sample, in the quick tier.  QUICK_SKIP: packages left to the thorough tier.
QUICK_SKIP = set()
# packages whose legs are compared by outcome class only (first token: ok / contract / crash ...): C05's legs name the exact
# TETL_PRECONDITION site that fired, which is C05's business (site inventory); for C02 a contract is a contract
CLASS_ONLY = {"C05"}


def _c05_not_a_range(case):
    """C05's irg_* / mins_* families with a negative count hand the container an iterator pair that is NOT a range (last before
    first): reading the SOURCE past its array is the caller's undefined behaviour (ASan sees that read before the vector's
    !full() check can fire) -- not valid use, outside C02"""
    t = case.split()
    try:
        return len(t) >= 5 and t[0] == "vec" and t[2].startswith(("irg", "mins")) and int(t[-1]) < 0
    except ValueError:
        return False


OUTSIDE_DOMAIN = {"C05": _c05_not_a_range}


def gen(tier, rng):
    out = []
    for which in range(0, N_BATTERIES):
        for seed in (range(0, 3) if tier == "quick" else range(0, 40)):
            out.append(f"noalloc {which} {seed}")
    for which in range(0, N_CE):
        for idx in range(0, 3):
            out.append(f"noalloc_ce {which} {idx}")
    for t in KINDS:
        out.append(f"default_init {t}")
    out += _tofloat_cases(tier, rng)
    out += _fromfloat_cases(tier, rng)
    # copy / move construction (modes 0 / 2) and copy / move assignment (1 / 3) with an element type whose copy and move
    # constructors throw after <countdown> constructions
    for kind in ("sv", "iv"):
        for assign in (0, 1, 2, 3):
            for te in ((0,) if assign in (0, 2) else (0, 1, 4)):
                for se in (0, 1, 3, 4):
                    for cd in range(-1, se + 1):
                        out.append(f"throwing {kind} {assign} {te} {se} {cd}")
    out += _align_cases()
    out += _sub_cases()
    return out


def _fromfloat_cases(tier, rng):
    """from_floating_point: val = whole + k/2^m (exact), precision 0..6, EVERY span length from 0 to two past the exact fit"""
    out = ["fromfloat 233 7 10 3 1", "fromfloat 233 7 10 3 8", "fromfloat 0 0 0 0 0", "fromfloat 0 1 1 1 2", "fromfloat 0 1 1 1 3"]
    vals = [(0, 0, 0), (0, 1, 1), (7, 0, 0), (9, 3, 2), (10, 1, 3), (233, 7, 10), (99999, 1023, 10), (1 << 40, 5, 3), (123456789012, 1, 1)]
    for _ in range(40 if tier == "quick" else 2000):
        m = rng.randint(0, 10)
        vals.append((rng.choice([0, rng.randint(0, 999), rng.randint(0, 1 << rng.randint(1, 40))]), rng.randint(0, (1 << m) - 1), m))
    for whole, k, m in vals:
        for prec in range(0, 7):
            wd = len(str(whole)) if whole else 0
            exact = wd + (0 if prec == 0 else 1 + prec) + 1
            for n in sorted({0, 1, 2, exact - 2, exact - 1, exact, exact + 1, exact + 2}):
                if n >= 0:
                    out.append(f"fromfloat {whole} {k} {m} {prec} {n}")
    return out


def _tofloat_cases(tier, rng):
    """to_floating_point on views into exact-size buffers: every placement of a view of length 0..3 in buffers of length
    0..4 over a small alphabet (exhaustive for the short ones), then random longer ones; views flush against the end of the
    buffer, empty views, embedded null characters, no terminator anywhere"""
    alpha = [32, 9, 49, 50, 57, 46, 120, 45, 0]
    out = ["tofloat d 4 49 50 51 52 0 2", "tofloat d 4 49 50 51 52 2 2", "tofloat d 0 0 0", "tofloat f 1 49 0 1", "tofloat f 1 49 1 0"]
    import itertools
    for n in range(1, 4):
        for cs in itertools.product(alpha, repeat=n):
            for off in range(0, n + 1):
                ln = n - off                      # flush against the end of the allocation
                out.append("tofloat d %d %s %d %d" % (n, " ".join(map(str, cs)), off, ln))
    # the char const* front ends: the terminator is the last byte of the exact-size buffer
    for n in range(0, 4):
        for cs in itertools.product(alpha[:8], repeat=n):
            for off in range(0, n + 1):
                out.append(" ".join(["strtod", str(n + 1)] + [str(c) for c in cs] + ["0", str(off)]))
    nrand = 1500 if tier == "quick" else 40000
    for _ in range(nrand):
        n = rng.randint(1, 12)
        cs = [rng.choice(alpha if rng.random() < 0.5 else [48, 49, 50, 46, 32]) for _ in range(n)]
        off = rng.randint(0, n)
        ln = rng.choice([n - off, rng.randint(0, n - off)])
        out.append("tofloat %s %d %s %d %d" % (rng.choice("df"), n, " ".join(map(str, cs)), off, ln))
    return out


def nontrivial(case, impl):
    return True


def _sanitizer_flags(h):
    return [f for f in h.get("flags", []) if f.startswith("-fsanitize=")]


def _variants(prop):
    """the sanitizer variants a package declares, best first: address+undefined, then address, then undefined, then any other
    -fsanitize= variant; a package's first (main) harness counts only when it is named like a sanitizer variant"""
    hs = list(getattr(prop, "HARNESSES", []))
    cands = [h for h in hs[1:] if _sanitizer_flags(h)] + [h for h in hs[:1] if h.get("name") in ("asan", "san", "ubsan")]
    def rank(h):
        fl = " ".join(_sanitizer_flags(h))
        return (0 if ("address" in fl and "undefined" in fl) else 1 if "address" in fl else 2 if "undefined" in fl else 3,
                1 if h.get("thorough_only") else 0)
    cands.sort(key=rank)
    return cands



def setup_extra_builds():
    """(package, harness variant) pairs the quick tier of C02 compiles besides its own HARNESSES — the best sanitizer variant of
    every aggregated package (incl. thorough_only ones and the derived `c02san` builds); `make setup` pre-compiles them so that
    the first ./check C02 does not pay for ~20 sanitizer builds"""
    from vlib import engine
    jobs = []
    for pid in AGGREGATE:
        try:
            prop = engine.load_prop(pid)
        except Exception:  # noqa
            continue
        hs = _variants(prop)
        if not hs:
            all_hs = list(getattr(prop, "HARNESSES", []))
            if not all_hs:
                continue
            h = dict(all_hs[0])
            h["name"] = "c02san"
            h["flags"] = list(h.get("flags", [])) + SAN + ["-g0"]
            h.pop("thorough_only", None)
            hs = [h]
        if pid in QUICK_SKIP:
            continue
        jobs.append((pid, hs[0]))
    return jobs


def _one_package(pid, tier, seed):
    """quick: the best sanitizer variant of the package on a sample; thorough: EVERY declared sanitizer variant on all cases"""
    from vlib import engine
    t0 = time.time()
    res = {"package": pid, "variant": None, "sanitizers": None, "cases": 0, "crash": 0, "disagree": 0, "skipped": None,
           "wall_s": 0, "examples": []}
    try:
        prop = engine.load_prop(pid)
    except Exception as e:  # noqa
        res["skipped"] = f"no package ({e})"
        return res
    hs = _variants(prop)
    if not hs:
        # the package declares no sanitizer variant: C02 builds the package's first (main) harness with ASan+UBSan itself
        # (nothing of the package is edited; the binary is build/<pkg>/h-c02san-*)
        all_hs = list(getattr(prop, "HARNESSES", []))
        if not all_hs:
            res["skipped"] = "package declares no harness"
            return res
        h = dict(all_hs[0])
        h["name"] = "c02san"
        h["flags"] = list(h.get("flags", [])) + SAN + ["-g0"]
        h.pop("thorough_only", None)
        res["derived_by_C02"] = True
        hs = [h]
    if tier == "quick":
        hs = hs[:1]
        if pid in QUICK_SKIP:
            res["skipped"] = f"variant {hs[0]['name']} of {pid} is built and run by ./check C02 --tier thorough only"
            return res
    res["variant"] = "+".join(h["name"] for h in hs)
    res["sanitizers"] = " | ".join(" ".join(_sanitizer_flags(h)) for h in hs)
    try:
        driver = engine.build_driver(pid)
    except Exception as e:  # noqa
        res["skipped"] = f"driver missing: {e}"
        return res
    rng = random.Random(seed * 1000003 + 17)
    cases = engine.load_corpus(pid) + list(prop.gen("quick", rng))
    if tier != "quick":
        seen = set(cases)
        for c in prop.gen("thorough", random.Random(seed * 1000003 + 18)):
            if c not in seen:
                seen.add(c)
                cases.append(c)
    cap = QUICK_CASES.get(pid, QUICK_DEFAULT) if tier == "quick" else THOROUGH_CASES
    res["generated"] = len(cases)
    if len(cases) > cap:
        r2 = random.Random(seed + 5)
        cases = r2.sample(cases, cap)
    known_ops = {o for k in engine.load_known(pid) for o in k.get("ops", [])}
    model_by_env = {}
    for h in hs:
        exe, log = engine.build_harness(pid, h["name"], h["src"], h["flags"], h.get("compiler", "g++"))
        if exe is None:
            # other checks build the same multi-part harnesses concurrently (shared /tmp part directories, harness sources
            # being edited): one retry after a pause before the failure counts
            time.sleep(20)
            exe, log = engine.build_harness(pid, h["name"], h["src"], h["flags"], h.get("compiler", "g++"))
        if exe is None:
            res["skipped"] = f"sanitizer harness {h['name']} does not compile: " + log[-400:]
            res["build_failed"] = True
            return res
        envkey = repr(sorted((h.get("env") or {}).items()))
        if envkey not in model_by_env:
            _, model_by_env[envkey], _ = engine.run_bin(driver, cases, extra_env=h.get("env"), timeout=3000)
        ml = model_by_env[envkey]
        _, il, _ = engine.run_bin(exe, cases, args=h.get("args", ()), extra_env=h.get("env"), timeout=3000)
        if len(il) != len(cases) or len(ml) != len(cases):
            res["disagree"] += 1
            res["examples"].append({"case": "(run incomplete)", "variant": h["name"], "impl_asan": f"{len(il)} lines", "model": f"{len(ml)} lines", "known_op": False})
        for c, a, b in zip(cases, il, ml):
            e = engine.split_legs(a)[0]
            m = engine.split_legs(b)[0]
            if e == "skip":
                continue   # the package's sanitizer variant deliberately skips this case
            if pid in OUTSIDE_DOMAIN and OUTSIDE_DOMAIN[pid](c):
                res["outside_domain"] = res.get("outside_domain", 0) + 1
                continue
            res["cases"] += 1
            if e.startswith("crash"):
                res["crash"] += 1
            if pid in CLASS_ONLY:
                e, m = e.split(" ", 1)[0], m.split(" ", 1)[0]
                if m not in ("ok", "contract"):
                    # the package's model itself classifies the input as outside what a check can stop (C05: `invalid-range`,
                    # an iterator pair that is not a range -- undefined by the standard, the caller's violation): not valid use
                    res["outside_domain"] = res.get("outside_domain", 0) + 1
                    res["cases"] -= 1
                    if e.startswith("crash"):
                        res["crash"] -= 1
                    continue
            if e != m:
                res["disagree"] += 1
                if len(res["examples"]) < 3:
                    res["examples"].append({"case": c, "variant": h["name"], "impl_asan": e, "model": m, "known_op": c.split(" ", 1)[0] in known_ops})
    res["wall_s"] = round(time.time() - t0, 1)
    return res


def extra_checks(ctx):
    items = []
    results = []
    def guarded(pid):
        # binaries of other packages can be replaced under our feet by a concurrent check of that package (build_driver /
        # build_harness unlink the previous build): retry once, then report the package as not aggregated in this run
        last = None
        for attempt in (0, 1):
            try:
                return _one_package(pid, ctx.tier, ctx.seed)
            except Exception as e:  # noqa
                last = e
                time.sleep(15)
        return {"package": pid, "variant": None, "sanitizers": None, "cases": 0, "crash": 0, "disagree": 0,
                "skipped": f"aggregation failed twice ({type(last).__name__}: {last}); not aggregated in this run", "wall_s": 0, "examples": []}
    with concurrent.futures.ThreadPoolExecutor(max_workers=4) as ex:
        futs = [ex.submit(guarded, pid) for pid in AGGREGATE]
        for f in futs:
            results.append(f.result())
    ctx.evidence = {"aggregated_sanitizer_runs": results,
                    "aggregated_cases": sum(r["cases"] for r in results),
                    "packages_without_own_sanitizer_variant_built_by_C02": [r["package"] for r in results if r.get("derived_by_C02")],
                    "components_without_model": ["format", "random", "complex arithmetic", "linalg arithmetic", "mutex", "scope", "ranges",
                                                 "experimental/*"]}
    for r in results:
        if r.get("build_failed"):
            items.append({"kind": "violation", "found_input": False,
                          "payload": {"kind": "sanitizer harness no longer builds against /repo/include", "no_longer_checks": f"sanitizer correspondence of package {r['package']}", "detail": r["skipped"]}})
        elif r["disagree"]:
            ex0 = r["examples"][0]
            items.append({"kind": "violation", "found_input": True,
                          "payload": {"kind": "sanitizer build disagrees with the model (UB / out-of-range access / overflow observed, or behaviour changed)",
                                      "package": r["package"], "variant": ex0.get("variant", r["variant"]), "case": ex0["case"], "impl": ex0["impl_asan"], "model": ex0["model"],
                                      "more": r["examples"][1:],
                                      "disagreeing_cases": r["disagree"], "crashes": r["crash"], "replay_hint": f"./check {r['package']} --tier thorough"}})
        elif r["skipped"]:
            items.append({"kind": "note", "text": f"{r['package']}: {r['skipped']}"})
    return items
