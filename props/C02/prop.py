"""C02 — no UB / no allocation / no out-of-range access.  Own legs (allocation trap, default-initialised
objects) + aggregation: the ASan+UBSan builds of the other packages' harnesses are run on their quick case
sets and must agree with the extracted models case by case (a sanitizer abort shows up as `crash`)."""
import concurrent.futures
import random
import time

ID = "C02"
LEVEL = "proof"
HARNESSES = [
    {"name": "main", "src": "harness.cpp", "flags": ["-O1", "-DTETL_ENABLE_CONTRACT_CHECKS=1"]},
    {"name": "nochecks", "src": "harness.cpp", "flags": ["-O2"]},
]
RULE = ("own legs: 8 operation batteries x seeds under an allocation counter; 13 object kinds default-initialised over 0xFF-poisoned storage; "
        "aggregated legs: every case of the listed packages' quick generators re-run under ASan+UBSan (-fno-sanitize-recover=all) and "
        "compared with the extracted model (a sanitizer report = `crash` = disagreement); non-trivial = distinct case")
TRUSTED_BASE = ["ASan/UBSan runtime of g++ 12 (what they can see: heap/stack/global out-of-bounds, misaligned/null access, signed overflow, "
                "invalid shifts; NOT intra-object overflow, NOT uninitialised reads — those are covered by the model's checked accesses only)",
                "allocation counter: replaced operator new/delete + interposed malloc/calloc/realloc"]
ASSUMPTIONS = ["memory safety of the compiled object code beyond the models' index/initialisation/overflow discipline is sanitizer-observed, not proved"]

# packages whose prop.py declares a harness variant named "asan"
AGGREGATE = ["C01", "C04", "C06a", "C06b", "C08", "C09", "C10", "C17", "C18", "C19", "C07", "C20", "C12", "C14", "C03"]
MAX_CASES = {"quick": 12000, "thorough": 400000}
SLOW = {"C17": 3000}   # sanitizer harnesses that fork per case: fewer cases in the quick tier


def gen(tier, rng):
    out = []
    for which in range(0, 8):
        for seed in (range(0, 3) if tier == "quick" else range(0, 50)):
            out.append(f"noalloc {which} {seed}")
    for t in ("sv_int", "sv_nt", "iv_int", "iv_nt", "str7", "str16", "str255", "string_view", "span", "static_set", "flat_set", "optional", "bitset"):
        out.append(f"default_init {t}")
    return out


def nontrivial(case, impl):
    return True


def _one_package(pid, tier, seed):
    from vlib import engine
    t0 = time.time()
    res = {"package": pid, "cases": 0, "crash": 0, "disagree": 0, "skipped": None, "wall_s": 0, "examples": []}
    try:
        prop = engine.load_prop(pid)
    except Exception as e:  # noqa
        res["skipped"] = f"no package ({e})"
        return res
    hs = [h for h in getattr(prop, "HARNESSES", []) if h["name"] == "asan" or "-fsanitize=address,undefined" in " ".join(h.get("flags", []))]
    if not hs:
        res["skipped"] = "package declares no ASan+UBSan harness variant"
        return res
    h = hs[0]
    exe, log = engine.build_harness(pid, h["name"], h["src"], h["flags"], h.get("compiler", "g++"))
    if exe is None:
        res["skipped"] = "asan harness does not compile: " + log[-400:]
        res["build_failed"] = True
        return res
    try:
        driver = engine.build_driver(pid)
    except Exception as e:  # noqa
        res["skipped"] = f"driver missing: {e}"
        return res
    rng = random.Random(seed * 1000003 + 17)
    cases = engine.load_corpus(pid) + list(prop.gen("quick", rng))
    cap = MAX_CASES["quick" if tier == "quick" else "thorough"]
    if tier == "quick" and pid in SLOW:
        cap = SLOW[pid]
    if len(cases) > cap:
        r2 = random.Random(seed + 5)
        cases = r2.sample(cases, cap)
    _, il, _ = engine.run_bin(exe, cases, args=h.get("args", ()), extra_env=h.get("env"), timeout=1500)
    _, ml, _ = engine.run_bin(driver, cases, extra_env=h.get("env"), timeout=1500)
    known_ops = {o for k in engine.load_known(pid) for o in k.get("ops", [])}
    for c, a, b in zip(cases, il, ml):
        e = engine.split_legs(a)[0]
        m = engine.split_legs(b)[0]
        if e == "skip":
            continue   # the package's sanitizer variant deliberately skips this case
        res["cases"] += 1
        if e.startswith("crash"):
            res["crash"] += 1
        if e != m:
            res["disagree"] += 1
            if len(res["examples"]) < 3:
                res["examples"].append({"case": c, "impl_asan": e, "model": m, "known_op": c.split(" ", 1)[0] in known_ops})
    res["wall_s"] = round(time.time() - t0, 1)
    return res


def extra_checks(ctx):
    items = []
    results = []
    with concurrent.futures.ThreadPoolExecutor(max_workers=8) as ex:
        futs = [ex.submit(_one_package, pid, ctx.tier, ctx.seed) for pid in AGGREGATE]
        for f in futs:
            results.append(f.result())
    ctx.evidence = {"aggregated_sanitizer_runs": results,
                    "aggregated_cases": sum(r["cases"] for r in results),
                    "components_without_model": ["format", "random", "complex arithmetic", "linalg arithmetic", "mutex", "scope", "ranges", "experimental/*"]}
    for r in results:
        if r.get("build_failed"):
            items.append({"kind": "violation", "found_input": False,
                          "payload": {"kind": "sanitizer harness no longer builds against /repo/include", "no_longer_checks": f"ASan+UBSan correspondence of package {r['package']}", "detail": r["skipped"]}})
        elif r["disagree"]:
            ex0 = r["examples"][0]
            items.append({"kind": "violation", "found_input": True,
                          "payload": {"kind": "sanitizer build disagrees with the model (UB / out-of-range access / overflow observed, or behaviour changed)",
                                      "package": r["package"], "case": ex0["case"], "impl": ex0["impl_asan"], "model": ex0["model"],
                                      "disagreeing_cases": r["disagree"], "crashes": r["crash"], "replay_hint": f"./check {r['package']} --tier thorough"}})
        elif r["skipped"]:
            items.append({"kind": "note", "text": f"{r['package']}: {r['skipped']}"})
    return items
