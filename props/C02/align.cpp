// C02 harness, alignment leg.  "No undefined behaviour" includes that an element is only ever created / accessed at an
// address that is a multiple of alignof(T).  The library keeps elements in raw storage inside the container object, so
// this is decided by the alignment the storage DECLARATIONS give the container and its slots.  This harness
//   (a) reports the static facts alignof(V) % alignof(T), alignof(V), sizeof(V), offset of slot 0, slot stride for every
//       in-object storage family of the library x ordinary / over-aligned, non-trivial / trivial element types;
//   (b) places the containers at the LEAST aligned addresses the language allows -- struct { char c; V v; }, elements of
//       V[3], placement new at arena + alignof(V), second member behind a char, etl::pair<char, V>::second, etl::array<V, 3>
//       element, nested inside etl::inplace_vector<V, 2> / etl::optional<V> / etl::static_vector<V, 2> -- fills them, reads
//       the elements back, copies / moves / assigns them and counts the slot addresses that are misaligned or outside
//       the object; under variant `alsan` (-fsanitize=address,undefined incl. alignment) a misaligned construction / load
//       aborts (`crash 6`), under `alo2` (-O2) the optimiser is free to use aligned vector moves;
//   (c) `san_canary`: proves on every run that the sanitizer build really aborts on a misaligned access and on a heap
//       overflow (otherwise clean sanitizer runs would mean nothing).
// The model leg (coq/C02/ModelAlign.v) predicts every number from the member declarations; the specification leg is
// `0 0 0 1`: container at least as aligned as the element, no misaligned slot, no slot outside the object, values intact.
#include "common.hpp"

#include <cstdint>
#include <new>
#include <type_traits>

#include <etl/array.hpp>
#include <etl/expected.hpp>
#include <etl/functional.hpp>
#include <etl/inplace_vector.hpp>
#include <etl/memory.hpp>
#include <etl/optional.hpp>
#include <etl/type_traits.hpp>
#include <etl/utility.hpp>
#include <etl/variant.hpp>
#include <etl/vector.hpp>

using namespace vh;

// ---- element types ---------------------------------------------------------------------------------------------------
template <typename M>
constexpr auto head(M& m) -> auto&
{
    if constexpr (std::is_array_v<M>) { return m[0]; } else { return m; }
}

// not trivially default constructible, not trivially destructible: lives in the raw-byte storages
template <typename M, std::size_t A>
struct alignas(A) NT {
    M m{};
    NT() noexcept { head(m) = 0; }
    NT(int x) noexcept { head(m) = static_cast<std::remove_reference_t<decltype(head(m))>>(x); }   // NOLINT
    NT(NT const& o) noexcept { head(m) = head(o.m); }
    NT(NT&& o) noexcept { head(m) = head(o.m); }
    auto operator=(NT const& o) noexcept -> NT& { head(m) = head(o.m); return *this; }
    auto operator=(NT&& o) noexcept -> NT& { head(m) = head(o.m); return *this; }
    ~NT() { head(m) = 0; }
    [[nodiscard]] auto get() const noexcept -> long { return static_cast<long>(head(m)); }
};

// trivial: lives in the typed-array storages
template <typename M, std::size_t A>
struct alignas(A) TR {
    M m;
    TR() = default;
    TR(int x) noexcept { head(m) = static_cast<std::remove_reference_t<decltype(head(m))>>(x); }   // NOLINT
    [[nodiscard]] auto get() const noexcept -> long { return static_cast<long>(head(m)); }
};
static_assert(std::is_trivial_v<TR<int, 4>> && !std::is_trivially_default_constructible_v<NT<int, 4>>);

static auto val(int i) -> int { return (3 * i + 5) % 100; }

struct Report {
    long mis     = 0;   // slot addresses that are not a multiple of alignof(T)
    long outside = 0;   // slots that are not inside [&v, &v + sizeof(V))
    long valbad  = 0;   // elements that do not read back what was stored
    long off0    = -1;  // offset of slot 0 in V
    long stride  = -1;  // distance between slots
};

// ---- the storage families --------------------------------------------------------------------------------------------
template <typename T, int N>
struct FamSv {
    using V = etl::static_vector<T, N>;
    using E = T;
    static constexpr int count     = N;
    static constexpr bool copyable = true;
    static void fill(V& v) { for (int i = 0; i < N; ++i) { v.emplace_back(val(i)); } }
    static void unfill(V& v) { v.clear(); }
    static auto slot(V const& v, int i) -> T const* { return &v[static_cast<typename V::size_type>(i)]; }
    static auto value(V const& v, int i) -> long { return v[static_cast<typename V::size_type>(i)].get(); }
};

template <typename T, int N>
struct FamIv {
    using V = etl::inplace_vector<T, N>;
    using E = T;
    static constexpr int count     = N;
    static constexpr bool copyable = true;
    static void fill(V& v) { for (int i = 0; i < N; ++i) { (void)v.try_emplace_back(val(i)); } }
    static void unfill(V& v) { v.clear(); }
    static auto slot(V const& v, int i) -> T const* { return v.data() + i; }
    static auto value(V const& v, int i) -> long { return v[static_cast<etl::size_t>(i)].get(); }
};

template <typename T, int N>
struct FamUa {
    using V = etl::uninitialized_array<T, N>;
    using E = T;
    static constexpr int count     = N;
    static constexpr bool copyable = false;
    static void fill(V& v) { for (int i = 0; i < N; ++i) { etl::construct_at(v.data() + i, val(i)); } }
    static void unfill(V& v) { for (int i = 0; i < N; ++i) { etl::destroy_at(v.data() + i); } }
    static auto slot(V const& v, int i) -> T const* { return v.data() + i; }
    static auto value(V const& v, int i) -> long { return v.data()[i].get(); }
};

template <typename T, typename Storage>
struct FamRaw {   // aligned_storage_t<sizeof(T), alignof(T)> / aligned_union_t<0, char, T>
    using V = Storage;
    using E = T;
    static constexpr int count     = 1;
    static constexpr bool copyable = false;
    static void fill(V& v) { ::new (static_cast<void*>(&v)) T(val(0)); }
    static void unfill(V& v) { reinterpret_cast<T*>(&v)->~T(); }
    static auto slot(V const& v, int /*i*/) -> T const* { return reinterpret_cast<T const*>(&v); }
    static auto value(V const& v, int /*i*/) -> long { return reinterpret_cast<T const*>(&v)->get(); }
};
template <typename T>
using FamAs = FamRaw<T, etl::aligned_storage_t<sizeof(T), alignof(T)>>;
template <typename T>
using FamAu = FamRaw<T, etl::aligned_union_t<0, char, T>>;

template <typename T>
struct FamOpt {
    using V = etl::optional<T>;
    using E = T;
    static constexpr int count     = 1;
    static constexpr bool copyable = true;
    static void fill(V& v) { v.emplace(val(0)); }
    static void unfill(V& v) { v.reset(); }
    static auto slot(V const& v, int /*i*/) -> T const* { return &*v; }
    static auto value(V const& v, int /*i*/) -> long { return v.has_value() ? (*v).get() : -1; }
};

template <typename T>
struct FamVar {
    using V = etl::variant<char, T>;
    using E = T;
    static constexpr int count     = 1;
    static constexpr bool copyable = true;
    static void fill(V& v) { v.template emplace<1>(val(0)); }
    static void unfill(V& v) { v.template emplace<0>('x'); }
    static auto slot(V const& v, int /*i*/) -> T const* { return etl::get_if<1>(&v); }
    static auto value(V const& v, int /*i*/) -> long { auto const* p = etl::get_if<1>(&v); return p != nullptr ? p->get() : -1; }
};

template <typename T>
struct FamExp {
    using V = etl::expected<T, char>;
    using E = T;
    static constexpr int count     = 1;
    static constexpr bool copyable = true;
    static void fill(V& v) { v.emplace(val(0)); }
    static void unfill(V& /*v*/) { }
    static auto slot(V const& v, int /*i*/) -> T const* { return &*v; }
    static auto value(V const& v, int /*i*/) -> long { return v.has_value() ? (*v).get() : -1; }
};

template <typename T>
struct FamExu {
    using V = etl::expected<char, T>;
    using E = T;
    static constexpr int count     = 1;
    static constexpr bool copyable = true;
    static void fill(V& v) { v = V{etl::unexpect, val(0)}; }
    static void unfill(V& /*v*/) { }
    static auto slot(V const& v, int /*i*/) -> T const* { return &v.error(); }
    static auto value(V const& v, int /*i*/) -> long { return v.has_value() ? -1 : v.error().get(); }
};

template <typename T>
struct Closure {
    T t;
    auto operator()(int q) const noexcept -> std::uintptr_t
    {
        return q == 0 ? reinterpret_cast<std::uintptr_t>(&t) : static_cast<std::uintptr_t>(t.get());
    }
};

template <typename T, bool ExplicitAlignment>
struct FamFun {
    using C = Closure<T>;
    static_assert(sizeof(C) == sizeof(T) && alignof(C) == alignof(T));
    using V = etl::conditional_t<ExplicitAlignment, etl::inplace_function<std::uintptr_t(int), sizeof(C), alignof(C)>,
                                 etl::inplace_function<std::uintptr_t(int), sizeof(C)>>;
    using E = T;
    static constexpr int count     = 1;
    static constexpr bool copyable = true;
    static void fill(V& v) { v = V{C{T{val(0)}}}; }
    static void unfill(V& v) { v = nullptr; }
    static auto slot(V const& v, int /*i*/) -> T const* { return reinterpret_cast<T const*>(v(0)); }
    static auto value(V const& v, int /*i*/) -> long { return static_cast<long>(v(1)); }
};

// compiler barrier: everything stored so far is considered read, the pointer's origin is forgotten.  Needed because g++ 12.2
// -O2 otherwise deletes the initialising stores of a container that is nested in another container's raw storage (the
// zero-initialisation of the inner object is "redundant" after the outer one's, the outer one's is then "dead" by type-based
// aliasing once the explicit destructor call follows): seen with static_vector<static_vector<T, 1>, 2>, placement 9 -- a
// compiler problem (gone with -fno-lifetime-dse / -fno-ipa-modref / -fno-tree-dse), not a library one
template <typename P>
static auto opaque(P* p) -> P*
{
    asm volatile("" : "+r"(p) : : "memory");
    return p;
}

// ---- filling, reading back, copying ----------------------------------------------------------------------------------
template <typename F>
static void scan(typename F::V const& v, Report& r, bool record)
{
    using T          = typename F::E;
    auto const lo    = reinterpret_cast<std::uintptr_t>(&v);
    auto const hi    = lo + sizeof(typename F::V);
    std::uintptr_t a0 = 0;
    for (int i = 0; i < F::count; ++i) {
        auto const a = reinterpret_cast<std::uintptr_t>(F::slot(v, i));
        if (a % alignof(T) != 0) { ++r.mis; }
        if (!(a >= lo && a + sizeof(T) <= hi)) { ++r.outside; }
        if (i == 0) { a0 = a; }
        if (record && i == 0) { r.off0 = static_cast<long>(a - lo); r.stride = static_cast<long>(sizeof(T)); }
        if (record && i == 1) { r.stride = static_cast<long>(a - a0); }
    }
    // the loads go through the element type (UBSan: load of / member call on a misaligned address)
    for (int i = 0; i < F::count; ++i) {
        if (F::value(v, i) != val(i)) { ++r.valbad; }
    }
}

template <typename F>
[[gnu::noinline]] static void exercise(typename F::V& v, Report& r)
{
    using V = typename F::V;
    F::fill(v);
    scan<F>(v, r, true);
    if constexpr (F::copyable) {
        V c{v};
        scan<F>(c, r, false);
        V m{etl::move(c)};
        scan<F>(m, r, false);
        v = m;
        scan<F>(v, r, false);
    }
    F::unfill(v);
    (void)opaque(&v);
}

// ---- placements ------------------------------------------------------------------------------------------------------
alignas(256) static unsigned char g_arena[8192];

template <typename V>
struct BehindChar {
    char c;
    V v;
    BehindChar() : c{'c'}, v() { }
};
template <typename V>
struct SecondBehindChar {
    char c;
    V v;
    char d;
    V w;
    SecondBehindChar() : c{'c'}, v(), d{'d'}, w() { }
};
template <typename V>
struct Three {
    V a[3];
    Three() : a() { }
};

template <typename O>
static auto in_arena() -> O*
{
    static_assert(sizeof(O) <= sizeof g_arena && alignof(O) <= 256);
    std::memset(g_arena, 0xEE, sizeof g_arena);
    return opaque(::new (static_cast<void*>(opaque(static_cast<unsigned char*>(g_arena)))) O());
}
static auto arena_offset(void const* p) -> long { return static_cast<long>(static_cast<unsigned char const*>(p) - g_arena); }

// returns false when the placement is not available for V (reported as `unsupported`: the generator never asks for it)
template <typename F>
static auto place(int p, Report& r, long& poff) -> bool
{
    using V = typename F::V;
    switch (p) {
    case 0: {   // automatic variable behind a char
        char volatile pad = 1;
        V v{};
        (void)pad;
        poff = 0;
        exercise<F>(v, r);
        return true;
    }
    case 1: {
        auto* o = in_arena<BehindChar<V>>();
        poff    = arena_offset(&o->v);
        exercise<F>(o->v, r);
        o->~BehindChar<V>();
        return true;
    }
    case 20: case 21: {   // V a[3]: element 1 / 2
        auto* o = in_arena<Three<V>>();
        auto& v = o->a[p - 19];
        poff    = arena_offset(&v);
        exercise<F>(v, r);
        o->~Three<V>();
        return true;
    }
    case 3: {   // the least aligned legal address: arena + alignof(V), arena being 256-aligned
        static_assert(sizeof(V) + alignof(V) <= sizeof g_arena && alignof(V) < 256);
        std::memset(g_arena, 0xEE, sizeof g_arena);
        V* v = opaque(::new (static_cast<void*>(opaque(static_cast<unsigned char*>(g_arena)) + alignof(V))) V());
        poff = arena_offset(v);
        exercise<F>(*v, r);
        v->~V();
        return true;
    }
    case 4: {
        auto* o = in_arena<SecondBehindChar<V>>();
        poff    = arena_offset(&o->w);
        exercise<F>(o->w, r);
        o->~SecondBehindChar<V>();
        return true;
    }
    case 5: {
        using O = etl::pair<char, V>;
        auto* o = in_arena<O>();
        poff    = arena_offset(&o->second);
        exercise<F>(o->second, r);
        o->~O();
        return true;
    }
    case 6: {
        using O = etl::array<V, 3>;
        auto* o = in_arena<O>();
        poff    = arena_offset(&(*o)[1]);
        exercise<F>((*o)[1], r);
        o->~O();
        return true;
    }
    case 7: {
        if constexpr (etl::is_move_constructible_v<V>) {
            using O = BehindChar<etl::inplace_vector<V, 2>>;
            auto* o = in_arena<O>();
            (void)o->v.try_emplace_back();
            (void)o->v.try_emplace_back();
            if (o->v.size() != 2) { return false; }
            o = opaque(o);
            poff = arena_offset(o->v.data() + 1);
            exercise<F>(o->v[1], r);
            o->~O();
            return true;
        } else { return false; }
    }
    case 8: {
        if constexpr (etl::is_nothrow_move_constructible_v<V>) {
            using O = BehindChar<etl::optional<V>>;
            auto* o = in_arena<O>();
            o->v.emplace();
            o = opaque(o);
            poff = arena_offset(&*o->v);
            exercise<F>(*o->v, r);
            o->~O();
            return true;
        } else { return false; }
    }
    case 9: {
        if constexpr (etl::is_move_constructible_v<V>) {
            using O = BehindChar<etl::static_vector<V, 2>>;
            auto* o = in_arena<O>();
            o->v.emplace_back();
            o->v.emplace_back();
            o = opaque(o);
            poff = arena_offset(&o->v[1]);
            exercise<F>(o->v[1], r);
            o->~O();
            return true;
        } else { return false; }
    }
    default: return false;
    }
}

template <typename F>
static auto run_family(int p, Out& impl) -> bool
{
    using V = typename F::V;
    using T = typename F::E;
    Report r;
    long poff = -1;
    if (!place<F>(p, r, poff)) { impl.tok("unsupported"); return true; }
    impl.tok("ok").num(static_cast<i64>(alignof(V) % alignof(T))).num(r.mis).num(r.outside).b(r.valbad == 0);
    impl.tok("#").num(static_cast<i64>(alignof(V))).num(static_cast<i64>(sizeof(V))).num(r.off0).num(r.stride).num(poff);
    return true;
}

template <typename T>
static auto run_elem(std::string const& fam, int n, int p, Out& impl) -> bool
{
    if (fam == "sv" && n == 1) { return run_family<FamSv<T, 1>>(p, impl); }
    if (fam == "sv" && n == 3) { return run_family<FamSv<T, 3>>(p, impl); }
    if (fam == "iv" && n == 1) { return run_family<FamIv<T, 1>>(p, impl); }
    if (fam == "iv" && n == 3) { return run_family<FamIv<T, 3>>(p, impl); }
    if (fam == "ua" && n == 3) { return run_family<FamUa<T, 3>>(p, impl); }
    if constexpr (sizeof(T) <= 3) {   // capacity 300: the size member (unsigned short) is more aligned than the element
        if (fam == "sv" && n == 300) { return run_family<FamSv<T, 300>>(p, impl); }
        if (fam == "iv" && n == 300) { return run_family<FamIv<T, 300>>(p, impl); }
    }
    if (n != 1) { return false; }
    if (fam == "as") { return run_family<FamAs<T>>(p, impl); }
    if (fam == "au") { return run_family<FamAu<T>>(p, impl); }
    if (fam == "opt") { return run_family<FamOpt<T>>(p, impl); }
    if (fam == "var") { return run_family<FamVar<T>>(p, impl); }
    if (fam == "exp") { return run_family<FamExp<T>>(p, impl); }
    if (fam == "exu") { return run_family<FamExu<T>>(p, impl); }
    if (fam == "fun") { return run_family<FamFun<T, true>>(p, impl); }
    if constexpr (alignof(T) <= alignof(etl::aligned_storage_t<sizeof(T)>)) {
        if (fam == "fund") { return run_family<FamFun<T, false>>(p, impl); }
    }
    return false;
}

// aligned_storage_t<Len> with the default alignment, Len = 1 .. 64
template <std::size_t... L>
static auto asdef_table(std::index_sequence<L...> /*seq*/, std::size_t len, std::size_t& al, std::size_t& sz) -> bool
{
    bool found = false;
    auto one   = [&]<std::size_t K>() {
        if (K == len) { al = alignof(etl::aligned_storage_t<K>); sz = sizeof(etl::aligned_storage_t<K>); found = true; }
    };
    (one.template operator()<L + 1>(), ...);
    return found;
}

[[gnu::noinline]] static auto load_double(void const* p) -> double { return *static_cast<double const*>(p); }

bool vh::run_case(std::string const& op, Toks& in, Out& impl, Out& ref)
{
    if (op == "align") {
        // align <family> <element code> <sizeof(T)> <alignof(T)> <capacity> <placement>
        auto fam  = in.str();
        auto code = in.str();
        auto s    = static_cast<std::size_t>(in.num());
        auto a    = static_cast<std::size_t>(in.num());
        auto n    = static_cast<int>(in.num());
        auto p    = static_cast<int>(in.num());
        bool known = false;
        auto go = [&]<typename T>(char const* name) {
            if (known || code != name) { return true; }
            known = true;
            if (sizeof(T) != s || alignof(T) != a) { impl.tok("element-type-mismatch").num(static_cast<i64>(sizeof(T))).num(static_cast<i64>(alignof(T))); return true; }
            return run_elem<T>(fam, n, p, impl);
        };
        bool ok = true;
        ok = ok && go.template operator()<NT<short, 2>>("s2");
        ok = ok && go.template operator()<NT<int, 4>>("i4");
        ok = ok && go.template operator()<NT<double, 8>>("d8");
        ok = ok && go.template operator()<NT<long double, 16>>("ld16");
        ok = ok && go.template operator()<NT<int[3], 4>>("i12");
        ok = ok && go.template operator()<NT<char[3], 1>>("c3");
        ok = ok && go.template operator()<NT<double[3], 8>>("d24");
        ok = ok && go.template operator()<NT<int, 16>>("o16");
        ok = ok && go.template operator()<NT<double, 32>>("o32");
        ok = ok && go.template operator()<NT<char, 64>>("o64");
        ok = ok && go.template operator()<TR<int, 4>>("ti4");
        ok = ok && go.template operator()<TR<double, 8>>("td8");
        ok = ok && go.template operator()<TR<char[3], 1>>("tc3");
        ok = ok && go.template operator()<TR<double, 32>>("to32");
        if (!known || !ok) { return false; }
        ref.tok("ok").num(0).num(0).num(0).b(true);
        return true;
    }
    if (op == "asdef") {
        auto len       = static_cast<std::size_t>(in.num());
        std::size_t al = 0;
        std::size_t sz = 0;
        if (!asdef_table(std::make_index_sequence<64>{}, len, al, sz)) { return false; }
        int worse = 0;
        auto chk  = [&]<typename F>() { if (sizeof(F) <= len && al % alignof(F) != 0) { ++worse; } };
        chk.template operator()<char>(); chk.template operator()<short>(); chk.template operator()<int>(); chk.template operator()<long>();
        chk.template operator()<long long>(); chk.template operator()<void*>(); chk.template operator()<void (*)()>();
        chk.template operator()<float>(); chk.template operator()<double>(); chk.template operator()<long double>();
        chk.template operator()<wchar_t>(); chk.template operator()<char16_t>(); chk.template operator()<char32_t>(); chk.template operator()<bool>();
        impl.tok("ok").num(worse).b(sz >= len).tok("#").num(static_cast<i64>(al));
        ref.tok("ok").num(0).b(true);
        return true;
    }
    if (op == "san_canary") {
        // the sanitizer build must abort here (`crash 6`); the other builds skip the case
        auto what = in.str();
#if defined(C02_SAN) && !defined(C02_VG)
        if (what == "align") {
            std::memset(g_arena, 0, 64);
            auto d = load_double(g_arena + 1);   // misaligned load: -fsanitize=alignment
            impl.tok("ok").tok("SANITIZER-BLIND").num(static_cast<i64>(d));
            return true;
        }
        if (what == "construct") {
            auto* p = ::new (static_cast<void*>(g_arena + 1)) NT<double, 8>(3);   // constructor call on a misaligned address
            impl.tok("ok").tok("SANITIZER-BLIND").num(p->get());
            return true;
        }
        if (what == "heap") {
            auto* h = static_cast<char volatile*>(std::malloc(8));
            h[8]    = 1;                         // heap-buffer-overflow: -fsanitize=address
            impl.tok("ok").tok("SANITIZER-BLIND").num(h[8]);
            return true;
        }
        return false;
#else
        (void)what;
        impl.tok("skip");
        return true;
#endif
    }
    // every other op belongs to harness.cpp
    impl.tok("skip");
    return true;
}

VERIF_MAIN()
