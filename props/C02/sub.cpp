// C02 harness, sub-view / raw-storage leg (variants sb: -O1 with contract checks, sbo2: -O2 without, sbsan: ASan+UBSan
// WITHOUT contract checks, so that the sanitizer -- not a TETL_PRECONDITION -- sees an access outside the caller's memory).
//
// op `sspan <kind> <elem c|i> <static 0|1> <N> <Offset> <Count (-1 = dynamic_extent)>`
//   the parent is etl::span<T, N> (static 1) or etl::span<T> of size N (static 0) over an EXACT-SIZE heap buffer (sanitizer
//   build: the parent ends where the allocation ends; other builds: 8 guard elements on either side); kinds sub / first / last
//   are the templated subspan<Offset, Count>() / first<Count>() / last<Count>(), rsub / rfirst / rlast the run-time forms.
//   Observed: the extent of the RESULT TYPE, size(), first and one-past-last element as index of the parent, elements of
//   [data(), data() + size()) outside the parent, then the result is filled through begin() / end() and read through
//   operator[]: guard elements changed, parent elements changed.
// op `uninit <move|copy|fill> <n> <t>`
//   etl::uninitialized_move / uninitialized_copy / uninitialized_fill into n raw slots (exact-size heap buffer) with an element
//   type whose copy AND move constructor throw when slot t is constructed (t >= n: never) and whose destructor is not
//   trivial; every constructor / destructor call on a destination slot is logged with the slot number (C construct, T throw,
//   D destroy, X destructor on a slot that holds no object, O constructor over a live object) and compared with the same call
//   of the std algorithm (reference leg) and with coq/C02/ModelSub.v.
// Every other op is `skip` here; these two are `skip` in harness.cpp and align.cpp.
#include "common.hpp"

#include <cstdlib>
#include <memory>
#include <new>
#include <span>
#include <utility>

#include <etl/memory.hpp>
#include <etl/span.hpp>
#include <etl/type_traits.hpp>
#include <etl/utility.hpp>

using namespace vh;

// ---- sspan -------------------------------------------------------------------------------------------------------------
template <typename T>
struct SubArena {
    static constexpr std::size_t guard = 8;
    T* block{nullptr};
    T* base{nullptr};
    std::size_t n{0};
    explicit SubArena(std::size_t count) : n{count}
    {
#if defined(C02_SAN)
        block = static_cast<T*>(std::malloc(n == 0 ? 1 : n * sizeof(T)));   // exact size: nothing before, nothing behind
        base  = block;
#else
        block = static_cast<T*>(std::malloc((n + 2 * guard) * sizeof(T)));
        base  = block + guard;
        for (std::size_t i = 0; i < n + 2 * guard; ++i) { block[i] = static_cast<T>(0x5A); }
#endif
        for (std::size_t i = 0; i < n; ++i) { base[i] = static_cast<T>(i + 1); }
    }
    SubArena(SubArena const&)                    = delete;
    auto operator=(SubArena const&) -> SubArena& = delete;
    ~SubArena() { std::free(block); }
    [[nodiscard]] auto guard_hits() const -> long long
    {
        long long hits = 0;
#if !defined(C02_SAN)
        for (std::size_t i = 0; i < guard; ++i) { hits += (block[i] != static_cast<T>(0x5A)) ? 1 : 0; }
        for (std::size_t i = guard + n; i < n + 2 * guard; ++i) { hits += (block[i] != static_cast<T>(0x5A)) ? 1 : 0; }
#endif
        return hits;
    }
};

template <typename T, typename R>
static void sub_observe(Out& o, SubArena<T>& a, R r)
{
    using ll     = long long;
    ll const ext = (R::extent == etl::dynamic_extent) ? -1 : static_cast<ll>(R::extent);
    ll const sz  = static_cast<ll>(r.size());
    ll const b   = static_cast<ll>(r.data() - a.base);
    ll const e   = b + sz;
    ll const n   = static_cast<ll>(a.n);
    ll const out = std::max<ll>(0, std::min<ll>(0, e) - b) + std::max<ll>(0, e - std::max<ll>(n, b));
    for (auto& x : r) { x = static_cast<T>(0x33); }   // writes through begin() / end()
    ll rd = 0;
    for (std::size_t i = 0; i < r.size(); ++i) { rd += (r[i] == static_cast<T>(0x33)) ? 1 : 0; }   // reads through operator[]
    ll hit = 0;
    for (std::size_t i = 0; i < a.n; ++i) { hit += (a.base[i] == static_cast<T>(0x33)) ? 1 : 0; }
    o.tok("ok").num(ext).num(sz).num(b).num(e).num(out).tok("guard").num(a.guard_hits()).tok("hit").num(hit);
    if (rd != sz) { o.tok("read-back").num(rd); }
}

// C == N + 1 stands for Count = dynamic_extent
template <template <typename, std::size_t> class Span, typename T, bool Static, std::size_t N, std::size_t Off, std::size_t C>
static void sspan_tpl(Out& impl, std::string const& kind)
{
    static_assert(etl::dynamic_extent == std::dynamic_extent);
    constexpr auto cnt = (C == N + 1) ? etl::dynamic_extent : C;
    using P            = etl::conditional_t<Static, Span<T, N>, Span<T, etl::dynamic_extent>>;
    SubArena<T> a{N};
    guarded(impl, [&](Out& o) {
        P const p{a.base, N};
        if (kind == "sub") {
            if constexpr (Off <= N && (C == N + 1 || C <= N - Off)) { sub_observe(o, a, p.template subspan<Off, cnt>()); }
        } else if (kind == "first") {
            if constexpr (C <= N) { sub_observe(o, a, p.template first<C>()); }
        } else if (kind == "last") {
            if constexpr (C <= N) { sub_observe(o, a, p.template last<C>()); }
        } else if (kind == "rsub") {
            if constexpr (Off <= N && (C == N + 1 || C <= N - Off)) { sub_observe(o, a, p.subspan(Off, cnt)); }
        } else if (kind == "rfirst") {
            if constexpr (C <= N) { sub_observe(o, a, p.first(C)); }
        } else if (kind == "rlast") {
            if constexpr (C <= N) { sub_observe(o, a, p.last(C)); }
        }
    });
}

template <typename T, bool Static, std::size_t N, std::size_t Off, std::size_t... Cs>
static auto sspan_c(Out& impl, Out& ref, std::string const& kind, std::size_t c, std::index_sequence<Cs...> /*cs*/) -> bool
{
    // implementation leg: etl::span; reference leg: the same calls on std::span
    return ((c == Cs ? (sspan_tpl<etl::span, T, Static, N, Off, Cs>(impl, kind), sspan_tpl<std::span, T, Static, N, Off, Cs>(ref, kind), true) : false) || ...);
}
template <typename T, bool Static, std::size_t N, std::size_t... Offs>
static auto sspan_o(Out& impl, Out& ref, std::string const& kind, std::size_t off, std::size_t c, std::index_sequence<Offs...> /*offs*/) -> bool
{
    return ((off == Offs ? sspan_c<T, Static, N, Offs>(impl, ref, kind, c, std::make_index_sequence<N + 2>{}) : false) || ...);
}
template <typename T, bool Static, std::size_t... Ns>
static auto sspan_n(Out& impl, Out& ref, std::string const& kind, std::size_t n, std::size_t off, std::size_t c, std::index_sequence<Ns...> /*ns*/) -> bool
{
    return ((n == Ns ? sspan_o<T, Static, Ns>(impl, ref, kind, off, c, std::make_index_sequence<Ns + 1>{}) : false) || ...);
}

// ---- uninit ------------------------------------------------------------------------------------------------------------
struct Ev {
    static inline unsigned char const* base = nullptr;   // the destination storage: `slots` raw slots
    static inline std::size_t slots         = 0;
    static inline bool live[16]             = {};
    static inline int countdown             = -1;         // the (countdown+1)-th copy / move construction from now on throws
    static inline bool logging              = false;
    static inline int elsewhere             = 0;          // live objects outside the destination (sources, the fill value)
    static inline std::string* log          = nullptr;

    static auto slot(void const* p) -> int
    {
        if (base == nullptr) { return -1; }
        auto const d = static_cast<unsigned char const*>(p) - base;
        if (d < 0 || d >= static_cast<std::ptrdiff_t>(slots * sizeof(Ev)) || d % static_cast<std::ptrdiff_t>(sizeof(Ev)) != 0) { return -1; }
        return static_cast<int>(d / static_cast<std::ptrdiff_t>(sizeof(Ev)));
    }
    static void note(char what, int s)
    {
        if (!logging || log == nullptr) { return; }
        if (!log->empty()) { *log += ' '; }
        *log += what;
        *log += std::to_string(s);
    }
    void born()
    {
        int const s = slot(this);
        if (s < 0) { ++elsewhere; return; }
        note(live[s] ? 'O' : 'C', s);
        live[s] = true;
    }
    void maybe_throw()
    {
        if (countdown >= 0 && countdown-- == 0) {
            note('T', slot(this));
            throw 42;
        }
    }

    int v{0};
    explicit Ev(int x) : v{x} { born(); }
    Ev(Ev const& o) : v{o.v} { maybe_throw(); born(); }
    Ev(Ev&& o) : v{o.v} { maybe_throw(); o.v = -1; born(); }
    auto operator=(Ev const&) -> Ev& = delete;
    ~Ev()
    {
        int const s = slot(this);
        if (s < 0) { --elsewhere; return; }
        note(live[s] ? 'D' : 'X', s);
        live[s] = false;
    }
};

// one run: `call(src_first, src_last, dest_first, dest_last, value)` is the algorithm under test
template <typename Call>
static void uninit_run(Out& o, std::size_t n, int t, bool returns_iterator, Call call)
{
    auto* raw = static_cast<unsigned char*>(std::malloc(n == 0 ? 1 : n * sizeof(Ev)));   // exact size
    auto* dst = reinterpret_cast<Ev*>(raw);
    std::string log;
    Ev::base      = raw;
    Ev::slots     = n;
    Ev::elsewhere = 0;
    Ev::log       = &log;
    for (auto& l : Ev::live) { l = false; }
    bool threw    = false;
    long long ret = -1;
    {
        auto* sraw = static_cast<unsigned char*>(std::malloc(n == 0 ? 1 : n * sizeof(Ev)));
        auto* src  = reinterpret_cast<Ev*>(sraw);
        for (std::size_t i = 0; i < n; ++i) { ::new (static_cast<void*>(src + i)) Ev(static_cast<int>(10 + i)); }
        Ev const value{7};
        Ev::countdown = t;
        Ev::logging   = true;
        try {
            ret = call(src, src + n, dst, dst + n, value);
        } catch (int) {
            threw = true;
        }
        Ev::logging   = false;
        Ev::countdown = -1;
        for (std::size_t i = 0; i < n; ++i) { src[i].~Ev(); }
        std::free(sraw);
    }
    long long alive = 0;
    for (std::size_t i = 0; i < n; ++i) { alive += Ev::live[i] ? 1 : 0; }
    o.tok("ok").b(threw);
    if (threw || !returns_iterator) { o.tok("-"); } else { o.num(ret); }
    o.tok("ev").tok(log.empty() ? std::string{"none"} : log).tok("live").num(alive);
    for (std::size_t i = 0; i < n; ++i) { if (Ev::live[i]) { dst[i].~Ev(); } }
    o.tok("left").num(Ev::elsewhere);
    Ev::base = nullptr;
    Ev::log  = nullptr;
    std::free(raw);
}

bool vh::run_case(std::string const& op, Toks& in, Out& impl, Out& ref)
{
    if (op == "sspan") {
        auto kind = in.str();
        auto elem = in.str();
        auto st   = in.num() != 0;
        auto n    = static_cast<std::size_t>(in.num());
        auto off  = static_cast<std::size_t>(in.num());
        auto cnt  = in.num();
        if (n > 6 || off > n) { return false; }
        auto const c = (cnt < 0) ? n + 1 : static_cast<std::size_t>(cnt);
        auto const ns = std::make_index_sequence<7>{};
        bool known = false;
        if (elem == "c" && st) { known = sspan_n<unsigned char, true>(impl, ref, kind, n, off, c, ns); }
        else if (elem == "c") { known = sspan_n<unsigned char, false>(impl, ref, kind, n, off, c, ns); }
        else if (elem == "i" && st) { known = sspan_n<int, true>(impl, ref, kind, n, off, c, ns); }
        else if (elem == "i") { known = sspan_n<int, false>(impl, ref, kind, n, off, c, ns); }
        return known && !impl.empty();
    }
    if (op == "uninit") {
        auto algo = in.str();
        auto n    = static_cast<std::size_t>(in.num());
        auto t    = static_cast<int>(in.num());
        if (n > 16 || t < 0) { return false; }
        int const cd = (static_cast<std::size_t>(t) >= n) ? -1 : t;
        if (algo == "move") {
            uninit_run(impl, n, cd, true, [](Ev* sf, Ev* sl, Ev* df, Ev*, Ev const&) { auto* r = etl::uninitialized_move(sf, sl, df); return static_cast<long long>(r - df); });
            uninit_run(ref, n, cd, true, [](Ev* sf, Ev* sl, Ev* df, Ev*, Ev const&) { auto* r = std::uninitialized_move(sf, sl, df); return static_cast<long long>(r - df); });
        } else if (algo == "copy") {
            uninit_run(impl, n, cd, true, [](Ev* sf, Ev* sl, Ev* df, Ev*, Ev const&) { auto* r = etl::uninitialized_copy(sf, sl, df); return static_cast<long long>(r - df); });
            uninit_run(ref, n, cd, true, [](Ev* sf, Ev* sl, Ev* df, Ev*, Ev const&) { auto* r = std::uninitialized_copy(sf, sl, df); return static_cast<long long>(r - df); });
        } else if (algo == "fill") {
            uninit_run(impl, n, cd, false, [](Ev*, Ev*, Ev* df, Ev* dl, Ev const& v) { etl::uninitialized_fill(df, dl, v); return 0LL; });
            uninit_run(ref, n, cd, false, [](Ev*, Ev*, Ev* df, Ev* dl, Ev const& v) { std::uninitialized_fill(df, dl, v); return 0LL; });
        } else {
            return false;
        }
        return true;
    }
    impl.tok("skip");
    return true;
}

VERIF_MAIN()
