#!/usr/bin/env python3
"""compiler wrapper for the harness variant `vg`: compiles with g++ to <out>.bin and writes <out> as a launcher that runs the
binary under valgrind memcheck (an error ends the forked case runner with exit code 99 = `crash 1099` for that case)"""
import os
import stat
import subprocess
import sys

args = sys.argv[1:]
out = args[args.index("-o") + 1]
real = out + ".bin"
cargs = list(args)
cargs[cargs.index("-o") + 1] = real
rc = subprocess.call(["g++"] + cargs)
if rc != 0:
    sys.exit(rc)
with open(out, "w") as f:
    f.write("#!/bin/sh\nexec valgrind -q --error-exitcode=99 --exit-on-first-error=yes --undef-value-errors=yes "
            "--leak-check=no %s \"$@\" 2>/dev/null\n" % real)
os.chmod(out, os.stat(out).st_mode | stat.S_IXUSR | stat.S_IXGRP | stat.S_IXOTH)
