(* C02 driver (own legs): default-initialised objects from the extracted C02.Model; the allocation legs have no
   model computation (the models have no allocation primitive): the model and spec legs are the constant 0 *)
let obj_of = function
  | "sv_int" -> StaticVectorTrivial | "sv_nt" -> StaticVectorNonTrivial
  | "iv_int" -> InplaceVectorTrivial | "iv_nt" -> InplaceVectorNonTrivial
  | "str7" | "str15" | "wstr7" -> InplaceStringTiny | "str16" | "str255" | "str256" | "wstr16" -> InplaceStringNormal
  | "string_view" | "wstring_view" -> StringView | "span" | "span_static0" -> Span | "mdspan" -> Mdspan
  | "static_set" -> StaticSet | "flat_set" -> FlatSet | "flat_multiset" -> FlatMultiset | "stack" -> Stack
  | "optional" -> Optional | "optional_nt" -> OptionalNonTrivial | "variant" -> Variant | "expected" -> Expected
  | "bitset" | "bitset8" | "bitset64" -> Bitset | "inplace_function" -> InplaceFunction
  | "pair" -> Pair | "tuple" -> Tuple | "extents" -> Extents | "duration" -> Duration
  | _ -> raise Not_found

let zs l = join (List.map str_of_z l)

let run_case op t =
  match op with
  | "noalloc" | "noalloc_ce" ->
      (* the models have no allocation primitive: structurally zero *)
      ("ok allocs 0", "ok allocs 0")
  | "default_init" ->
      let o = obj_of (next_str t) in
      ("ok " ^ zs (default_obs_poisoned o), "ok " ^ zs (empty_state o))
  | "tofloat" ->
      (* tofloat <d|f> <n c1..cn> <off> <len>: to_floating_point on the view (buf + off, len) of an exact-size buffer *)
      let _ = next_str t in
      let buf = next_zlist t in
      let off = next_z t in
      let len = next_z t in
      let v = { vbuf = buf; voff = off; vlen = len } in
      let show (e, p) = "ok " ^ str_of_z e ^ " " ^ str_of_z p in
      let m = match tfp_scan v with Ok r -> show r | Contract -> "contract" | UB _ -> "ub" | OutOfFuel -> "outoffuel" in
      (m, show (tfp_spec (vchars v)))
  | _ -> raise Not_found

let () = main run_case
