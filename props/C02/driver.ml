(* C02 driver (own legs) *)
let obj_of = function
  | "sv_int" -> StaticVectorTrivial | "sv_nt" -> StaticVectorNonTrivial
  | "iv_int" -> InplaceVectorTrivial | "iv_nt" -> InplaceVectorNonTrivial
  | "str7" -> InplaceStringTiny | "str16" | "str255" -> InplaceStringNormal
  | "string_view" -> StringView | "span" -> Span | "static_set" -> StaticSet | "flat_set" -> FlatSet
  | "optional" -> Optional | "bitset" -> Bitset
  | _ -> raise Not_found

let run_case op t =
  match op with
  | "noalloc" ->
      (* the models have no allocation primitive: structurally zero *)
      ("ok allocs 0", "ok allocs 0")
  | "default_init" ->
      let o = obj_of (next_str t) in
      let n = read_poisoned (size_member o) in
      let m = "ok " ^ str_of_z n ^ " " ^ b2s (big_of_z n = Big.zero) in
      (m, "ok 0 1")
  | _ -> raise Not_found

let () = main run_case
