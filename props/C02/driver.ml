(* C02 driver (own legs): default-initialised objects from the extracted C02.Model; the allocation legs have no
   model computation (the models have no allocation primitive): the model and spec legs are the constant 0 *)
let obj_of = function
  | "sv_int" -> StaticVectorTrivial | "sv_nt" -> StaticVectorNonTrivial
  | "iv_int" -> InplaceVectorTrivial | "iv_nt" -> InplaceVectorNonTrivial
  | "str7" | "str15" | "wstr7" -> InplaceStringTiny | "str16" | "str255" | "str256" | "wstr16" -> InplaceStringNormal
  | "string_view" | "wstring_view" -> StringView | "span" | "span_static0" -> Span | "mdspan" -> Mdspan
  | "static_set" -> StaticSet | "flat_set" -> FlatSet | "flat_multiset" -> FlatMultiset | "stack" -> Stack
  | "optional" -> Optional | "optional_nt" -> OptionalNonTrivial | "variant" -> Variant | "expected" -> Expected
  | "bitset" | "bitset8" | "bitset64" -> Bitset | "inplace_function" -> InplaceFunction
  | "pair" -> Pair | "tuple" -> Tuple | "extents" -> Extents | "duration" -> Duration
  | s when String.length s > 7 && String.sub s 0 7 = "iv_cap_" -> InplaceVectorCap (z_of_big (Big.of_string (String.sub s 7 (String.length s - 7))))
  | s when String.length s > 7 && String.sub s 0 7 = "sv_cap_" -> StaticVectorCap (z_of_big (Big.of_string (String.sub s 7 (String.length s - 7))))
  | _ -> raise Not_found

let zs l = join (List.map str_of_z l)

let run_case op t =
  match op with
  | "noalloc" | "noalloc_ce" ->
      (* the models have no allocation primitive: structurally zero *)
      ("ok allocs 0", "ok allocs 0")
  | "default_init" ->
      let o = obj_of (next_str t) in
      (* variant vg (valgrind, no 0xFF poisoning): the model's UB UninitRead is what memcheck reports as an error *)
      let vg = (match Sys.getenv_opt "C02_VG" with Some "1" -> true | _ -> false) in
      let m = (match default_obs o with
               | UB _ when vg -> "crash 1099"
               | _ -> "ok " ^ zs (default_obs_poisoned o)) in
      (m, "ok " ^ zs (empty_state o))
  | "tofloat" ->
      (* tofloat <d|f> <n c1..cn> <off> <len>: to_floating_point on the view (buf + off, len) of an exact-size buffer *)
      let _ = next_str t in
      let buf = next_zlist t in
      let off = next_z t in
      let len = next_z t in
      let v = { vbuf = buf; voff = off; vlen = len } in
      let show (e, p) = "ok " ^ str_of_z e ^ " " ^ str_of_z p in
      let m = match tfp_scan v with Ok r -> show r | Contract -> "contract" | UB _ -> "ub" | OutOfFuel -> "outoffuel" in
      (m, show (tfp_spec (vchars v)))
  | "throwing" ->
      (* exception path of copy construction / copy assignment (element copy throws after <countdown> copies): the target
         holds exactly size() live objects afterwards and nothing leaks -- the statement of C03's exception-path model
         (coq/C03/ModelMem.v, C03_uninitialized_exception_safe); no model computation of C02's own *)
      let _ = next_str t in
      let _ = next_int t in
      let _ = next_int t in
      let se = next_int t in
      let cd = next_int t in
      let l = "ok " ^ b2s (cd >= 0 && cd < se) ^ " 1 1 1" in
      (l, l)
  | "strtod" ->
      (* strtod <n c1..cn> <off>: etl::strtod on the C string starting at buf + off of an exact-size buffer that holds a null *)
      let buf = next_zlist t in
      let off = next_z t in
      let n = z_of_int (List.length buf) in
      let a = { vbuf = buf; voff = off; vlen = z_of_big (Big.sub (big_of_z n) (big_of_z off)) } in
      let show (e, p) = "ok " ^ str_of_z p in
      let m = match cstr_view a with
        | Ok v -> (match tfp_scan v with Ok r -> show r | Contract -> "contract" | UB _ -> "ub" | OutOfFuel -> "outoffuel")
        | Contract -> "contract" | UB _ -> "ub" | OutOfFuel -> "outoffuel" in
      let s = match cstr_view a with Ok v -> show (tfp_spec (vchars v)) | _ -> "na" in
      (m, s)
  | "fromfloat" ->
      (* fromfloat <whole> <k> <m> <precision> <n>: val = whole + k / 2^m (exact in double), span of n characters 'x' *)
      let whole = next_big t in
      let k = next_big t in
      let m = next_int t in
      let prec = next_int t in
      let n = next_int t in
      (* outside the model: part = static_cast<int_type>(frac * 10^precision) = floor(k * 10^precision / 2^m) *)
      let part = Big.div (Big.mul k (Big.pow (Big.of_int 10) prec)) (Big.pow (Big.of_int 2) m) in
      let buf = List.init n (fun _ -> z_of_int 120) in
      let show b e p = "ok " ^ str_of_z e ^ " " ^ (match p with None -> "null" | Some q -> str_of_z q) ^ " " ^ zlist_s b in
      let zw = z_of_big whole and zp = z_of_big part and zprec = z_of_int prec in
      let mleg = match ffp_m zw zp zprec buf with
        | Ok ((b, e), p) -> show b e p | Contract -> "contract" | UB _ -> "ub" | OutOfFuel -> "outoffuel" in
      let sleg = match ffp_text zw zp zprec, to_string_chars zw Z0 with
        | Some txt, Some w ->
            let l = List.length txt in
            if l + 1 <= n then
              show (txt @ [Z0] @ List.init (n - l - 1) (fun _ -> z_of_int 120)) Z0
                (if prec = 0 then None else Some (z_of_int (List.length w)))
            else show buf (z_of_int 1) (Some Z0)
        | _, _ -> "na" in
      (mleg, sleg)
  | "align" ->
      (* align <family> <element code> <sizeof T> <alignof T> <capacity> <placement>: alignment / layout of the in-object
         storages (coq/C02/ModelAlign.v): alignof(V) mod alignof(T), misaligned slots, slots outside the object, values
         intact; after `#` (correspondence only) alignof(V), sizeof(V), offset of slot 0, stride, offset of V in the arena *)
      let fam = next_str t in
      let code = next_str t in
      let s = next_z t in
      let a = next_int t in
      let n = next_z t in
      let p = next_int t in
      let rec log2 x = if x <= 1 then 0 else 1 + log2 (x / 2) in
      let trivial = String.length code > 0 && code.[0] = 't' in
      let f = (match fam with
               | "sv" -> FStaticVector trivial | "iv" -> FInplaceVector trivial | "ua" -> FUninitializedArray trivial
               | "as" -> FAlignedStorage | "au" -> FAlignedUnion | "opt" -> FOptional | "var" -> FVariant
               | "exp" -> FExpected | "exu" -> FExpectedError | "fun" -> FInplaceFunction true | "fund" -> FInplaceFunction false
               | _ -> raise Not_found) in
      let pl = (match p with
                | 0 -> PNatural | 1 -> PBehindChar | 20 -> PArrayElem (z_of_int 1) | 21 -> PArrayElem (z_of_int 2) | 3 -> PAtAlign
                | 4 -> PSecondBehindChar | 5 -> PPairSecond | 6 -> PEtlArrayElem | 7 -> PInInplaceVector | 8 -> PInOptional
                | 9 -> PInStaticVector | _ -> raise Not_found) in
      let e = { e_size = s; e_al = nat_of_int (log2 a) } in
      let (obs, detail) = align_obs f e n pl in
      ("ok " ^ zs obs ^ " 1 # " ^ zs detail, "ok " ^ zs align_spec ^ " 1")
  | "asdef" ->
      (* asdef <len>: aligned_storage_t<len> with the default alignment *)
      let len = next_z t in
      let (worse, al) = asdef_obs len in
      ("ok " ^ str_of_z worse ^ " 1 # " ^ str_of_z al, "ok 0 1")
  | "sspan" ->
      (* sspan <kind> <elem> <static> <N> <Offset> <Count (-1 = dynamic_extent)>: sub-views of a span over N elements
         (coq/C02/ModelSub.v); legs: extent of the result type, size(), first / one-past-last element as index of the parent,
         elements outside the parent, guard elements changed by the fill (0), parent elements changed (= size) *)
      let kind = next_str t in
      let _ = next_str t in
      let st = next_int t <> 0 in
      let n = next_z t in
      let off = next_z t in
      let cnt = next_z t in
      let k = (match kind with
               | "sub" -> KSub | "first" -> KFirst | "last" -> KLast | "rsub" -> KSubR | "rfirst" -> KFirstR | "rlast" -> KLastR
               | _ -> raise Not_found) in
      let p = parent st (z_of_int 1000) n in
      let show l = (match l with
                    | [e; sz; b; en; out] -> "ok " ^ zs [e; sz; b; en; out] ^ " guard 0 hit " ^ str_of_z sz
                    | _ -> "bad-observation") in
      let m = (match sub_run true k p off cnt with
               | Ok r -> show (sub_obs p r) | Contract -> "contract" | UB _ -> "ub" | OutOfFuel -> "outoffuel") in
      (m, show (sub_spec k st n off cnt))
  | "uninit" ->
      (* uninit <move|copy|fill> <n> <t>: the construct / throw / destroy events on the n destination slots when the
         construction of slot t throws (t >= n: none does); the model leg is `ub` when a constructor would run over a live
         object or a destructor on a slot without one *)
      let algo = next_str t in
      let n = next_int t in
      let tt = next_int t in
      let evs l = if l = [] then "none" else join (List.map (function
                    | Construct i -> "C" ^ string_of_int (int_of_nat i)
                    | Throw i -> "T" ^ string_of_int (int_of_nat i)
                    | Destroy i -> "D" ^ string_of_int (int_of_nat i)) l) in
      let show ((es, threw), ret) alive =
        "ok " ^ b2s threw ^ " " ^ (if threw || algo = "fill" then "-" else string_of_int (int_of_nat ret))
        ^ " ev " ^ evs es ^ " live " ^ string_of_int alive ^ " left 0" in
      let count l = List.length (List.filter (fun b -> b) l) in
      let ((es, _), _) as r = uninit_run (nat_of_int n) (nat_of_int tt) in
      let m = (match replay es (List.init n (fun _ -> false)) with
               | Ok live -> show r (count live) | Contract -> "contract" | UB _ -> "ub" | OutOfFuel -> "outoffuel") in
      (m, show (uninit_spec (nat_of_int n) (nat_of_int tt)) (if tt < n then 0 else n))
  | "san_canary" ->
      (* the sanitizer builds must abort on the deliberate misaligned access / heap overflow; the other builds skip *)
      ("crash 6", "na")
  | _ -> raise Not_found

let () = main run_case
