"""C06, part c — the integer functions of numeric.hpp: gcd, lcm, midpoint, add_sat, div_sat, saturate_cast, abs.

The same functions are anchored in C14, whose package owns their model, specification, proofs, harness and driver
(props/C06c/harness.cpp and driver.ml are symbolic links to props/C14's; coq/C06c/Extract.v extracts the C14 model under
this part's name; coq/C06c/Properties.v re-states the theorems for C06).  The cases are C14's generator filtered to these
functions and thinned in the quick tier.  A change of numeric.hpp's gcd / lcm / midpoint / saturation code is therefore
reported under C06 as well (seeded change C06-a4: lcm computed as |m|*|n|/gcd)."""
import importlib.util
from pathlib import Path

_p = Path(__file__).resolve().parent.parent / "C14" / "prop.py"
_spec = importlib.util.spec_from_file_location("prop_C14_for_C06c", _p)
c14 = importlib.util.module_from_spec(_spec)
_spec.loader.exec_module(c14)

ID = "C06c"
LEVEL = "proof"
HARNESSES = [
    {"name": "main", "src": "harness.cpp", "flags": ["-O1", "-DTETL_ENABLE_CONTRACT_CHECKS=1"]},
    {"name": "ubsan", "src": "harness.cpp", "thorough_only": True,
     "flags": ["-O1", "-DTETL_ENABLE_CONTRACT_CHECKS=1", "-fsanitize=undefined", "-fno-sanitize-recover=all"]},
]
NUMERIC = {"gcd", "lcm", "midpoint", "add_sat", "div_sat", "conv", "abs"}
RULE = ("the cases of props/C14/prop.py whose function is one of gcd, lcm, midpoint, add_sat, div_sat, saturate_cast (conv), abs "
        "(8-bit types exhaustively; 16-bit boundary x chunk samples and full sweeps; 32/64-bit: single bits, limits +-1, cross "
        "products, seeded random pairs; all 64 type pairs for gcd/lcm/saturate_cast), every 3rd line in the quick tier; "
        "non-trivial = distinct case line whose impl leg is not unknown-op/crash")
TRUSTED_BASE = list(getattr(c14, "TRUSTED_BASE", []))
ASSUMPTIONS = list(getattr(c14, "ASSUMPTIONS", []))


def _op(case):
    t = case.split()
    if not t:
        return ""
    if t[0] in ("row", "rox", "swp", "swx") and len(t) > 3:
        return t[3]
    return t[0]


def gen(tier, rng):
    cases = [c for c in c14.gen(tier, rng) if _op(c) in NUMERIC]
    if tier == "quick":
        # keep every gcd/lcm line (mixed-type pairs are where the working type matters) and every 3rd of the rest
        kept, k = [], 0
        for c in cases:
            if _op(c) in ("gcd", "lcm"):
                kept.append(c)
            else:
                if k % 3 == 0:
                    kept.append(c)
                k += 1
        cases = kept
    return cases


def nontrivial(case, impl):
    return c14.nontrivial(case, impl)
