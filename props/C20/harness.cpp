// C20 harness: pair / tuple / callable wrappers.  impl leg = etl (headers under /repo/include as they are now),
// reference leg = libstdc++ 12 (std::pair, std::tuple, std::function, std::invoke, std::bind_front, std::not_fn,
// std::reference_wrapper) on the same inputs; `na` where std has no counterpart (function_ref) — the Coq spec
// leg printed by the driver is the reference there.
#include "c20_libs.hpp"

#include "c20_tables.inc"
#include "c20_values.inc"
#include "c20_ipf.inc"
#include "c20_traits.inc"
#include "c20_ctor.inc"
#include "c20_calls2.inc"
#include "c20_ret.inc"
#include "c20_lang.inc"
#include "c20_addr.inc"
#include "c20_init.inc"
#include "c20_expl.inc"

using namespace c20;

// facts that hold on the unchanged tree and are not expressible as run-time tokens
static_assert(etl::tuple_size_v<etl::tuple<>> == 0);
static_assert(etl::tuple_size_v<etl::tuple<int, long, char>> == 3);
static_assert(etl::tuple_size_v<etl::pair<int, long>> == 2);
static_assert(std::is_same_v<etl::tuple_element_t<1, etl::tuple<int, long&, char>>, long&>);
static_assert(std::is_same_v<etl::tuple_element_t<1, etl::pair<int, long const>>, long const>);
static_assert(std::is_same_v<decltype(etl::make_pair(1, 2L)), etl::pair<int, long>>);
static_assert(std::is_same_v<decltype(etl::forward_as_tuple(std::declval<int&>(), 1)), etl::tuple<int&, int&&>>);

static std::vector<std::vector<i64>> read_lists(Toks& in)
{
    std::vector<std::vector<i64>> r;
    auto m = in.num();
    for (i64 k = 0; k < m; ++k) { r.push_back(in.list()); }
    return r;
}

// The op table is split into groups so that props/C20/pcxx.py can compile them as separate translation units in
// parallel (-DC20_NPARTS=8 -DC20_PART=k; one single TU takes ~1 minute).  Without -DC20_NPARTS everything is one
// translation unit.
namespace c20 {
bool run_part0(std::string const& op, Toks& in, Out& impl, Out& ref);
bool run_part1(std::string const& op, Toks& in, Out& impl, Out& ref);
bool run_part2(std::string const& op, Toks& in, Out& impl, Out& ref);
bool run_part3(std::string const& op, Toks& in, Out& impl, Out& ref);
bool run_part4(std::string const& op, Toks& in, Out& impl, Out& ref);
bool run_part5(std::string const& op, Toks& in, Out& impl, Out& ref);
bool run_part6(std::string const& op, Toks& in, Out& impl, Out& ref);
bool run_part7(std::string const& op, Toks& in, Out& impl, Out& ref);
} // namespace c20

#if !defined(C20_NPARTS) || C20_PART == 0
bool c20::run_part0(std::string const& op, Toks& in, Out& impl, Out& ref)
{
    auto i = [&] { return static_cast<int>(in.num()); };
    if (op == "ipfcall2") {
        int sp = i(), a1 = i(), a2 = i();
        op_ipfcall2<EtlLib>(sp, a1, a2, impl);
        op_ipfcall2<StdLib>(sp, a1, a2, ref);
        return true;
    }
    if (op == "fref2") {
        int fc = i(), sp = i(), a1 = i(), a2 = i();
        op_fref2(fc, sp, a1, a2, impl);
        return true; // no std::function_ref in libstdc++ 12
    }
    if (op == "get") {
        int tc = i(), k = i();
        op_get<EtlLib>(tc, k, impl);
        op_get<StdLib>(tc, k, ref);
        return true;
    }
    if (op == "pget") {
        int tc = i(), k = i(), k2 = i();
        op_pget<EtlLib>(tc, k, k2, impl);
        op_pget<StdLib>(tc, k, k2, ref);
        return true;
    }
    if (op == "fwd") {
        int t = i(), u = i();
        op_fwd<EtlLib>(t, u, impl);
        op_fwd<StdLib>(t, u, ref);
        return true;
    }
    if (op == "fwdlike") {
        int t = i(), u = i();
        op_fwdlike_etl(t, u, impl);
        op_fwdlike_std(t, u, ref);
        return true;
    }
    if (op == "invfo") {
        int fc = i(), a1 = i(), a2 = i();
        op_invfo<EtlLib>(fc, a1, a2, impl);
        op_invfo<StdLib>(fc, a1, a2, ref);
        return true;
    }
    if (op == "invpmf") {
        int q = i(), r = i();
        op_invpmf<EtlLib>(q, r, impl);
        op_invpmf<StdLib>(q, r, ref);
        return true;
    }
    if (op == "invpmd") {
        int r = i();
        op_invpmd<EtlLib>(r, impl);
        op_invpmd<StdLib>(r, ref);
        return true;
    }
    if (op == "refwrap") {
        int c = i(), ac = i();
        op_refwrap<EtlLib>(c, ac, impl);
        op_refwrap<StdLib>(c, ac, ref);
        return true;
    }
    if (op == "fref") {
        int fc = i(), sk = i(), ac = i();
        op_fref(fc, sk, ac, impl);
        return true; // no std::function_ref in libstdc++ 12: reference = Coq spec leg (P0792)
    }
    if (op == "ipfcall") {
        int sk = i(), ac = i();
        op_ipfcall<EtlLib>(sk, ac, impl);
        op_ipfcall<StdLib>(sk, ac, ref);
        return true;
    }
    if (op == "voidret") {
        auto x = in.num();
        op_voidret<EtlLib>(x, impl);
        op_voidret<StdLib>(x, ref);
        return true;
    }
    if (op == "makepairref") {
        auto x = in.num(), y = in.num();
        op_makepairref<EtlLib>(x, y, impl);
        op_makepairref<StdLib>(x, y, ref);
        return true;
    }
    if (op == "sbind") {
        op_sbind<EtlLib>(impl);
        op_sbind<StdLib>(ref);
        return true;
    }
    if (op == "tupconv") {
        op_tupconv<EtlLib>(impl);
        op_tupconv<StdLib>(ref);
        return true;
    }
    if (op == "getbytype") {
        op_getbytype<EtlLib>(impl);
        op_getbytype<StdLib>(ref);
        return true;
    }
    if (op == "retref") {
        int which = i();
        op_retref<EtlLib>(which, impl);
        op_retref<StdLib>(which, ref);
        return true;
    }
    if (op == "refwrapstd") {
        auto x = in.num();
        op_refwrapstd<EtlLib>(x, impl);
        op_refwrapstd<StdLib>(x, ref);
        return true;
    }
    if (op == "refwrapops") {
        auto x = in.num(), y = in.num();
        op_refwrapops<EtlLib>(x, y, impl);
        op_refwrapops<StdLib>(x, y, ref);
        return true;
    }
    if (op == "frefptr") {
        op_frefptr(in.num(), impl);
        return true; // no std::function_ref in libstdc++ 12
    }
    if (op == "frefwf") {
        int q = i(), ac = i();
        op_frefwf(q, ac, impl);
        return true; // no std::function_ref in libstdc++ 12: reference = Coq spec leg (P0792)
    }
    if (op == "frefops") {
        op_frefops(in.num(), impl);
        return true; // no std::function_ref in libstdc++ 12
    }
    if (op == "notfnstatic") {
        auto x = in.num();
        op_notfn_static<EtlLib>(x, impl);
        op_notfn_static<StdLib>(x, ref);
        return true;
    }
    return false;
}
#endif

#if !defined(C20_NPARTS) || C20_PART == 1
bool c20::run_part1(std::string const& op, Toks& in, Out& impl, Out& ref)
{
    auto i = [&] { return static_cast<int>(in.num()); };
    if (op == "ret") {
        int which = i(), rk = i();
        op_ret<EtlLib>(which, rk, impl);
        op_ret<StdLib>(which, rk, ref);
        return true;
    }
    if (op == "retsig") {
        int fref = i(), Rk = i(), rk = i();
        if (fref == 0) {
            op_retsig<EtlLib, false>(Rk, rk, impl);
            op_retsig<StdLib, false>(Rk, rk, ref);
        } else {
            op_retsig<EtlLib, true>(Rk, rk, impl);
            op_retsig<StdLib, true>(Rk, rk, ref);
        }
        return true;
    }
    if (op == "refwf") {
        int ac = i();
        op_refwf<EtlLib>(ac, impl);
        op_refwf<StdLib>(ac, ref);
        return true;
    }
    if (op == "ipfmem") {
        auto x = in.num();
        op_ipfmem<EtlLib>(x, impl);
        op_ipfmem<StdLib>(x, ref);
        return true;
    }
    if (op == "wctor") {
        int fc = i(), a1 = i(), a2 = i();
        op_wctor<EtlLib>(fc, a1, a2, impl);
        op_wctor<StdLib>(fc, a1, a2, ref);
        return true;
    }
    if (op == "wrapcopy") {
        auto x = in.num(), y = in.num();
        op_wrapcopy<EtlLib>(x, y, impl);
        op_wrapcopy<StdLib>(x, y, ref);
        return true;
    }
    if (op == "bindfront2") {
        int wc = i(), a1 = i(), a2 = i();
        op_bindfront2<EtlLib>(wc, a1, a2, impl);
        op_bindfront2<StdLib>(wc, a1, a2, ref);
        return true;
    }
    if (op == "notfn2") {
        int wc = i(), a1 = i(), a2 = i(), v = i();
        op_notfn2<EtlLib>(wc, a1, a2, v, impl);
        op_notfn2<StdLib>(wc, a1, a2, v, ref);
        return true;
    }
    if (op == "refwrap2") {
        int c = i(), a1 = i(), a2 = i();
        op_refwrap2<EtlLib>(c, a1, a2, impl);
        op_refwrap2<StdLib>(c, a1, a2, ref);
        return true;
    }
    if (op == "bindfront") {
        int wc = i(), bk = i(), ac = i();
        op_bindfront<EtlLib>(wc, bk, ac, impl);
        op_bindfront<StdLib>(wc, bk, ac, ref);
        return true;
    }
    if (op == "notfn") {
        int wc = i(), ac = i(), v = i();
        op_notfn<EtlLib>(wc, ac, v, impl);
        op_notfn<StdLib>(wc, ac, v, ref);
        return true;
    }
    if (op == "apply" || op == "mft") {
        int fc = i(), tc = i(), n = i();
        int k1 = n >= 1 ? i() : 0;
        int k2 = n >= 2 ? i() : 0;
        if (op == "apply") {
            op_apply<EtlLib, 0>(fc, tc, n, k1, k2, impl);
            op_apply<StdLib, 0>(fc, tc, n, k1, k2, ref);
        } else {
            op_apply<EtlLib, 1>(fc, tc, n, k1, k2, impl);
            op_apply<StdLib, 1>(fc, tc, n, k1, k2, ref);
        }
        return true;
    }
    if (op == "applyp") {
        int tc = i(), which = i();
        op_applyp<EtlLib>(tc, which, impl);
        op_applyp<StdLib>(tc, which, ref);
        return true;
    }
    return false;
}
#endif

#if !defined(C20_NPARTS) || C20_PART == 2
bool c20::run_part2(std::string const& op, Toks& in, Out& impl, Out& ref)
{
    auto i = [&] { return static_cast<int>(in.num()); };
    if (op == "lang") {
        std::string rule = in.str();
        int x = i(), y = i();
        lang::op_lang(rule, x, y, impl);
        return true; // the compiler is the reference: reference and spec legs are na
    }
    if (op == "catx") {
        auto spec = in.list();
        op_catx<EtlLib>(spec, impl);
        op_catx<StdLib>(spec, ref);
        return true;
    }
    if (op == "catkind") {
        int k = i();
        op_catkind<EtlLib>(k, impl);
        op_catkind<StdLib>(k, ref);
        return true;
    }
    if (op == "catnest") {
        op_catnest<EtlLib>(impl);
        op_catnest<StdLib>(ref);
        return true;
    }
    if (op == "passign") {
        int dk = i(), sk = i(), sc = i();
        op_passign<EtlLib>(dk, sk, sc, impl);
        op_passign<StdLib>(dk, sk, sc, ref);
        return true;
    }
    if (op == "ptraits") {
        int e1 = i(), e2 = i();
        op_ptraits<EtlLib>(e1, e2, impl);
        op_ptraits<StdLib>(e1, e2, ref);
        return true;
    }
    if (op == "ttraits") {
        int n = i();
        int e1 = n >= 1 ? i() : 0, e2 = n >= 2 ? i() : 0, e3 = n >= 3 ? i() : 0;
        if (n < 0 || n > 3 || (n == 3 && e3 != 0 && e3 != 2 && e3 != 5)) { return false; }
        op_ttraits<EtlLib>(n, e1, e2, e3, impl);
        op_ttraits<StdLib>(n, e1, e2, e3, ref);
        return true;
    }
    return false;
}
#endif

#if !defined(C20_NPARTS) || C20_PART == 3
bool c20::run_part3(std::string const& op, Toks& in, Out& impl, Out& ref)
{
    auto i = [&] { return static_cast<int>(in.num()); };
    if (op == "catk") {
        int k = i(), c = i();
        op_catk<EtlLib>(k, c, impl);
        op_catk<StdLib>(k, c, ref);
        return true;
    }
    if (op == "telem") {
        int k = i();
        op_telem<EtlLib>(k, impl);
        op_telem<StdLib>(k, ref);
        return true;
    }
    if (op == "xfer") {
        op_xfer<EtlLib>(impl);
        op_xfer<StdLib>(ref);
        return true;
    }
    if (op == "pctor") {
        int k = i(), a = i();
        op_pctor<EtlLib>(k, a, impl);
        op_pctor<StdLib>(k, a, ref);
        return true;
    }
    if (op == "pconv") {
        int dk = i(), sk = i(), sc = i();
        op_pconv<EtlLib>(dk, sk, sc, impl);
        op_pconv<StdLib>(dk, sk, sc, ref);
        return true;
    }
    if (op == "tctor") {
        auto spec = in.list();
        op_tctor<EtlLib>(spec, impl);
        op_tctor<StdLib>(spec, ref);
        return true;
    }
    if (op == "mk") {
        int which = i(), a = i();
        op_mk<EtlLib>(which, a, impl);
        op_mk<StdLib>(which, a, ref);
        return true;
    }
    return false;
}
#endif

#if !defined(C20_NPARTS) || C20_PART == 4
bool c20::run_part4(std::string const& op, Toks& in, Out& impl, Out& ref)
{
    auto i = [&] { return static_cast<int>(in.num()); };
    if (op == "tinit") {
        auto n = in.num();
        op_tinit<EtlLib>(n, impl);
        op_tinit<StdLib>(n, ref);
        return true;
    }
    if (op == "prelnan") {
        auto a1 = in.num(), a2 = in.num(), b1 = in.num(), b2 = in.num();
        op_prelnan<EtlLib>(a1, a2, b1, b2, impl);
        op_prelnan<StdLib>(a1, a2, b1, b2, ref);
        return true;
    }
    if (op == "prel" || op == "pops") {
        auto a1 = in.num(), a2 = in.num(), b1 = in.num(), b2 = in.num();
        if (op == "prel") {
            op_prel<EtlLib>(a1, a2, b1, b2, impl);
            op_prel<StdLib>(a1, a2, b1, b2, ref);
        } else {
            op_pops<EtlLib>(a1, a2, b1, b2, impl);
            op_pops<StdLib>(a1, a2, b1, b2, ref);
        }
        return true;
    }
    if (op == "teq" || op == "tswap") {
        auto l1 = in.list();
        auto l2 = in.list();
        if (l1.size() != l2.size() || l1.size() >= static_cast<std::size_t>(MAXN)) { return false; }
        int n = static_cast<int>(l1.size());
        if (op == "teq") {
            op_teq<EtlLib>(n, l1, l2, impl);
            op_teq<StdLib>(n, l1, l2, ref);
        } else {
            op_tswap<EtlLib>(n, l1, l2, impl);
            op_tswap<StdLib>(n, l1, l2, ref);
        }
        return true;
    }
    if (op == "tswapref") {
        auto a = in.num(), b = in.num(), c = in.num(), d = in.num();
        op_tswapref<EtlLib>(a, b, c, d, impl);
        op_tswapref<StdLib>(a, b, c, d, ref);
        return true;
    }
    if (op == "tget" || op == "tapply") {
        auto l = in.list();
        if (l.size() >= static_cast<std::size_t>(MAXN)) { return false; }
        int n = static_cast<int>(l.size());
        if (op == "tget") {
            op_tget<EtlLib>(n, l, impl);
            op_tget<StdLib>(n, l, ref);
        } else {
            op_tapply<EtlLib>(n, l, impl);
            op_tapply<StdLib>(n, l, ref);
        }
        return true;
    }
    if (op == "tcat") {
        auto ops = read_lists(in);
        if (ops.size() > 3) { return false; }
        for (auto const& l : ops) {
            if (l.size() > 3) { return false; }
        }
        op_tcat<EtlLib>(ops, impl);
        op_tcat<StdLib>(ops, ref);
        return true;
    }
    if (op == "tcatmix") {
        auto v = in.list();
        if (v.size() != 6) { return false; }
        op_tcatmix<EtlLib>(v, impl);
        op_tcatmix<StdLib>(v, ref);
        return true;
    }
    return false;
}
#endif

#if !defined(C20_NPARTS) || C20_PART == 5
bool c20::run_part5(std::string const& op, Toks& in, Out& impl, Out& ref)
{
    auto i = [&] { return static_cast<int>(in.num()); };
    if (op == "ipfsizes") {
        op_ipfsizes<EtlFn>(impl);
        op_ipfsizes<StdFn>(ref);
        return true;
    }
    if (op == "ipf" || op == "ipfx") {
        Toks copy = in;
        op_ipf<EtlFn>(in, impl, op == "ipfx");
        op_ipf<StdFn>(copy, ref, op == "ipfx");
        return true;
    }
    return false;
}
#endif

#if !defined(C20_NPARTS) || C20_PART == 6
bool c20::run_part6(std::string const& op, Toks& in, Out& impl, Out& ref)
{
    if (op == "amp") {
        // object identity for an element / callable type with an overloaded unary operator& (c20_addr.inc)
        Toks copy = in;
        bool a    = addr::run_amp<EtlLib>(in, impl);
        bool b    = addr::run_amp<StdLib>(copy, ref);
        return a && b;
    }
    if (op == "init") {
        // which constructor builds a user type constructed from forwarded arguments (c20_init.inc)
        auto site = static_cast<int>(in.num());
        auto scen = static_cast<int>(in.num());
        auto a    = in.num();
        auto b    = in.num();
        init::run_init<EtlLib>(site, scen, a, b, impl);
        init::run_init<StdLib>(site, scen, a, b, ref);
        return true;
    }
    if (op == "initlang") {
        // the language rule behind op init (ModelInit.resolve): the compiler is the reference, reference and spec legs are na
        auto form = static_cast<int>(in.num());
        auto scen = static_cast<int>(in.num());
        auto a    = in.num();
        auto b    = in.num();
        init::run_lang(form, scen, a, b, impl);
        return true;
    }
    return false;
}
#endif

#if !defined(C20_NPARTS) || C20_PART == 7
bool c20::run_part7(std::string const& op, Toks& in, Out& impl, Out& ref)
{
    if (op == "expl") {
        // the conditional explicit-specifier of the pair / tuple constructors (c20_expl.inc): static facts, etl next to std
        auto site = static_cast<int>(in.num());
        auto n    = static_cast<int>(in.num());
        std::vector<int> codes;
        for (int k = 0; k < n; ++k) { codes.push_back(static_cast<int>(in.num())); }
        expl::run_expl<EtlLib>(site, codes, impl);
        expl::run_expl<StdLib>(site, codes, ref);
        return true;
    }
    if (op == "explw") {
        // the call wrappers' constructors / conversion functions: implicit or explicit, etl next to std
        expl::run_explw<EtlLib>(impl);
        expl::run_explw<StdLib>(ref);
        return true;
    }
    if (op == "explwx") {
        expl::run_explwx(impl);
        return true; // function_ref / capacity conversions: no libstdc++ 12 counterpart
    }
    if (op == "explelem") {
        // the element table of op expl: the compiler is the reference, reference and spec legs are na
        expl::run_explelem(static_cast<int>(in.num()), impl);
        return true;
    }
    return false;
}
#endif

#if !defined(C20_NPARTS) || C20_PART == 0
bool vh::run_case(std::string const& op, Toks& in, Out& impl, Out& ref)
{
    return c20::run_part0(op, in, impl, ref)
        || c20::run_part1(op, in, impl, ref)
        || c20::run_part2(op, in, impl, ref)
        || c20::run_part3(op, in, impl, ref)
        || c20::run_part4(op, in, impl, ref)
        || c20::run_part5(op, in, impl, ref)
        || c20::run_part6(op, in, impl, ref)
        || c20::run_part7(op, in, impl, ref);
}

VERIF_MAIN()
#endif
