"""C20 part (v), compile-only probes: is `<site>` applied to `<scenario>` WELL-FORMED?

The run-time op `init` (c20_init.inc) only holds combinations that stay well-formed whatever form of initialisation a
site uses.  The combinations here are the ones a brace / copy-list form would REJECT (a narrowing conversion, an explicit
copy constructor): each probe is one translation unit with one statement, compiled with -fsyntax-only against etl (the
code under test) and against libstdc++ (the reference), with -Werror=narrowing (g++ only WARNS about the narrowing of a
non-constant outside SFINAE contexts - the run-time harness, built with -w, would neither break nor behave differently).  Expected verdict: the extracted model / spec through the driver
(op `initwf <site> <scenario> 0 0` -> wf | ill | skip).

scenario 6  Trunc (long)                          from (double)            narrowing under braces
         7  Buf (size_t, size_t) | list<size_t>    from (long, long)        narrowing into the list constructor under braces
         8  Wide (size_t, size_t) | list<long>     from (size_t, size_t)    likewise
         9  Expl, explicit copy / move constructor from an Expl             rejected by copy- / copy-list-initialisation
        10  Mixed (long, double) | list<double>    from (long, double)      narrowing long -> double under braces
"""
import hashlib
import json
import os
import subprocess
from concurrent.futures import ThreadPoolExecutor

PRELUDE = r"""
#include <etl/array.hpp>
#include <etl/functional.hpp>
#include <etl/tuple.hpp>
#include <etl/utility.hpp>
#include <array>
#include <cstddef>
#include <functional>
#include <initializer_list>
#include <tuple>
#include <utility>
#include <vector>
namespace lib = LIBNS;
#if IS_ETL
template <typename Sig> using function_t = etl::inplace_function<Sig, 32>;
template <typename Sig> using fref_t = etl::function_ref<Sig>;
template <typename R, typename F, typename X> R invoke_r_(F&& f, X&& x) { return etl::invoke_r<R>(static_cast<F&&>(f), static_cast<X&&>(x)); }
#else
template <typename Sig> using function_t = std::function<Sig>;
template <typename Sig> using fref_t = std::function<Sig>;
template <typename R, typename F, typename X> R invoke_r_(F&& f, X&& x) { return std::invoke(static_cast<F&&>(f), static_cast<X&&>(x)); }
#endif
struct Trunc { long v; Trunc(long x) : v(x) {} };
struct Buf { Buf(std::size_t, std::size_t) {} Buf(std::initializer_list<std::size_t>) {} };
struct Wide { Wide(std::size_t, std::size_t) {} Wide(std::initializer_list<long>) {} };
struct Mixed { Mixed(long, double) {} Mixed(std::initializer_list<double>) {} };
struct Expl {
    Expl() = default;
    explicit Expl(Expl const&) = default;
    explicit Expl(Expl&&) = default;
    long long operator()(long long x) const { return x; }
    bool operator()(int, long long) const { return true; }
};
"""


def _two(T, X, Y, x, y):
    """make_from_tuple<T> from tuple& / tuple&& / tuple const& / pair / array of (X, Y)"""
    p = {0: f"lib::tuple<{X}, {Y}> t({x}, {y}); auto r = lib::make_from_tuple<{T}>(t); (void)r;",
         1: f"lib::tuple<{X}, {Y}> t({x}, {y}); auto r = lib::make_from_tuple<{T}>(std::move(t)); (void)r;",
         2: f"lib::tuple<{X}, {Y}> const t({x}, {y}); auto r = lib::make_from_tuple<{T}>(t); (void)r;",
         3: f"lib::pair<{X}, {Y}> p({x}, {y}); auto r = lib::make_from_tuple<{T}>(p); (void)r;"}
    if X == Y:
        p[4] = f"lib::array<{X}, 2> arr{{{x}, {y}}}; auto r = lib::make_from_tuple<{T}>(arr); (void)r;"
    return p


def _one(T, X, x):
    fn = f"auto fn = []({X} v) -> {X} {{ return v; }};"
    return {0: f"lib::tuple<{X}> t({x}); auto r = lib::make_from_tuple<{T}>(t); (void)r;",
            1: f"lib::tuple<{X}> t({x}); auto r = lib::make_from_tuple<{T}>(std::move(t)); (void)r;",
            2: f"lib::tuple<{X}> const t({x}); auto r = lib::make_from_tuple<{T}>(t); (void)r;",
            5: f"lib::tuple<{T}> t1({x}); lib::tuple<{T}, {T}> t2({x}, {x}); (void)t1; (void)t2;",
            7: f"lib::pair<{T}, {T}> p({x}, {x}); (void)p;",
            9: f"lib::pair<{X}, {X}> s({x}, {x}); lib::pair<{T}, {T}> p(s); (void)p;",
            10: f"lib::pair<{X}, {X}> s({x}, {x}); lib::pair<{T}, {T}> p(std::move(s)); (void)p;",
            23: f"{fn} auto r = invoke_r_<{T}>(fn, {x}); (void)r;",
            24: f"{fn} function_t<{T}({X})> f = fn; auto r = f({x}); (void)r;",
            25: f"{fn} fref_t<{T}({X})> f = fn; auto r = f({x}); (void)r;"}


def _self(T):
    sig = "long long(long long)"
    pre = f"{T} t; {T} const& ct = t; (void)ct;"
    ipf = f"function_t<{sig}> f(t);"
    if_conv = ("\n#if IS_ETL\n etl::inplace_function<%s, 16> f(t); etl::inplace_function<%s, 32> g(%%s);\n#else\n"
               " std::function<%s> f(t); std::function<%s> g(%%s);\n#endif\n (void)g;" % (sig, sig, sig, sig))
    return {0: f"{pre} auto tt = lib::forward_as_tuple(t); auto r = lib::make_from_tuple<{T}>(tt); (void)r;",
            1: f"{pre} auto r = lib::make_from_tuple<{T}>(lib::forward_as_tuple(std::move(t))); (void)r;",
            2: f"{pre} auto const tt = lib::forward_as_tuple(ct); auto r = lib::make_from_tuple<{T}>(tt); (void)r;",
            5: f"{pre} lib::tuple<{T}> t1(t); lib::tuple<{T}, long> t2(std::move(t), 1L); (void)t1; (void)t2;",
            6: f"{pre} lib::tuple<{T}> t1(ct); lib::tuple<{T}, {T}> t2(ct, ct); (void)t1; (void)t2;",
            7: f"{pre} {T} u; lib::pair<{T}, {T}> p(t, std::move(u)); (void)p;",
            8: f"{pre} lib::pair<{T}, {T}> p(ct, ct); (void)p;",
            11: f"{pre} auto p = lib::make_pair(t, {T}()); (void)p;",
            12: f"{pre} auto p = lib::make_tuple(t, {T}()); (void)p;",
            13: f"{pre} lib::tuple<{T}> s1(ct); lib::tuple<{T}> s2(ct); auto r = lib::tuple_cat(s1, std::move(s2)); (void)r;",
            14: f"{pre} {ipf} (void)f;",
            15: f"{pre} {ipf} auto g = f; (void)g;",
            16: f"{pre} {ipf} auto g = std::move(f); (void)g;",
            17: f"{pre} " + if_conv % ("f", "f"),
            18: f"{pre} " + if_conv % ("std::move(f)", "std::move(f)"),
            19: f"{pre} function_t<{sig}> f; f = t; (void)f;",
            20: f"{pre} auto g = lib::bind_front(t); (void)g;",
            21: f"{pre} auto g = lib::bind_front([]({T} const& x, long long w) {{ return x(w); }}, t); (void)g;",
            22: f"{pre} auto g = lib::not_fn(t); (void)g;"}


def probes():
    """[(site, scenario, statement)]"""
    out = []
    for site, body in _one("Trunc", "double", "2.5").items():
        out.append((site, 6, "double d = 2.5; " + body.replace("2.5", "d")))
    for site, body in _two("Buf", "long", "long", "a", "b").items():
        out.append((site, 7, "long a = 3, b = 7; " + body))
    for site, body in _two("Wide", "std::size_t", "std::size_t", "a", "b").items():
        out.append((site, 8, "std::size_t a = 3, b = 7; " + body))
    for site, body in _self("Expl").items():
        out.append((site, 9, body))
    for site, body in _two("Mixed", "long", "double", "a", "b").items():
        out.append((site, 10, "long a = 3; double b = 7.5; " + body))
    return out


def _compile(cxx, include, work, name, is_etl, body):
    src = os.path.join(work, name + ".cpp")
    with open(src, "w") as f:
        f.write(PRELUDE + "void probe()\n{\n" + body + "\n}\n")
    # g++ issues the diagnostic [dcl.init.list] requires for the narrowing of a NON-constant as a warning (-Wnarrowing) and goes
    # on (outside SFINAE contexts): -Werror=narrowing makes the verdict the standard's
    cmd = [cxx, "-std=c++20", "-fsyntax-only", "-Werror=narrowing", "-I", include, "-DIS_ETL=%d" % (1 if is_etl else 0),
           "-DLIBNS=%s" % ("etl" if is_etl else "std"), src]
    env = dict(os.environ, LC_ALL="C")
    try:
        p = subprocess.run(cmd, stdout=subprocess.PIPE, stderr=subprocess.STDOUT, env=env, timeout=300)
    except subprocess.TimeoutExpired:
        return "timeout", ""
    if p.returncode == 0:
        return "wf", ""
    text = p.stdout.decode("utf-8", "replace")
    first = [l for l in text.splitlines() if " error: " in l]
    return "ill", (first[0][-300:] if first else text[-300:])


def run(include, work, jobs=4, cxx="g++"):
    """-> [{site, scenario, statement, etl, std, diag}]"""
    os.makedirs(work, exist_ok=True)
    ps = probes()
    tasks = []
    for (site, scen, body) in ps:
        for is_etl in (True, False):
            tasks.append((site, scen, body, is_etl))
    with ThreadPoolExecutor(max_workers=jobs) as ex:
        res = list(ex.map(lambda t: _compile(cxx, include, work, "wf-%d-%d-%s" % (t[0], t[1], "etl" if t[3] else "std"), t[3], t[2]), tasks))
    out = []
    for i, (site, scen, body) in enumerate(ps):
        (ev, ed), (sv, sd) = res[2 * i], res[2 * i + 1]
        out.append({"site": site, "scenario": scen, "statement": body, "etl": ev, "std": sv, "diag": ed or sd})
    return out


def source_hash():
    return hashlib.sha256(open(os.path.abspath(__file__), "rb").read()).hexdigest()


if __name__ == "__main__":
    import sys
    inc = sys.argv[1] if len(sys.argv) > 1 else "/repo/include"
    for r in run(inc, "/tmp/c20-wf-manual"):
        print(json.dumps(r))
