(* C20 driver: model leg = extracted Model.v functions, spec leg = extracted Spec.v.  Parsing and printing only:
   category / kind codes are those of props/C20/c20_common.hpp. *)
let cat_of_code c = { cst = (c mod 2 = 1); rf = (if c < 2 then RL else if c < 4 then RR else RNone) }
let kind_of_code k = { cst = (k mod 2 = 1); rf = (match k / 2 with 0 -> RNone | 1 -> RL | _ -> RR) }
let code_of_cat t = (match t.rf with RL -> 0 | RR -> 2 | RNone -> 4) + (if t.cst then 1 else 0)
let code_of_kind t = (match t.rf with RNone -> 0 | RL -> 2 | RR -> 4) + (if t.cst then 1 else 0)
let sc t = string_of_int (code_of_cat t)
let z0 = Z0
let zi = z_of_int

let opt_cat same = function Some t -> join ([ "ok"; sc t ] @ (if same then [ "same" ] else [])) | None -> "ill"

(* one logged call: q<callee category> then <category>:<value> per argument *)
let call_s f args = join (("q" ^ sc f) :: List.map (fun (c, v) -> string_of_int c ^ ":" ^ string_of_int v) args)

let pmfq_of = function 0 -> QNone | 1 -> QConst | 2 -> QL | 3 -> QCL | 4 -> QR | _ -> QCR
let receiver_of r =
  if r < 4 then RcvObj (cat_of_code r)
  else if r < 8 then RcvDerived (cat_of_code (r - 4))
  else if r = 8 then RcvRefWrap false
  else if r = 9 then RcvRefWrap true
  else if r = 10 then RcvPtr false
  else RcvPtr true

let elem_of_code = function
  | 0 -> EInt | 1 -> EConstInt | 2 -> ELRef | 3 -> EConstLRef | 4 -> ERRef | 5 -> EMoveOnly | _ -> ECopyOnly

(* op expl: element code -> conversion kinds (default, T const& -> T, U const& -> T, U&& -> T); the table in the header of
   props/C20/c20_expl.inc, compared with the compiler by op explelem *)
let edesc_of_code c =
  let mk d s cr rr = { q_def = d; q_self = s; q_cref = cr; q_rref = rr } in
  match c with
  | 0 -> mk CImpl CImpl CImpl CImpl
  | 1 -> mk CExpl CImpl CExpl CExpl
  | 2 -> mk CNone CImpl CNone CNone
  | 3 -> mk CImpl CExpl CExpl CImpl
  | 4 -> mk CNone CImpl CNone CImpl
  | 5 -> mk CExpl CImpl CImpl CNone
  | 6 -> mk CImpl CImpl CImpl CImpl
  | _ -> mk CNone CImpl CExpl CExpl

let palette_sets pal =
  (* (stateless, tracked) target ids, see make_target in c20_ipf.inc *)
  match pal with
  | 0 -> ([], [ 2 ])
  | 1 -> ([], [ 0; 1; 2 ])
  | 2 -> ([], [ 1 ])
  | _ -> ([ 2 ], [ 0 ])

let op_of code a b =
  let w = nat_of_int a in
  match code with
  | 0 -> Some ("a", OAssignTarget (w, zi b))
  | 1 -> Some ("ca", OCopyAssign (w, nat_of_int b))
  | 2 -> Some ("ma", OMoveAssign (w, nat_of_int b))
  | 3 -> Some ("cc", OCopyCtor (w, nat_of_int b))
  | 4 -> Some ("mc", OMoveCtor (w, nat_of_int b))
  | 5 -> Some ("r", OReset w)
  | 6 | 7 -> Some ("s", OSwap (w, nat_of_int b))
  | 8 -> Some ("c", OCall (w, zi b))
  | 9 -> Some ("b", OBool w)
  | 10 -> Some ("vc", OConvCopy (w, zi b))
  | 11 -> Some ("vm", OConvMove (w, zi b))
  | 12 -> Some ("ct", OCtorTarget (w, zi b))
  | 13 -> Some ("cn", OCtorNull w)
  | 14 -> Some ("cd", OCtorNull w)
  | 15 -> Some ("an", OAssignNullFn w)
  | 16 -> Some ("cf", OCtorNullFn w)
  | _ -> None

let mask_s (m : bool list) =
  let rec go i = function [] -> 0 | b :: r -> (if b then 1 lsl i else 0) + go (i + 1) r in
  "m" ^ string_of_int (go 0 m)

let obs_s names (obs : ((tok * bool list) * nat) list) =
  List.concat
    (List.map2
       (fun name ((t, m), l) ->
         match t with
         | TSkip -> [ "skip" ]
         | TAck -> [ name; mask_s m; "L" ^ string_of_int (int_of_nat l) ]
         | TCall r -> [ "c" ^ str_of_z r; mask_s m; "L" ^ string_of_int (int_of_nat l) ]
         | TEmpty -> [ "e"; mask_s m; "L" ^ string_of_int (int_of_nat l) ]
         | TBool b -> [ "b" ^ b2s b; mask_s m; "L" ^ string_of_int (int_of_nat l) ])
       names obs)

let log_s (calls : (z * z) list) =
  let l = List.rev calls in
  join (("log" :: [ string_of_int (List.length l) ]) @ List.concat (List.map (fun (i, a) -> [ str_of_z i; str_of_z a ]) l))

(* one constructed element: c<how>:<hops>:<source moved from> / alias; the model performs exactly one construction *)
let built_s = function Constructed moved -> if moved then "c2:1:1" else "c1:1:0" | Aliased -> "alias"

let lerr_s = function UseDead -> "use-dead" | OverLive -> "over-live" | TypeConfusion -> "type-confusion" | Leak -> "leak"

let run_case op t =
  match op with
  | "get" ->
      let tc = cat_of_code (next_int t) in
      let k = kind_of_code (next_int t) in
      (opt_cat true (tuple_get_m tc k), opt_cat true (get_spec tc k))
  | "pget" ->
      let tc = cat_of_code (next_int t) in
      let k = kind_of_code (next_int t) in
      let k2 = kind_of_code (next_int t) in
      let two f = match (f tc k, f tc k2) with Some a, Some b -> join [ "ok"; sc a; sc b; "same" ] | _ -> "ill" in
      (two pair_get_m, two get_spec)
  | "fwd" ->
      let ty = kind_of_code (next_int t) in
      let u = cat_of_code (next_int t) in
      (opt_cat false (forward_m ty u), opt_cat false (forward_spec ty u))
  | "fwdlike" ->
      let ty = kind_of_code (next_int t) in
      let u = cat_of_code (next_int t) in
      (opt_cat true (forward_like_m ty u), opt_cat true (forward_like_spec ty u))
  | "invfo" ->
      let fc = cat_of_code (next_int t) in
      let a1 = cat_of_code (next_int t) in
      let a2 = cat_of_code (next_int t) in
      let pr = function
        | Some (f, [ x; y ]) -> join [ "ok"; "r1"; "n1"; call_s f [ (code_of_cat x, 11); (code_of_cat y, 22) ] ]
        | _ -> "ill" in
      (pr (invoke_fo_m fc [ a1; a2 ]), pr (invoke_fo_spec fc [ a1; a2 ]))
  | "invpmf" ->
      let q = pmfq_of (next_int t) in
      let r = receiver_of (next_int t) in
      let pr b = if b then "ok 1 r1 same n1 2:9" else "ok 0" in
      (pr (invoke_pmf_m q r), pr (invoke_pmf_spec q r))
  | "invpmd" ->
      let r = receiver_of (next_int t) in
      (opt_cat true (invoke_pmd_m r), opt_cat true (invoke_pmd_spec r))
  | "refwrap" ->
      let c = next_int t = 1 in
      let a = cat_of_code (next_int t) in
      let pr = function Some (f, x) -> join [ "ok"; "r1"; "n1"; call_s f [ (code_of_cat x, 11) ] ] | None -> "ill" in
      (pr (refwrap_call_m c a), pr (refwrap_call_spec c a))
  | "fref" ->
      let fc = cat_of_code (next_int t) in
      let p = kind_of_code (next_int t) in
      let a = cat_of_code (next_int t) in
      let pr = function
        | Some (f, x) ->
            let c = call_s f [ (code_of_cat x, 11) ] in
            join [ "ok"; "r1"; "n2"; c; c ]
        | None -> "ill" in
      (pr (fref_call_m fc p a), pr (fref_call_spec fc p a))
  | "ipfcall" ->
      let p = kind_of_code (next_int t) in
      let a = cat_of_code (next_int t) in
      let pr = function Some (f, x) -> join [ "ok"; "r1"; "n1"; call_s f [ (code_of_cat x, 11) ] ] | None -> "ill" in
      (pr (ipf_call_m p a), pr (ipf_call_spec p a))
  | "bindfront" ->
      let w = cat_of_code (next_int t) in
      let bk = next_int t in
      let a = cat_of_code (next_int t) in
      let tag = match bk with 1 -> 10 | 2 -> 20 | _ -> 0 in
      let bv = if bk = 0 then 21 else 22 in
      let pr = function
        | Some ((f, Some b), x) -> join [ "ok"; "r1"; "n1"; call_s f [ (code_of_cat b + tag, bv); (code_of_cat x, 42) ] ]
        | Some ((f, None), x) -> join [ "ok"; "r1"; "n1"; call_s f [ (code_of_cat x, 42) ] ]
        | None -> "ill" in
      (pr (bindfront_call_m w (bk <> 3) a), pr (bindfront_call_spec w (bk <> 3) a))
  | "notfn" ->
      let w = cat_of_code (next_int t) in
      let a = cat_of_code (next_int t) in
      let v = next_int t in
      (* the predicate returns (v is even); not_fn negates it *)
      let res = if not (v mod 2 = 0) then "t" else "f" in
      let pr = function Some (f, x) -> join [ "ok"; res; "n1"; call_s f [ (code_of_cat x, v) ] ] | None -> "ill" in
      (pr (notfn_call_m w a), pr (notfn_call_spec w a))
  | "apply" | "mft" ->
      let fc = cat_of_code (next_int t) in
      let tc = cat_of_code (next_int t) in
      let n = next_int t in
      let kinds = List.init n (fun _ -> kind_of_code (next_int t)) in
      let vals = [ 11; 22 ] in
      let args gs = List.mapi (fun i g -> (code_of_cat g, List.nth vals i)) gs in
      if op = "apply" then
        let pr = function Some (f, gs) -> join [ "ok"; "n1"; call_s f (args gs) ] | None -> "ill" in
        (pr (apply_cats_m fc tc kinds), pr (apply_cats_spec fc tc kinds))
      else
        let pr = function
          | Some gs -> join ([ "ok"; "n1"; "q9" ] @ List.map (fun (c, v) -> string_of_int c ^ ":" ^ string_of_int v) (args gs))
          | None -> "ill" in
        (pr (mft_cats_m tc kinds), pr (get_all_spec tc kinds))
  | "applyp" ->
      let tc = cat_of_code (next_int t) in
      let _which = next_int t in
      let kinds = [ kind_of_code 0; kind_of_code 0 ] in
      let pr = function
        | Some [ a; b ] -> join [ "ok"; "n1"; call_s lV [ (code_of_cat a, 11); (code_of_cat b, 22) ] ]
        | _ -> "ill" in
      (pr (apply_pair_cats_m tc kinds), pr (get_all_spec tc kinds))
  | "catx" ->
      let spec = next_intlist t in
      let rec operands i = function
        | c :: n :: rest ->
            (cat_of_code c, List.init n (fun j -> (kind_of_code 0, zi ((10 * (i + 1)) + j)))) :: operands (i + 1) rest
        | _ -> [] in
      (* three operands: arities are fixed to (1, 2, 1) in the harness *)
      let spec = if List.length spec = 6 then
          [ List.nth spec 0; 1; List.nth spec 2; 2; List.nth spec 4; 1 ] else spec in
      let ops = operands 0 spec in
      let pr = function
        | Some l ->
            join ([ "ok"; string_of_int (List.length l) ]
                  @ List.map (fun (v, b) ->
                        match b with
                        | Constructed moved -> str_of_z v ^ ":" ^ (if moved then "2" else "1") ^ ":2"
                        | Aliased -> str_of_z v ^ ":alias") l)
        | None -> "ill" in
      (pr (tuple_cat_t_m ops), pr (tuple_cat_t_spec ops))
  | "catkind" ->
      let k = kind_of_code (next_int t) in
      let pr r = join [ "ok"; string_of_int (code_of_kind r); (match r.rf with RNone -> "5" | _ -> "6") ] in
      (pr (cat_result_kind_m k), pr (cat_result_kind_spec k))
  | "catnest" ->
      let two = nat_of_int 2 in
      ( join [ "ok"; string_of_int (int_of_nat (cat_single_nested_arity_m two)) ],
        join [ "ok"; string_of_int (int_of_nat (cat_single_nested_arity_spec two)) ] )
  | "passign" ->
      let dk = kind_of_code (next_int t) in
      let sk = kind_of_code (next_int t) in
      let s = cat_of_code (next_int t) in
      let pr = function
        | Some moved ->
            let h = if moved then "2" else "1" in
            let f = if moved then "1" else "0" in
            join [ "ok"; "3"; "4"; h; h; f; f ]
        | None -> "ill" in
      (pr (pair_assign_m dk sk s), pr (pair_assign_spec dk sk s))
  | "catk" ->
      let k = kind_of_code (next_int t) in
      let c = cat_of_code (next_int t) in
      if code_of_kind k >= 4 && code_of_cat c < 2 then ("unsupported", "unsupported")
      else
        let pr kind = function
          | Some [ (_, b) ] -> join [ "ok"; string_of_int (code_of_kind kind); built_s b ]
          | _ -> "ill" in
        let ops = [ (c, [ (k, zi 5) ]) ] in
        (pr (cat_result_kind_m k) (tuple_cat_t_m ops), pr (cat_result_kind_spec k) (tuple_cat_t_spec ops))
  | "telem" ->
      let k = kind_of_code (next_int t) in
      let pr r = let c = string_of_int (code_of_kind r) in join [ "ok"; c; c; c ] in
      (pr (tuple_element_kind_m k), pr (tuple_element_kind_spec k))
  | "xfer" -> (join ("ok" :: List.map str_of_z xfer_m), join ("ok" :: List.map str_of_z xfer_spec))
  | "pctor" ->
      let k = kind_of_code (next_int t) in
      let a = cat_of_code (next_int t) in
      let pr = function Some b -> join [ "ok"; built_s b; "7" ] | None -> "ill" in
      (pr (pair_ctor_m k a), pr (init_spec k a))
  | "pconv" ->
      let dk = kind_of_code (next_int t) in
      let sk = kind_of_code (next_int t) in
      let sc = cat_of_code (next_int t) in
      let pr = function Some b -> join [ "ok"; built_s b; "1" ] | None -> "ill" in
      (pr (pair_conv_ctor_m dk sk sc), pr (pair_conv_spec dk sk sc))
  | "tctor" ->
      let spec = next_intlist t in
      let rec split = function k :: a :: r -> let ks, cs = split r in (kind_of_code k :: ks, cat_of_code a :: cs) | _ -> ([], []) in
      let ks, cs = split spec in
      let pr = function
        | Some l -> join ([ "ok"; string_of_int (List.length l) ] @ List.map built_s l)
        | None -> "ill" in
      (pr (tuple_ctor_all_m ks cs), pr (tuple_ctor_all_spec ks cs))
  | "mk" ->
      let which = next_int t in
      let a = cat_of_code (next_int t) in
      let value_kind = { cst = false; rf = RNone } in
      let prv = function Some b -> join [ "ok"; string_of_int (code_of_kind value_kind); built_s b ] | None -> "ill" in
      let prf = function Some (k, b) -> join [ "ok"; string_of_int (code_of_kind k); built_s b ] | None -> "ill" in
      if which = 0 then (prv (make_pair_transfer_m a), prv (make_value_spec a))
      else if which = 1 then (prv (make_tuple_transfer_m a), prv (make_value_spec a))
      else (prf (forward_as_tuple_m a), prf (forward_as_tuple_spec a))
  | "bindfront2" ->
      let w = cat_of_code (next_int t) in
      let a1 = cat_of_code (next_int t) in
      let a2 = cat_of_code (next_int t) in
      let pr = function
        | Some (f, [ b1; b2; x; y ]) ->
            join [ "ok"; "r1"; "n1"; call_s f [ (code_of_cat b1, 21); (code_of_cat b2, 31); (code_of_cat x, 42); (code_of_cat y, 43) ] ]
        | _ -> "ill" in
      (pr (bindfront_call_all_m w (nat_of_int 2) [ a1; a2 ]), pr (wrapper_call_all_spec w (nat_of_int 2) [ a1; a2 ]))
  | "notfn2" ->
      let w = cat_of_code (next_int t) in
      let a1 = cat_of_code (next_int t) in
      let a2 = cat_of_code (next_int t) in
      let v = next_int t in
      (* the predicate returns (all arguments even); the arguments are v and v + 2 *)
      let res = if not (v mod 2 = 0) then "t" else "f" in
      let pr = function
        | Some (f, [ x; y ]) -> join [ "ok"; res; "n1"; call_s f [ (code_of_cat x, v); (code_of_cat y, v + 2) ] ]
        | _ -> "ill" in
      (pr (notfn_call_all_m w [ a1; a2 ]), pr (wrapper_call_all_spec w (nat_of_int 0) [ a1; a2 ]))
  | "refwrap2" ->
      let c = next_int t = 1 in
      let a1 = cat_of_code (next_int t) in
      let a2 = cat_of_code (next_int t) in
      let pr = function
        | Some (f, [ x; y ]) -> join [ "ok"; "r1"; "n1"; call_s f [ (code_of_cat x, 11); (code_of_cat y, 12) ] ]
        | _ -> "ill" in
      (pr (refwrap_call_all_m c [ a1; a2 ]), pr (refwrap_call_all_spec c [ a1; a2 ]))
  | "ipfcall2" | "fref2" ->
      let fc = if op = "fref2" then cat_of_code (next_int t) else lV in
      let sp = next_int t in
      let a1 = cat_of_code (next_int t) in
      let a2 = cat_of_code (next_int t) in
      let k1, k2 = match sp with 0 -> (0, 2) | 1 -> (2, 4) | 2 -> (4, 0) | 3 -> (3, 5) | _ -> (5, 3) in
      let ps = [ kind_of_code k1; kind_of_code k2 ] in
      let pr = function
        | Some (f, [ x; y ]) -> join [ "ok"; "r1"; "n1"; call_s f [ (code_of_cat x, 11); (code_of_cat y, 12) ] ]
        | _ -> "ill" in
      if op = "fref2" then (pr (fref_call_all_m fc ps [ a1; a2 ]), pr (fref_call_all_spec fc ps [ a1; a2 ]))
      else (pr (ipf_call_all_m ps [ a1; a2 ]), pr (ipf_call_all_spec ps [ a1; a2 ]))
  | "ret" ->
      let which = next_int t in
      let rki = next_int t in
      let r = kind_of_code (if rki = 0 then 0 else rki + 1) in
      let pr = function
        | Some (x : ty) -> (match x.rf with RNone -> join [ "ok"; sc x; "v7" ] | _ -> join [ "ok"; sc x; "same" ])
        | None -> "ill" in
      let m = match which with
        | 0 -> invoke_ret_m r | 1 -> invoke_memptr_ret_m r | 2 -> apply_ret_m r | 3 -> refwrap_ret_m r
        | _ -> bindfront_ret_m r in
      (pr m, pr (transparent_ret_spec r))
  | "retsig" ->
      let fref = next_int t = 1 in
      let rsi = next_int t in
      let rki = next_int t in
      let rs = kind_of_code (if rsi = 0 then 0 else rsi + 1) in
      let r = kind_of_code (if rki = 0 then 0 else rki + 1) in
      if rsi > 0 && rki = 0 then ("unsupported", "unsupported")
      else
        let pr = function
          | Some (x : ty) -> (match x.rf with RNone -> join [ "ok"; sc x; "v7" ] | _ -> join [ "ok"; sc x; "same" ])
          | None -> "ill" in
        (pr (if fref then fref_ret_m rs r else ipf_ret_m rs r), pr (sig_ret_spec rs r))
  | "refwf" ->
      let a = cat_of_code (next_int t) in
      ( join [ "ok"; b2s (refwrap_ctor_wf_m false a); b2s (refwrap_ctor_wf_m true a); b2s (ref_wf_m a); b2s (cref_wf_m a) ],
        join [ "ok"; b2s (refwrap_ctor_wf_spec false a); b2s (refwrap_ctor_wf_spec true a); b2s (ref_wf_spec a); b2s (cref_wf_spec a) ] )
  | "tinit" ->
      let n = next_z t in
      let pr l = join ("ok" :: List.map str_of_z l) in
      (pr (tuple_init_m n), pr (tuple_init_spec n))
  | "prelnan" ->
      (* members are doubles; token 777777 is NaN (None).  model: pair.hpp's definitions over the partial order;
         spec: the C++20 relations synthesised from operator<=> *)
      let v () = let x = next_z t in if str_of_z x = "777777" then None else Some x in
      let a1 = v () in let a2 = v () in let b1 = v () in let b2 = v () in
      let p = (a1, a2) and q = (b1, b2) in
      let lt a b = is_lt (ocmp a b) in
      let eq a b = (match ocmp a b with PEquiv -> true | _ -> false) in
      let m = [ pair_eq_m eq p q; pair_ne_m eq p q; pair_lt_m lt p q; pair_le_m lt p q; pair_gt_m lt p q; pair_ge_m lt p q ] in
      let c = pair_cmp3_spec ocmp p q in
      let e = eq a1 b1 && eq a2 b2 in
      let s = [ e; not e; is_lt c; is_le c; is_gt c; is_ge c ] in
      (join ("ok" :: List.map b2s m), join ("ok" :: List.map b2s s))
  | "prel" ->
      let a1 = next_z t in let a2 = next_z t in let b1 = next_z t in let b2 = next_z t in
      let p = (a1, a2) and q = (b1, b2) in
      let lt = Z.ltb and eq = Z.eqb in
      let m = [ pair_eq_m eq p q; pair_ne_m eq p q; pair_lt_m lt p q; pair_le_m lt p q; pair_gt_m lt p q; pair_ge_m lt p q ] in
      let s = [ zpair_eq_spec p q; not (zpair_eq_spec p q); zpair_lt_spec p q; zpair_le_spec p q; zpair_gt_spec p q;
                zpair_ge_spec p q ] in
      (join ("ok" :: List.map b2s m), join ("ok" :: List.map b2s s))
  | "pops" ->
      let a1 = next_z t in let a2 = next_z t in let b1 = next_z t in let b2 = next_z t in
      let p = (a1, a2) and q = (b1, b2) in
      let pz (x, y) = [ str_of_z x; str_of_z y ] in
      (* copies / conversions / make_pair are member-wise initialisation (language); assignment and swap are modelled *)
      let r0 = p and c = q and m = (a1, b2) in
      let r1 = pair_assign_val_m r0 q in
      let s0 = p in
      let s1, q1 = pair_swap_m s0 q in
      let s2, q2 = pair_swap_m s1 q1 in
      let r2 = pair_assign_val_m r1 (b2, a1) in
      let r3 = pair_assign_val_m r2 (a2, b1) in
      let r4 = pair_assign_val_m r3 r3 in
      let out = List.concat [ pz r0; pz c; pz m; pz r1; pz s1; pz q1; pz s2; pz q2; pz r2; pz r3; pz r4; pz (z0, z0); pz p; pz p ] in
      let sp = List.concat [ pz p; pz q; pz m; pz q; pz q; pz p; pz p; pz q; pz (b2, a1); pz (a2, b1); pz (a2, b1);
                             pz (z0, z0); pz p; pz p ] in
      (join ("ok" :: out), join ("ok" :: sp))
  | "teq" ->
      let l1 = next_zlist t in let l2 = next_zlist t in
      let m = [ tuple_eq_m Z.eqb z0 l1 l2; tuple_ne_m Z.eqb z0 l1 l2; tuple_eq_m Z.eqb z0 l2 l1 ] in
      let e = zlist_eq_spec l1 l2 in
      (* the last two: the same comparison between tuples of different element types *)
      let m = m @ [ tuple_eq_m Z.eqb z0 l1 l2; tuple_ne_m Z.eqb z0 l2 l1 ] in
      (join ("ok" :: List.map b2s m), join ("ok" :: List.map b2s [ e; not e; e; e; not e ]))
  | "tswap" ->
      let l1 = next_zlist t in let l2 = next_zlist t in
      let a, b = tuple_swap_m z0 l1 l2 in
      let a', b' = tuple_swap_m z0 a b in   (* the non-member swap calls the member swap *)
      (join [ "ok"; zlist_s a; zlist_s b; zlist_s a'; zlist_s b' ], join [ "ok"; zlist_s l2; zlist_s l1; zlist_s l1; zlist_s l2 ])
  | "tswapref" ->
      let a = next_z t in let b = next_z t in let c = next_z t in let d = next_z t in
      (join ("ok" :: List.map str_of_z (tuple_swap_refs_m a b c d)), join ("ok" :: List.map str_of_z (tuple_swap_refs_spec a b c d)))
  | "tget" ->
      let l = next_zlist t in
      let e = idx_expand z0 l in
      let zeros = List.map (fun _ -> z0) l in
      (join [ "ok"; zlist_s e; zlist_s e; zlist_s zeros ], join [ "ok"; zlist_s l; zlist_s l; zlist_s zeros ])
  | "tapply" ->
      let l = next_zlist t in
      let a = apply_m z0 (fun x -> x) l in
      let b = make_from_tuple_m z0 (fun x -> x) l in
      (join [ "ok"; "1"; zlist_s a; zlist_s b ], join [ "ok"; "1"; zlist_s l; zlist_s l ])
  | "tcat" ->
      let m = next_int t in
      let ops = List.init m (fun _ -> next_zlist t) in
      (join [ "ok"; zlist_s (tuple_cat_m z0 ops) ], join [ "ok"; zlist_s (tuple_cat_spec ops) ])
  | "tcatmix" ->
      let v = next_zlist t in
      let rec pairs = function a :: b :: r -> [ a; b ] :: pairs r | _ -> [] in
      let ops = pairs v in
      (join [ "ok"; zlist_s (tuple_cat_m z0 ops) ], join [ "ok"; zlist_s (tuple_cat_spec ops) ])
  | "ptraits" ->
      let e1 = elem_of_code (next_int t) in
      let e2 = elem_of_code (next_int t) in
      let co = (match (e1, e2) with ECopyOnly, _ | _, ECopyOnly -> true | _ -> false) in
      let sw b = if co then "x" else b2s b in
      (join (("ok" :: List.map b2s (pair_traits_m e1 e2)) @ [ sw (pair_swappable_m e1 e2) ]),
       join (("ok" :: List.map b2s (pair_traits_spec e1 e2)) @ [ sw (pair_swappable_spec e1 e2) ]))
  | "ttraits" ->
      let n = next_int t in
      let es = List.init n (fun _ -> elem_of_code (next_int t)) in
      let co = List.mem ECopyOnly es in
      let sw b = if co then "x" else b2s b in
      (join (("ok" :: List.map b2s (tuple_traits_m es)) @ [ sw (tuple_swappable_m es) ]),
       join (("ok" :: List.map b2s (tuple_traits_spec es)) @ [ sw (tuple_swappable_spec es) ]))
  | "voidret" ->
      let x = next_z t in
      (join [ "ok"; str_of_z (void_ret_m x) ], join [ "ok"; str_of_z (void_ret_spec x) ])
  | "makepairref" ->
      let x = next_z t in let y = next_z t in
      let a' = Z.add x (zi 1) in
      let pr f =
        join [ "ok"; string_of_int (code_of_kind (f (Some false))); string_of_int (code_of_kind (f None));
               string_of_int (code_of_kind (f (Some true))); string_of_int (code_of_kind (f None));
               str_of_z a'; str_of_z a'; str_of_z x; str_of_z y ] in
      (pr make_pair_member_m, pr make_pair_member_spec)
  | "sbind" -> (join [ "ok"; b2s tuple_structured_binding_m ], join [ "ok"; b2s tuple_structured_binding_spec ])
  | "tupconv" ->
      let six b = join ("ok" :: List.init 6 (fun _ -> b2s b)) in
      (six tuple_converting_ctor_m, six tuple_converting_ctor_spec)
  | "getbytype" ->
      ( join [ "ok"; b2s (get_by_type_m true); b2s (get_by_type_m false) ],
        join [ "ok"; b2s (get_by_type_spec true); b2s (get_by_type_spec false) ] )
  | "retref" ->
      (* every wrapper returns the callable's A& result as it is: decltype(auto) / invoke_result_t of the call *)
      let which = next_int t in
      let r = opt_cat true (ret_decltype_auto lV) in
      ignore which; (r, r)
  | "refwrapstd" ->
      (* values only: ref(std::function)(x) = x + 1, cref(StrLen)(string of |x| mod 7 characters) *)
      let x = next_z t in
      let r = refwrap_std_m x in
      let sp = refwrap_std_spec x in
      (join [ "ok"; str_of_z (fst r); str_of_z (snd r); str_of_z (snd r); str_of_z (snd r); "1"; "1" ],
       join [ "ok"; str_of_z (fst sp); str_of_z (snd sp); str_of_z (snd sp); str_of_z (snd sp); "1"; "1" ])
  | "refwrapops" ->
      let a = next_z t in let b = next_z t in
      let pr ((s, a'), b') = join [ "ok"; "1"; "1"; "1"; "1"; "1"; str_of_z s; str_of_z a'; str_of_z b' ] in
      (pr (refwrap_ops_m a b), pr (refwrap_ops_spec a b))
  | "frefptr" ->
      let v = next_z t in
      let pr (vals, bits) = join (("ok" :: List.map str_of_z vals) @ List.map b2s bits) in
      (pr (fref_ptr_m v), pr (fref_ptr_spec v))
  | "lang" ->
      (* the language rules of Model.v part (iii) against the compiler: no specification leg *)
      let rule = next_str t in
      let x = next_int t in
      let y = next_int t in
      let wf_cat = function Some c -> join [ "ok"; sc c ] | None -> "ill" in
      let k2s k = string_of_int (code_of_kind k) in
      let m =
        match rule with
        | "binds" -> join [ "ok"; b2s (binds (kind_of_code x) (cat_of_code y)) ]
        | "scast" -> wf_cat (static_cast_ref (kind_of_code x) (cat_of_code y))
        | "member" -> wf_cat (Some (member_lv (x = 1) (kind_of_code y)))
        | "autolref" -> wf_cat (ret_auto_lref (cat_of_code y))
        | "autofwd" -> wf_cat (ret_auto_fwd (cat_of_code y))
        | "dedfwd" ->
            let c = cat_of_code y in
            (match perfect_fwd c with
             | Some f -> join [ "ok"; k2s (deduce_fwd c); sc (named c); sc f ]
             | None -> "ill")
        | "pmf" -> join [ "ok"; b2s (pmf_callable (pmfq_of x) (cat_of_code y)) ]
        | "init" ->
            (match init_elem (kind_of_code x) (cat_of_code y) with
             | Some (Constructed false) -> "ok 1" | Some (Constructed true) -> "ok 2" | Some Aliased -> "ok alias" | None -> "ill")
        | "collapse" ->
            let k = kind_of_code y in
            join [ "ok"; k2s (add_const k); k2s (add_lref k); k2s (add_rref k); k2s (remove_ref k) ]
        | "ovl" ->
            let c = cat_of_code y in
            (match x with
             | 0 -> join [ "ok"; (if picks_cref_over_template c then "0" else "1") ]
             | 3 -> join [ "ok"; (if picks_rref_template c then "1" else "0") ]
             | _ ->
                 let xt = { cst = (x = 2); rf = RNone } in
                 let p = if picks_rref_overload xt c then { cst = xt.cst; rf = RR } else { cst = xt.cst; rf = RL } in
                 if binds p c then join [ "ok"; (if picks_rref_overload xt c then "1" else "0") ] else "ill")
        | "move" ->
            let c = cat_of_code y in
            join ([ "ok"; sc (move_e c) ] @ [ (if y < 2 then sc (as_const_e c) else "-") ])
        | _ -> "na" in
      (m, "na")
  | "ipfmem" ->
      let x = next_z t in
      let w i = nat_of_int i in
      (* f, g constructed from a member pointer; fn, gn from a null member pointer; fa, ga assigned a null member pointer *)
      let ops = [ OCtorTarget (w 0, zi 0); OCtorTarget (w 1, zi 1); OCtorNullFn (w 2); OCtorNullFn (w 3);
                  OCtorTarget (w 4, zi 0); OAssignNullFn (w 4); OCtorTarget (w 5, zi 1); OAssignNullFn (w 5);
                  OBool (w 0); OBool (w 1); OBool (w 2); OBool (w 3); OBool (w 4); OBool (w 5) ] in
      let bools obs = List.filter_map (fun ((tk, _), _) -> match tk with TBool b -> Some (b2s b) | _ -> None) obs in
      let pr (a, b) bs = join ([ "ok"; str_of_z a; str_of_z b ] @ bs) in
      let model =
        match run_m [] [] (w 6) init_state ops with
        | Bad e -> "ub " ^ lerr_s e
        | Good (_, obs) -> pr (memptr_target_m x) (bools obs) in
      let _, sobs = run_s [] [] (w 6) init_astate ops in
      (model, pr (memptr_target_spec x) (bools sobs))
  | "wctor" ->
      let fc = cat_of_code (next_int t) in
      let a1 = cat_of_code (next_int t) in
      let a2 = cat_of_code (next_int t) in
      let how = function Constructed false -> "11" | Constructed true -> "21" | Aliased -> "alias" in
      let from = function Constructed true -> "1" | _ -> "0" in
      let pr bf nf =
        match bf, nf with
        | Some (f, bs), Some n -> join ([ "ok"; how f ] @ List.map how bs @ [ from f ] @ List.map from bs @ [ how n; from n ])
        | _, _ -> "ill" in
      let vk = { cst = false; rf = RNone } in
      (pr (bindfront_ctor_m fc [ a1; a2 ]) (notfn_ctor_m fc), pr (wrapper_ctor_spec fc [ a1; a2 ]) (init_spec vk fc))
  | "wrapcopy" ->
      let x = next_z t in let y = next_z t in
      let pr ((vals, bits), acc) = join (("ok" :: List.map str_of_z vals) @ List.map b2s bits @ [ str_of_z acc ]) in
      (pr (wrapcopy_m x y), pr (wrapcopy_spec x y))
  | "frefwf" ->
      let q = next_int t in
      let a = cat_of_code (next_int t) in
      let pr wf = join ([ "ok"; b2s wf ] @ (if wf then [ string_of_int (5 + 10 + q) ] else [])) in
      (pr (fref_ctor_wf_m (pmfq_of q) a), pr (fref_ctor_wf_spec (pmfq_of q) a))
  | "frefops" ->
      let v = next_z t in
      (join ("ok" :: List.map str_of_z (fref_ops_m v)), join ("ok" :: List.map str_of_z (fref_ops_spec v)))
  | "notfnstatic" ->
      let v = next_z t in
      (join [ "ok"; b2s (notfn_static_m v) ], join [ "ok"; b2s (notfn_static_spec v) ])
  | "ipfsizes" ->
      (* the same history for every capture size: the model does not depend on the size *)
      let nsizes = next_int t in
      let n = nat_of_int 3 in
      let one = zi 1 in
      let ops = [ OCtorTarget (nat_of_int 0, one); OCopyCtor (nat_of_int 1, nat_of_int 0); OMoveCtor (nat_of_int 2, nat_of_int 0);
                  OSwap (nat_of_int 1, nat_of_int 2); OCall (nat_of_int 1, zi 3); OCall (nat_of_int 2, zi 4); OBool (nat_of_int 0) ] in
      let toks_of obs =
        List.filter_map (fun ((tk, _), _) ->
            match tk with TCall r -> Some ("c" ^ str_of_z r) | TEmpty -> Some "e" | TBool b -> Some ("b" ^ b2s b) | _ -> None) obs in
      let all = [ zi 0; zi 1; zi 2 ] in
      let model =
        match run_m [] all n init_state ops with
        | Bad e -> "ub " ^ lerr_s e
        | Good (s, obs) -> (
            match destroy_all n s with
            | Bad e -> "ub-at-destruction " ^ lerr_s e
            | Good s' ->
                join ([ "ok" ] @ toks_of obs
                      @ [ "live" ^ string_of_int (int_of_nat (live_m all n s')); "bad0"; "sizes"; string_of_int nsizes ])) in
      let _, sobs = run_s [] all n init_astate ops in
      let spec = join ([ "ok" ] @ toks_of sobs @ [ "live0"; "bad0"; "sizes"; string_of_int nsizes ]) in
      (model, spec)
  | "ipf" | "ipfx" ->
      let pal = next_int t in
      let nb0 = next_int t in
      let ns0 = if op = "ipfx" then next_int t else 0 in
      let nops = next_int t in
      let raw = List.init nops (fun _ -> let c = next_int t in let a = next_int t in let b = next_int t in (c, a, b)) in
      let nb, ns = if nb0 < 0 || ns0 < 0 || nb0 + ns0 < 1 || nb0 + ns0 > 4 then (2, 0) else (nb0, ns0) in
      let nw = nb + ns in
      let n = nat_of_int nw in
      let stateless, tracked = palette_sets pal in
      let stateless = List.map zi stateless and tracked = List.map zi tracked in
      (* unknown opcodes, negative indices and operations the wrapper TYPES do not allow (wrappers nb .. nb+ns-1 have the
         small capacity: see ipf_well_typed in c20_ipf.inc) are skipped by the harness: map them to an out-of-range op *)
      let far = nat_of_int 99 in
      let small i = i >= nb in
      let fits tg = List.mem tg (match pal with 3 -> [ 0; 2 ] | _ -> [ 0 ]) in
      let b_is_wrapper c = List.mem c [ 1; 2; 3; 4; 6; 7 ] in
      let well_typed c a b =
        match c with
        | 0 | 12 -> (not (small a)) || fits b
        | 1 | 2 | 3 | 4 -> not (small a && not (small b))
        | 6 | 7 -> small a = small b
        | 10 | 11 -> not (small a)
        | _ -> true in
      let named =
        List.map
          (fun (c, a, b) ->
            if a < 0 || a >= nw || (b_is_wrapper c && (b < 0 || b >= nw)) then ("skip", OBool far)
            else if not (well_typed c a b) then ("skip", OBool far)
            else
              (* big destination, small persistent source: the converting constructors *)
              let conv = b_is_wrapper c && (not (small a)) && small b in
              let wa = nat_of_int a and wb = nat_of_int b in
              match c with
              | 1 when conv -> ("ca", OConvCopyAssign (wa, wb))
              | 2 when conv -> ("ma", OConvMoveAssign (wa, wb))
              | 3 when conv -> ("cc", OConvCopyCtorW (wa, wb))
              | 4 when conv -> ("mc", OConvMoveCtorW (wa, wb))
              | _ -> (match op_of c a b with Some (nm, o) -> (nm, o) | None -> ("skip", OBool far)))
          raw in
      let names = List.map fst named and ops = List.map snd named in
      let model =
        match run_m stateless tracked n init_state ops with
        | Bad e -> "ub " ^ lerr_s e
        | Good (s, obs) -> (
            match destroy_all n s with
            | Bad e -> "ub-at-destruction " ^ lerr_s e
            | Good s' ->
                join ([ "ok" ] @ obs_s names obs
                      @ [ log_s s.calls; "live"; string_of_int (int_of_nat (live_m tracked n s')); "bad"; "0" ])) in
      let a, sobs = run_s stateless tracked n init_astate ops in
      let spec = join ([ "ok" ] @ obs_s names sobs @ [ log_s a.acalls; "live"; "0"; "bad"; "0" ]) in
      (model, spec)
  | "amp" ->
      (* object identity under an overloaded unary operator&: model = ModelAddr.arun_m (takes the address with
         etl::addressof, parametric in what operator& answers), spec = SpecAddr.arun_s (never sees operator&) *)
      let a = List.init 3 (fun _ -> next_int t) in
      let vals = List.init 3 (fun _ -> next_z t) in
      let n = next_int t in
      let raw = List.init n (fun _ -> let c = next_int t in let p = next_int t in let q = next_int t in let z = next_z t in (c, p, q, z)) in
      let amp i = nat_of_int (List.nth a (min (int_of_nat i) 2)) in
      let far = nat_of_int 99 in
      let nn i = if i < 0 then far else nat_of_int i in
      let op_of (c, p, q, z) =
        let p = nn p and q = nn q in
        match c with
        | 0 -> ("ref", ARef (p, q)) | 1 -> ("ctor", ACtor (p, q)) | 2 -> ("copy", ACopyW (p, q)) | 3 -> ("refw", ARefW (p, q))
        | 4 -> ("write", AWrite (p, z)) | 5 -> ("conv", AConv (p, z)) | 6 -> ("call", ACall (p, z))
        | 7 -> ("cref", ACref (p, z)) | 8 -> ("crefw", ACrefW (p, z)) | 9 -> ("view", AView (p, z))
        | 10 -> ("cview", ACView (p, z)) | 11 -> ("vieww", AViewW (p, z)) | 12 -> ("own", AOwn (p, z))
        | 13 -> ("ownw", AOwnW (p, z)) | 14 -> ("invref", AInvRef (p, z)) | 15 -> ("invptr", AInvPtr (p, z))
        | 16 -> ("invobj", AInvObj (p, z)) | 17 -> ("invw", AInvW (p, z)) | 18 -> ("bindref", ABindRef (p, z))
        | 19 -> ("bindobj", ABindObj (p, z)) | 20 -> ("bindw", ABindW (p, z)) | 21 -> ("bindarg", ABindArg (p, z))
        | 22 -> ("tup", ATup (p, q, z)) | 23 -> ("pair", APair (p, q, z)) | 24 -> ("swap", ASwap (p, q))
        | 25 -> ("apply", AApply (p, q, z))
        | _ -> ("skip", ACall (far, z)) in
      let named = List.map op_of raw in
      let names = List.map fst named and ops = List.map snd named in
      let pr (s, outs) =
        join ([ "ok" ]
              @ List.concat (List.map2 (fun nm o -> match o with Some l -> nm :: List.map str_of_z l | None -> [ "skip" ]) names outs)
              @ [ "objs" ] @ List.concat (List.map (fun o -> [ str_of_z o.ov; str_of_z o.oc ]) s.aobjs)
              @ [ "rw" ] @ List.map (function Some r -> string_of_int (int_of_nat r) | None -> "-1") s.arws) in
      let s0 = ainit vals (nat_of_int 2) in
      (pr (arun_m amp s0 ops), pr (arun_s s0 ops))
  | "init" | "initwf" ->
      (* which constructor builds a user type the library constructs from forwarded arguments: model = ModelInit.init_case_m
         (the forms the headers write), spec = SpecInit.init_case_s (the forms the standard prescribes); printing only:
         std::vector hides which constructor built it; sites that show two objects print two *)
      let site = next_int t in
      let scen = next_int t in
      let a = next_z t in
      let b = next_z t in
      if site < 0 || scen < 0 then ("skip", "skip") else begin
        let why = function NoViable -> "noviable" | Ambiguous -> "ambiguous" | Narrowing -> "narrowing" | ExplicitChosen -> "explicit" in
        let obj x =
          if scen = 1 then [ "ok"; "-1"; str_of_z x.osize; (if str_of_z x.osize = "0" then "0" else str_of_z x.ofront); str_of_z x.odepth ]
          else [ "ok"; str_of_z x.ohow; str_of_z x.osize; str_of_z x.ofront; str_of_z x.odepth ] in
        let render case =
          let at k = case (nat_of_int k) (nat_of_int scen) a b in
          match at site with
          | ISkip -> "skip"
          | IIll r -> if op = "initwf" then "ill" else "ill " ^ why r
          | IOk x ->
              if op = "initwf" then "wf" else
              let one_arg = scen = 3 || scen = 4 in
              let self = scen = 5 in
              let twice = (one_arg && List.mem site [ 5; 7; 9; 10 ]) || (self && List.mem site [ 5; 6; 7; 8; 11; 12; 13; 14; 22 ]) in
              let depth = int_of_string (str_of_z x.odepth) in
              let extra =
                if twice then obj x
                else if self && (site = 15 || site = 17) then (match at 14 with IOk y -> obj y | _ -> [ "ill" ])
                else if self && site = 20 then [ string_of_int depth ]
                else if self && site = 21 then [ string_of_int (2 * depth) ]
                else [] in
              join (obj x @ extra) in
        (render init_case_m, (if init_in_domain (nat_of_int site) (nat_of_int scen) then render init_case_s else "na"))
      end
  | "initlang" ->
      (* the language rule ModelInit.resolve, form by form; the compiler is the reference (reference and spec legs na) *)
      let form = next_int t in
      let scen = next_int t in
      let a = next_z t in
      let b = next_z t in
      if form < 0 || scen < 0 then ("skip", "na") else
        ((match lang_case_m (nat_of_int form) (nat_of_int scen) a b with
          | ISkip -> "skip"
          | IIll _ -> "ill"
          | IOk x ->
              if scen = 1 then join [ "ok"; "-1"; str_of_z x.osize; (if str_of_z x.osize = "0" then "0" else str_of_z x.ofront); str_of_z x.odepth ]
              else join [ "ok"; str_of_z x.ohow; str_of_z x.osize; str_of_z x.ofront; str_of_z x.odepth ]),
         "na")
  | "expl" ->
      (* the conditional explicit-specifier of the pair / tuple constructors (ModelExpl / SpecExpl): (constructible, implicit)
         of the destination type from the site's source expression; element codes = the table of c20_expl.inc *)
      let site = next_int t in
      let n = next_int t in
      let codes = List.init (max n 0) (fun _ -> next_int t) in
      let known = List.for_all (fun c -> c >= 0 && c < 8) codes in
      let third_ok = n < 3 || List.mem (List.nth codes 2) [ 0; 1; 2; 3; 7 ] in
      if site < 0 || n < 0 || n > 3 || not known || not third_ok then ("skip", "skip") else begin
        let es = List.map edesc_of_code codes in
        let pr = function Some (c, i) -> join [ "ok"; b2s c; b2s i ] | None -> "skip" in
        (pr (expl_case_m (nat_of_int site) es), pr (expl_case_s (nat_of_int site) es))
      end
  | "explw" | "explwx" ->
      (* constructors / conversion functions of the call wrappers: (constructible, implicit) per question *)
      let pr vs = join ("ok" :: List.concat (List.map (fun v -> let (c, i) = xfacts v in [ b2s c; b2s i ]) vs)) in
      if op = "explw" then (pr wrapper_ctors_m, pr wrapper_ctors_spec) else (pr wrapper_ctors_etl_m, pr wrapper_ctors_etl_spec)
  | "explelem" ->
      (* the element table itself against the compiler (reference and spec legs na): default, T const& -> T, U const& -> T,
         U&& -> T, and U& -> T (= U const& -> T for every element of the table) *)
      let code = next_int t in
      if code < 0 || code >= 8 then ("skip", "na") else begin
        let e = edesc_of_code code in
        let l = function CNone -> "N" | CExpl -> "E" | CImpl -> "I" in
        (join [ "ok"; l e.q_def; l e.q_self; l e.q_cref; l e.q_rref; l e.q_cref ], "na")
      end
  | _ -> raise Not_found

let () = main run_case
