// C20 harness: shared instrumentation.
//   Cat codes   : 0 = T& (lvalue), 1 = const T&, 2 = T&& (rvalue), 3 = const T&&, 4/5 = prvalue / const prvalue
//   Kind codes  : 0 = T, 1 = const T, 2 = T&, 3 = const T&, 4 = T&&, 5 = const T&&
#ifndef C20_COMMON_HPP
#define C20_COMMON_HPP
#include "common.hpp"

#include <functional>
#include <limits>
#include <set>
#include <string>
#include <tuple>
#include <type_traits>
#include <utility>
#include <vector>

#include <etl/array.hpp>
#include <etl/functional.hpp>
#include <etl/tuple.hpp>
#include <etl/utility.hpp>

namespace c20 {
using vh::i64;
using vh::Out;
using vh::Toks;

template <typename T>
constexpr int catof()
{
    if constexpr (!std::is_reference_v<T>) {
        return 4 + (std::is_const_v<T> ? 1 : 0);
    } else {
        return (std::is_lvalue_reference_v<T> ? 0 : 2) + (std::is_const_v<std::remove_reference_t<T>> ? 1 : 0);
    }
}

// view an lvalue under one of the four value categories
template <int C, typename X>
constexpr decltype(auto) as_cat(X& x)
{
    if constexpr (C == 0) {
        return static_cast<X&>(x);
    } else if constexpr (C == 1) {
        return static_cast<X const&>(x);
    } else if constexpr (C == 2) {
        return static_cast<X&&>(x);
    } else {
        return static_cast<X const&&>(x);
    }
}

template <int K, typename T>
struct kind_of;
template <typename T> struct kind_of<0, T> { using type = T; };
template <typename T> struct kind_of<1, T> { using type = T const; };
template <typename T> struct kind_of<2, T> { using type = T&; };
template <typename T> struct kind_of<3, T> { using type = T const&; };
template <typename T> struct kind_of<4, T> { using type = T&&; };
template <typename T> struct kind_of<5, T> { using type = T const&&; };
template <int K, typename T>
using kind_t = typename kind_of<K, T>::type;

// run f(integral_constant<int, i>) for the run-time i in [0, N)
template <int N, typename F>
void dispatch(int i, F&& f)
{
    [&]<int... I>(std::integer_sequence<int, I...>) {
        (void)((i == I ? (f(std::integral_constant<int, I>{}), true) : false) || ...);
    }(std::make_integer_sequence<int, N>{});
}

// ---- argument payload and call log -------------------------------------------------------
struct A {
    int v = 0;
};

struct Rec {
    int id;
    int thisq;
    std::vector<std::pair<int, int>> args; // (category, value)
};
inline std::vector<Rec> g_log;

[[gnu::noinline]] inline void print_log(Out& o)
{
    o.tok("n" + std::to_string(g_log.size()));
    for (auto const& r : g_log) {
        o.tok("q" + std::to_string(r.thisq));
        for (auto const& a : r.args) { o.tok(std::to_string(a.first) + ":" + std::to_string(a.second)); }
    }
}

// non-template sinks, so that the many template instantiations stay small
[[gnu::noinline]] inline i64 log_call(int id, int q, std::initializer_list<std::pair<int, int>> args)
{
    Rec r{id, q, {}};
    i64 res = id;
    for (auto const& a : args) {
        r.args.push_back(a);
        res = res * 31 + a.second;
    }
    g_log.push_back(r);
    return res;
}
[[gnu::noinline]] inline void emit_cat(Out& o, int cat, bool same)
{
    o.tok("ok").num(cat).tok(same ? "same" : "DIFFERENT-OBJECT");
}
[[gnu::noinline]] inline void emit_cat2(Out& o, int cat0, int cat1, bool same)
{
    o.tok("ok").num(cat0).num(cat1).tok(same ? "same" : "DIFFERENT-OBJECT");
}
[[gnu::noinline]] inline void emit_result_and_log(Out& o, bool result_ok)
{
    o.tok("ok").tok(result_ok ? "r1" : "r0");
    print_log(o);
}
[[gnu::noinline]] inline void emit_log(Out& o)
{
    o.tok("ok");
    print_log(o);
}

// arguments may arrive wrapped in a reference_wrapper (bind_front stores decay_t of its bound arguments):
// report the category of the wrapper object + 10 (reference_wrapper<A>) / + 20 (reference_wrapper<A const>)
template <typename T>
struct arg_info {
    static constexpr int tag = 0;
    static int val(T const& t) { return t.v; }
};
template <typename U>
struct arg_info<std::reference_wrapper<U>> {
    static constexpr int tag = std::is_const_v<U> ? 20 : 10;
    static int val(std::reference_wrapper<U> const& t) { return t.get().v; }
};
template <typename U>
struct arg_info<etl::reference_wrapper<U>> {
    static constexpr int tag = std::is_const_v<U> ? 20 : 10;
    static int val(etl::reference_wrapper<U> const& t) { return t.get().v; }
};
template <typename AsRef>
constexpr int argcat()
{
    return catof<AsRef>() + arg_info<std::remove_cvref_t<AsRef>>::tag;
}
template <typename T>
int argval(T const& t)
{
    return arg_info<T>::val(t);
}

// callable overloaded on all four ref-qualifiers; the forwarding-reference parameters reveal the
// exact value category and constness of every argument
struct Callee {
    int id = 0;

    template <typename... As>
    i64 rec(int q, As&&... as) const
    {
        return log_call(id, q, {std::pair<int, int>{argcat<As&&>(), argval(as)}...});
    }
    template <typename... As> i64 operator()(As&&... as) & { return rec(0, std::forward<As>(as)...); }
    template <typename... As> i64 operator()(As&&... as) const& { return rec(1, std::forward<As>(as)...); }
    template <typename... As> i64 operator()(As&&... as) && { return rec(2, std::forward<As>(as)...); }
    template <typename... As> i64 operator()(As&&... as) const&& { return rec(3, std::forward<As>(as)...); }
};

inline i64 expect_res(int id, std::initializer_list<int> vals)
{
    i64 res = id;
    for (int v : vals) { res = res * 31 + v; }
    return res;
}

// ---- tracked element: records how it was created / assigned ------------------------------
struct Tr {
    int v    = 0;
    int how  = 0; // 0 value, 1 copy-constructed, 2 move-constructed
    int gen  = 0; // number of copy/move hops from the original
    int asg  = 0; // last assignment: 0 none, 1 copy-assigned, 2 move-assigned
    int from = 0; // set on the source when it was moved from (construction or assignment)
    Tr() = default;
    Tr(int x) : v(x) { }
    Tr(Tr const& o) : v(o.v), how(1), gen(o.gen + 1) { }
    Tr(Tr&& o) noexcept : v(o.v), how(2), gen(o.gen + 1) { o.from = 1; }
    Tr& operator=(Tr const& o)
    {
        v   = o.v;
        asg = 1;
        return *this;
    }
    Tr& operator=(Tr&& o) noexcept
    {
        v      = o.v;
        asg    = 2;
        o.from = 1;
        return *this;
    }
    friend bool operator==(Tr const& a, Tr const& b) { return a.v == b.v; }
    friend bool operator<(Tr const& a, Tr const& b) { return a.v < b.v; }
};

} // namespace c20
#endif
