// The two libraries under the same interface: EtlLib = code under test, StdLib = reference.
#ifndef C20_LIBS_HPP
#define C20_LIBS_HPP
#include "c20_common.hpp"

#include <array>

namespace c20 {

struct EtlLib {
    static constexpr bool is_etl = true;
    template <typename... Ts> using tuple = etl::tuple<Ts...>;
    template <typename T1, typename T2> using pair = etl::pair<T1, T2>;
    template <typename T, std::size_t N> using array = etl::array<T, N>;
    template <typename T> using reference_wrapper = etl::reference_wrapper<T>;
    template <typename Sig> using function = etl::inplace_function<Sig, 32>;
    template <typename T> static constexpr std::size_t tuple_size_v = etl::tuple_size_v<T>;
    template <std::size_t I, typename T> using tuple_element_t = etl::tuple_element_t<I, T>;

    template <std::size_t I, typename T>
    static constexpr auto get(T&& t) -> decltype(etl::get<I>(static_cast<T&&>(t)))
    {
        return etl::get<I>(static_cast<T&&>(t));
    }
    template <typename T, typename X>
    static constexpr auto forward(X&& x) -> decltype(etl::forward<T>(static_cast<X&&>(x)))
    {
        return etl::forward<T>(static_cast<X&&>(x));
    }
    template <typename F, typename... As>
    static constexpr auto invoke(F&& f, As&&... as) -> decltype(etl::invoke(static_cast<F&&>(f), static_cast<As&&>(as)...))
    {
        return etl::invoke(static_cast<F&&>(f), static_cast<As&&>(as)...);
    }
    template <typename F, typename T>
    static constexpr decltype(auto) apply(F&& f, T&& t)
    {
        return etl::apply(static_cast<F&&>(f), static_cast<T&&>(t));
    }
    template <typename R, typename T>
    static constexpr auto make_from_tuple(T&& t) -> R
    {
        return etl::make_from_tuple<R>(static_cast<T&&>(t));
    }
    template <typename... Ts>
    static constexpr auto tuple_cat(Ts&&... ts)
    {
        return etl::tuple_cat(static_cast<Ts&&>(ts)...);
    }
    template <typename... Ts>
    static constexpr auto bind_front(Ts&&... ts)
    {
        return etl::bind_front(static_cast<Ts&&>(ts)...);
    }
    template <typename F>
    static constexpr auto not_fn(F&& f)
    {
        return etl::not_fn(static_cast<F&&>(f));
    }
    template <typename T> static constexpr auto ref(T& t) { return etl::ref(t); }
    template <typename T> static constexpr auto cref(T const& t) { return etl::cref(t); }
    template <typename T1, typename T2>
    static constexpr auto make_pair(T1&& a, T2&& b)
    {
        return etl::make_pair(static_cast<T1&&>(a), static_cast<T2&&>(b));
    }
    template <typename... Ts>
    static constexpr auto make_tuple(Ts&&... ts)
    {
        return etl::make_tuple(static_cast<Ts&&>(ts)...);
    }
    template <typename... Ts>
    static constexpr auto forward_as_tuple(Ts&&... ts)
    {
        return etl::forward_as_tuple(static_cast<Ts&&>(ts)...);
    }
};

struct StdLib {
    static constexpr bool is_etl = false;
    template <typename... Ts> using tuple = std::tuple<Ts...>;
    template <typename T1, typename T2> using pair = std::pair<T1, T2>;
    template <typename T, std::size_t N> using array = std::array<T, N>;
    template <typename T> using reference_wrapper = std::reference_wrapper<T>;
    template <typename Sig> using function = std::function<Sig>;
    template <typename T> static constexpr std::size_t tuple_size_v = std::tuple_size_v<T>;
    template <std::size_t I, typename T> using tuple_element_t = std::tuple_element_t<I, T>;

    template <std::size_t I, typename T>
    static constexpr auto get(T&& t) -> decltype(std::get<I>(static_cast<T&&>(t)))
    {
        return std::get<I>(static_cast<T&&>(t));
    }
    template <typename T, typename X>
    static constexpr auto forward(X&& x) -> decltype(std::forward<T>(static_cast<X&&>(x)))
    {
        return std::forward<T>(static_cast<X&&>(x));
    }
    template <typename F, typename... As>
    static constexpr auto invoke(F&& f, As&&... as) -> decltype(std::invoke(static_cast<F&&>(f), static_cast<As&&>(as)...))
    {
        return std::invoke(static_cast<F&&>(f), static_cast<As&&>(as)...);
    }
    template <typename F, typename T>
    static constexpr decltype(auto) apply(F&& f, T&& t)
    {
        return std::apply(static_cast<F&&>(f), static_cast<T&&>(t));
    }
    template <typename R, typename T>
    static constexpr auto make_from_tuple(T&& t) -> R
    {
        return std::make_from_tuple<R>(static_cast<T&&>(t));
    }
    template <typename... Ts>
    static constexpr auto tuple_cat(Ts&&... ts)
    {
        return std::tuple_cat(static_cast<Ts&&>(ts)...);
    }
    template <typename... Ts>
    static constexpr auto bind_front(Ts&&... ts)
    {
        return std::bind_front(static_cast<Ts&&>(ts)...);
    }
    template <typename F>
    static constexpr auto not_fn(F&& f)
    {
        return std::not_fn(static_cast<F&&>(f));
    }
    template <typename T> static constexpr auto ref(T& t) { return std::ref(t); }
    template <typename T> static constexpr auto cref(T const& t) { return std::cref(t); }
    template <typename T1, typename T2>
    static constexpr auto make_pair(T1&& a, T2&& b)
    {
        return std::make_pair(static_cast<T1&&>(a), static_cast<T2&&>(b));
    }
    template <typename... Ts>
    static constexpr auto make_tuple(Ts&&... ts)
    {
        return std::make_tuple(static_cast<Ts&&>(ts)...);
    }
    template <typename... Ts>
    static constexpr auto forward_as_tuple(Ts&&... ts)
    {
        return std::forward_as_tuple(static_cast<Ts&&>(ts)...);
    }
};

} // namespace c20
#endif
