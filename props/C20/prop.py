"""C20 — pair, tuple and callable wrappers: case generators and configuration."""
import itertools
import os

ID = "C20"
LEVEL = "proof"
# harness.cpp is compiled as 8 translation units in parallel (at most 4 at a time) by props/C20/pcxx.py
_PCXX = os.path.join(os.path.dirname(os.path.abspath(__file__)), "pcxx.py")
HARNESSES = [{"name": "main", "src": "harness.cpp", "compiler": _PCXX,
              "flags": ["-O1", "-DTETL_ENABLE_CONTRACT_CHECKS=1", "-DC20_NPARTS=8"]},
             # thorough tier: the same cases through an AddressSanitizer + UndefinedBehaviorSanitizer build (a report aborts
             # the case: `crash`); catches use of a destroyed target / dangling reference that the legs cannot print
             {"name": "san", "src": "harness.cpp", "compiler": _PCXX, "thorough_only": True,
              "flags": ["-O1", "-DTETL_ENABLE_CONTRACT_CHECKS=1", "-DC20_NPARTS=8",
                        "-fsanitize=address,undefined", "-fno-sanitize-recover=all"]}]

RULE = ("the complete value-category tables (get / pair get / forward / forward_like / invoke on function objects, "
        "member-function and member-data pointers with object, derived, reference_wrapper and pointer receivers / "
        "reference_wrapper / function_ref / inplace_function call / bind_front / not_fn (one and two call arguments, up to two bound arguments) / apply / make_from_tuple / "
        "tuple_cat element transfer / pair assignment / element transfer of the pair and tuple constructors, make_pair, make_tuple, forward_as_tuple), every pair of pairs and of 2- and 3-tuples over {0,1,2}, all "
        "tuple_cat shapes up to 3 operands of arity <= 3, and inplace_function histories over 2 wrappers x 3 targets x 4 "
        "target palettes: exhaustive to depth 2 over the full operation alphabet (50 operations for 2 wrappers, incl. assignment / construction from a null function pointer), to depth 4 over a 16-operation core alphabet and to depth 5 over a 10-operation alphabet with self swap / self assignment, "
        "plus seeded random histories up to depth 14 (thorough: up to 4 wrappers, depths 3 / 5 / 6, more random); histories over "
        "capacity-32 wrappers mixed with persistent capacity-16 wrappers (ipfx: converting constructors from a live source, as "
        "constructor and as the parameter of operator=): exhaustive to depth 2 (thorough: 3) over every operation the types allow "
        "for 1 + 1 wrappers x 4 palettes, every conversion followed by every operation and a second conversion, random to depth 12 "
        "with up to 2 + 2 wrappers; every history is "
        "followed by probes (bool and two calls per wrapper). The language rules of the model (op lang) over their whole finite "
        "domain against the compiler. Object identity under an overloaded unary operator& (op amp): three objects whose `&` answers with "
        "the address of another object (all 27 answer maps), scripts over 26 operations through reference_wrapper / ref / cref / function_ref / "
        "inplace_function targets / invoke / bind_front / tuple / pair / swap / apply: every observer behind two bound wrappers for every answer "
        "map, every pair of binding operations + probes, every pair of observers, random scripts up to 24 operations. "
        "Which constructor builds a user type the library constructs from forwarded arguments (op init): every construction site "
        "(make_from_tuple from tuple& / && / const& / pair / array, tuple / pair element initialisation and converting constructors, "
        "make_pair, make_tuple, tuple_cat, inplace_function constructor / copy / move / conversions / assignment, bind_front, not_fn, "
        "the return conversion of invoke_r / inplace_function / function_ref) x every target type with an initializer_list constructor "
        "next to the matching ordinary one (Buf, std::vector<size_t>, Conv, Tree with initializer_list<Tree>; control Plain) x 6 value pairs "
        "+ 600 random (thorough 20000); the language rule (op initlang) for every form x class of the model's table; 43 compile-only probes "
        "(extra_checks, props/C20/wf_probes.py) of the combinations whose list form is ill-formed. "
        "The conditional explicit-specifier of every pair / tuple constructor (op expl, the whole domain): is_constructible next to "
        "the implicit fact (is_convertible / copy-list-initialisation through a call) for 12 sites (default, element-wise const&, "
        "element-wise forwarding from rvalues / const lvalues, converting from a pair<U1,U2> const& / & / && / const&&; tuple default / "
        "const& / forwarding) x all 64 pairs of 8 element codes (implicit, explicit-only, absent, value-category dependent) and tuples "
        "of arity 0..3 (8 x 8 x 5), against libstdc++; the element table against the compiler (op explelem); the fixed explicitness of "
        "the call wrappers' constructors and conversion functions (ops explw, explwx). "
        "non-trivial = distinct case line whose impl leg starts "
        "with ok / ill")

TRUSTED_BASE = ["reference leg: libstdc++ 12 std::pair/tuple/function/invoke/bind_front/not_fn/reference_wrapper on the same inputs; "
                "forward_like and function_ref have no libstdc++ 12 counterpart (reference = formula from [forward] resp. the Coq spec leg)",
                "the harness' instrumented callables (forwarding-reference operator() on all four ref-qualifiers) report "
                "categories through template deduction, i.e. the C++ language",
                "op lang: g++ 12 is the reference for the language rules (binding, static_cast, deduction, overload choice) the "
                "model's value-category part is written with; op initlang / the compile-only probes: g++ 12 (with -Werror=narrowing for "
                "the probes) is the reference for which constructor an initialiser form selects and whether it is well-formed"]
ASSUMPTIONS = ["forwarding is largely the C++ language (overload resolution, template deduction, reference collapsing): "
               "the model captures the library's choices (declared return types, etl::move / etl::forward / static_cast / plain use) "
               "and evaluates them with language rules that are compared with the compiler on every run (op lang), not derived from "
               "a formal semantics of C++"]

# op alphabet of the inplace_function histories (opcode, a, b) -- see c20_ipf.inc
def full_alphabet(nw):
    ops = []
    W = range(nw)
    for w in W:
        for t in range(3):
            ops += [(0, w, t), (12, w, t)]
        ops += [(5, w, 0), (13, w, 0), (14, w, 0), (15, w, 0), (16, w, 0), (9, w, 0), (8, w, 7)]
        for v in W:
            ops += [(1, w, v), (2, w, v), (3, w, v), (4, w, v), (6, w, v), (7, w, v)]
    return ops


def conv_ops(nw, pal):
    # targets of at most 16 bytes per palette (they fit the capacity-16 wrapper of the converting constructors)
    fits = {0: [0], 1: [0], 2: [0], 3: [0, 2]}[pal]
    return [(c, w, t) for c in (10, 11) for w in range(nw) for t in fits]


def core_alphabet(nw):
    ops = []
    for w in range(nw):
        ops += [(0, w, w % 3), (5, w, 0)]
        for v in range(nw):
            ops += [(1, w, v), (2, w, v), (6, w, v)]
    return ops


def probes(nw):
    p = []
    for w in range(nw):
        p += [(9, w, 0), (8, w, 3), (8, w, 4)]
    return p


def ipf_line(pal, nw, ops):
    ops = list(ops) + probes(nw)
    return "ipf %d %d %d %s" % (pal, nw, len(ops), " ".join("%d %d %d" % o for o in ops))


def ipfx_line(pal, nb, ns, ops):
    ops = list(ops) + probes(nb + ns)
    return "ipfx %d %d %d %d %s" % (pal, nb, ns, len(ops), " ".join("%d %d %d" % o for o in ops))


def mixed_alphabet(nb, ns, pal):
    """operations on nb full-capacity wrappers followed by ns PERSISTENT capacity-16 wrappers that the types allow (the
    harness and the driver skip the others by the same rule): a big destination with a small source goes through the
    converting constructors of inplace_function"""
    n = nb + ns
    small = lambda i: i >= nb
    fits = {0: [0], 1: [0], 2: [0], 3: [0, 2]}[pal]
    ops = []
    for w in range(n):
        for t in range(3):
            if not small(w) or t in fits:
                ops += [(0, w, t), (12, w, t)]
        ops += [(5, w, 0), (13, w, 0), (15, w, 0), (8, w, 7)]
        for v in range(n):
            if not (small(w) and not small(v)):
                ops += [(1, w, v), (2, w, v), (3, w, v), (4, w, v)]
            if small(w) == small(v):
                ops += [(6, w, v), (7, w, v)]
    return ops


def gen_ipf_mixed(tier, rng):
    out = []
    quick = tier == "quick"
    # one big + one small wrapper: exhaustive to depth 2 (thorough: 3) over everything the types allow, all palettes
    for pal in range(4):
        alpha = mixed_alphabet(1, 1, pal)
        for d in range(1, 3 if quick else 4):
            for h in itertools.product(alpha, repeat=d):
                out.append(ipfx_line(pal, 1, 1, h))
    # the conversions proper in the middle of a history: fill the small wrapper, convert (copy / move, construction /
    # assignment), then any operation, then any second conversion
    for pal in range(4):
        alpha = mixed_alphabet(1, 1, pal)
        conv = [(c, 0, 1) for c in (1, 2, 3, 4)]
        for c1 in conv:
            for o in alpha:
                for c2 in conv:
                    out.append(ipfx_line(pal, 1, 1, [(0, 1, 0), c1, o, c2]))
                    out.append(ipfx_line(pal, 1, 1, [(0, 1, 0), (8, 1, 5), c1, o, c2]))
    # random, deeper, 1..2 big and 1..2 small wrappers, ill-typed and out-of-range operations now and then
    for _ in range(3000 if quick else 40000):
        nb = rng.choice([1, 1, 2])
        ns = rng.choice([1, 1, 2])
        pal = rng.randrange(4)
        alpha = mixed_alphabet(nb, ns, pal)
        depth = rng.randint(3, 12)
        h = [rng.choice(alpha) for _ in range(depth)]
        if rng.random() < 0.15:
            i = rng.randrange(len(h))
            c = rng.choice([0, 1, 2, 3, 4, 6, 7, 10, 11, 12])
            h[i] = (c, rng.randrange(nb + ns + 1), rng.randrange(3))   # possibly ill-typed / out of range: skipped by all legs
        h = [(c, a, rng.randint(0, 999)) if c == 8 else (c, a, b) for (c, a, b) in h]
        out.append(ipfx_line(pal, nb, ns, h))
    return out


def gen_ipf(tier, rng):
    out = ["ipfsizes 48"]   # 28 trivially copyable capture sizes (6..32 bytes) + 20 non-trivial ones (16..32 bytes)
    quick = tier == "quick"
    nw = 2
    full = full_alphabet(nw)
    core = core_alphabet(nw)
    k = 0
    # exhaustive, full alphabet
    for d in range(0, 3 if quick else 4):
        for h in itertools.product(full, repeat=d):
            if d == 3 and not quick and k % 3 != 0:
                k += 1
                continue
            out.append(ipf_line(k % 4, nw, h))
            k += 1
    # converting constructors, exhaustive at depth <= 2 in front of / behind every full op
    for pal in range(4):
        cv = conv_ops(nw, pal)
        for c in cv:
            out.append(ipf_line(pal, nw, [c]))
            for o in full:
                out.append(ipf_line(pal, nw, [c, o]))
                out.append(ipf_line(pal, nw, [o, c]))
    # exhaustive, core alphabet (16 operations)
    for d in range(3, 5 if quick else 6):
        for h in itertools.product(core, repeat=d):
            out.append(ipf_line(k % 4, nw, h))
            k += 1
    # exhaustive depth 5 (thorough: 6) over ten operations that include self swap, self copy / move assignment
    mini = [(0, 0, 0), (0, 1, 1), (1, 0, 1), (1, 1, 1), (2, 0, 1), (2, 1, 1), (6, 0, 1), (6, 0, 0), (5, 0, 0), (8, 1, 9)]
    for d in ((5,) if quick else (5, 6)):
        for h in itertools.product(mini, repeat=d):
            out.append(ipf_line(k % 4, nw, h))
            k += 1
    # random, deeper, 2..3 wrappers, malformed indices now and then
    for _ in range(4000 if quick else 60000):
        n = rng.choice([2, 2, 3]) if quick else rng.choice([2, 3, 3, 4])
        pal = rng.randrange(4)
        alpha = full_alphabet(n) + conv_ops(n, pal)
        depth = rng.randint(3, 14)
        h = [rng.choice(alpha) for _ in range(depth)]
        if rng.random() < 0.1:
            i = rng.randrange(len(h))
            h[i] = (h[i][0], n + rng.randint(0, 2), h[i][2])  # out-of-range wrapper: skipped by both sides
        h = [(c, a, rng.randint(0, 999)) if c == 8 else (c, a, b) for (c, a, b) in h]
        out.append(ipf_line(pal, n, h))
    if not quick:
        n = 3
        full3 = full_alphabet(n)
        for d in (1, 2):
            for h in itertools.product(full3, repeat=d):
                out.append(ipf_line(k % 4, n, h))
                k += 1
    return out


def gen_tables(tier, rng):
    out = []
    R4, R6 = range(4), range(6)
    for tc in R4:
        for k in R6:
            out.append(f"get {tc} {k}")
            for k2 in (0, 3, 4):
                out.append(f"pget {tc} {k} {k2}")
    for t in R6:
        for u in R4:
            # forward<T&>(rvalue) is rejected by a static_assert ([forward]/3), which no run-time token can observe
            if not (t in (2, 3) and u in (2, 3)):
                out.append(f"fwd {t} {u}")
            out.append(f"fwdlike {t} {u}")
    for fc in R4:
        for a1 in R4:
            for a2 in R4:
                out.append(f"invfo {fc} {a1} {a2}")
    for q in R6:
        for r in range(12):
            out.append(f"invpmf {q} {r}")
    for r in range(12):
        out.append(f"invpmd {r}")
    for c in range(2):
        for ac in R4:
            out.append(f"refwrap {c} {ac}")
    for sk in (0, 2, 3, 4, 5):
        for ac in R4:
            out.append(f"ipfcall {sk} {ac}")
            for fc in R4:
                out.append(f"fref {fc} {sk} {ac}")
    for wc in R4:
        for ac in R4:
            for bk in R4:
                out.append(f"bindfront {wc} {bk} {ac}")
            for v in (4, 5):
                out.append(f"notfn {wc} {ac} {v}")
    for tc in R4:
        for fc in R4:
            out.append(f"apply {fc} {tc} 0")
            for k1 in R6:
                out.append(f"apply {fc} {tc} 1 {k1}")
        for k1 in R6:
            for k2 in (0, 2, 5):
                out.append(f"apply 0 {tc} 2 {k1} {k2}")
        out.append(f"mft 0 {tc} 0")
        for k1 in R6:
            out.append(f"mft 0 {tc} 1 {k1}")
            for k2 in (0, 2, 5):
                out.append(f"mft 0 {tc} 2 {k1} {k2}")
        for which in range(2):
            out.append(f"applyp {tc} {which}")
    for c1 in R4:
        for n1 in range(3):
            out.append(f"catx 2 {c1} {n1}")
            for c2 in R4:
                for n2 in range(3):
                    out.append(f"catx 4 {c1} {n1} {c2} {n2}")
        for c2 in R4:
            for c3 in R4:
                out.append(f"catx 6 {c1} 1 {c2} 2 {c3} 1")
    for dk in (0, 2):
        for sk in range(5):
            for sc in R4:
                out.append(f"passign {dk} {sk} {sc}")
    # results come back unchanged: callable result kinds A, A&, A const&, A&&, A const&& through every wrapper
    for rk in range(5):
        for which in range(7):
            out.append(f"ret {which} {rk}")
        for Rk in range(5):
            if not (Rk > 0 and rk == 0):
                out.append(f"retsig 0 {Rk} {rk}")
                out.append(f"retsig 1 {Rk} {rk}")
    for ac in R4:
        out.append(f"refwf {ac}")
        for q in R6:
            out.append(f"frefwf {q} {ac}")
    # two bound / two call arguments
    for a1 in R4:
        for a2 in R4:
            for wc in R4:
                out.append(f"wctor {wc} {a1} {a2}")
                out.append(f"bindfront2 {wc} {a1} {a2}")
                for v in (4, 5):
                    out.append(f"notfn2 {wc} {a1} {a2} {v}")
            for c in range(2):
                out.append(f"refwrap2 {c} {a1} {a2}")
            for sp in range(5):
                out.append(f"ipfcall2 {sp} {a1} {a2}")
                for fc in range(2):
                    out.append(f"fref2 {fc} {sp} {a1} {a2}")
    # element transfer on construction: pair / tuple constructors, make_pair / make_tuple / forward_as_tuple
    for k in R6:
        for ac in R4:
            out.append(f"pctor {k} {ac}")
            out.append(f"tctor 2 {k} {ac}")
    for dk in R4:
        for sk in R6:
            for sc in R4:
                out.append(f"pconv {dk} {sk} {sc}")
    for k1 in (0, 2, 3):
        for a1 in R4:
            for k2 in (0, 2, 3):
                for a2 in R4:
                    out.append(f"tctor 4 {k1} {a1} {k2} {a2}")
    for a1 in R4:
        for a2 in R4:
            for a3 in R4:
                out.append(f"tctor 6 0 {a1} 0 {a2} 0 {a3}")
    for which in range(3):
        for ac in R4:
            out.append(f"mk {which} {ac}")
    # construction / assignment matrix over {int, const int, int&, const int&, int&&, move-only, copy-only}
    for e1 in range(7):
        out.append(f"ttraits 1 {e1}")
        for e2 in range(7):
            out.append(f"ptraits {e1} {e2}")
            out.append(f"ttraits 2 {e1} {e2}")
            for e3 in (0, 2, 5):
                out.append(f"ttraits 3 {e1} {e2} {e3}")
    out.append("ttraits 0")
    for w in range(8):
        out.append(f"retref {w}")
    for _ in range(20):
        out.append("refwrapops %d %d" % (rng.randint(-1000, 1000), rng.randint(-1000, 1000)))
        out.append("refwrapstd %d" % rng.randint(-1000, 1000))
        out.append("frefops %d" % rng.randint(-1000, 1000))
        out.append("frefptr %d" % rng.randint(-1000, 1000))
        out.append("notfnstatic %d" % rng.randint(-3, 3))
        out.append("voidret %d" % rng.randint(-1000, 1000))
        out.append("wrapcopy %d %d" % (rng.randint(-3, 3), rng.randint(-3, 3)))
        out.append("ipfmem %d" % rng.randint(-1000, 1000))
        out.append("makepairref %d %d" % (rng.randint(-1000, 1000), rng.randint(-1000, 1000)))
    out.append("xfer")
    # tuple_cat result types (after the fix of the CTAD-built result) and tuple_element
    for k in R4:
        out.append(f"catkind {k}")
    out.append("catnest")
    for k in R6:
        out.append(f"telem {k}")
        for c in R4:
            if not (k >= 4 and c < 2):
                out.append(f"catk {k} {c}")
    return out


def gen_lang(tier, rng):
    """the language rules Model.v part (iii) is written with, asked of the compiler over their whole finite domain"""
    out = []
    R4, R6 = range(4), range(6)
    for k in R6:
        for c in R6:
            out.append(f"lang binds {k} {c}")
            out.append(f"lang pmf {k} {c}")
            if k >= 2:
                out.append(f"lang scast {k} {c}")
            if k < 4:
                out.append(f"lang ovl {k} {c}")
        for c in R4:
            out.append(f"lang init {k} {c}")
        out.append(f"lang collapse 0 {k}")
        out.append(f"lang autolref 0 {k}")
        out.append(f"lang autofwd 0 {k}")
        for oc in range(2):
            out.append(f"lang member {oc} {k}")
    for c in R4:
        out.append(f"lang dedfwd 0 {c}")
        out.append(f"lang move 0 {c}")
    return out


def zl(l):
    return "%d %s" % (len(l), " ".join(str(x) for x in l)) if l else "0"


def gen_values(tier, rng):
    out = []
    quick = tier == "quick"
    small = [0, 1, 2]
    # pairs: every pair of pairs over {0,1,2}, plus boundaries
    for a in itertools.product(small, repeat=2):
        for b in itertools.product(small, repeat=2):
            out.append("prel %d %d %d %d" % (a + b))
    # a partially ordered member type (double, 777777 = NaN): every pair of pairs over {0, 1, NaN}; the lines on which
    # C++20's <=>-synthesised relations differ from pair.hpp's C++17 definitions are known finding
    # KF-C20-pair-relops-partial-order
    for a in itertools.product([0, 1, 777777], repeat=2):
        for b in itertools.product([0, 1, 777777], repeat=2):
            out.append("prelnan %d %d %d %d" % (a + b))
    edge = [-2147483648, -1, 0, 1, 2147483647]
    for a1 in edge:
        for b1 in edge:
            for a2, b2 in ((0, 0), (0, 1), (1, 0), (-5, 7)):
                out.append(f"prel {a1} {a2} {b1} {b2}")
    for _ in range(300 if quick else 5000):
        v = [rng.randint(-3, 3) for _ in range(4)]
        out.append("prel %d %d %d %d" % tuple(v))
        v = [rng.randint(-100, 100) for _ in range(4)]
        out.append("pops %d %d %d %d" % tuple(v))
    # tuples: every pair of 2- and 3-tuples over {0,1,2} (thorough: also 4-tuples)
    for n in (0, 1, 2, 3) if quick else (0, 1, 2, 3, 4):
        for a in itertools.product(small, repeat=n):
            for b in itertools.product(small, repeat=n):
                out.append("teq %s %s" % (zl(a), zl(b)))
    for _ in range(300 if quick else 5000):
        n = rng.randint(0, 4)
        a = [rng.randint(-50, 50) for _ in range(n)]
        b = list(a)
        if n and rng.random() < 0.7:
            b[rng.randrange(n)] += rng.choice([-1, 1])   # differ in exactly one position (first, middle or last)
        out.append("teq %s %s" % (zl(a), zl(b)))
        b = [rng.randint(-50, 50) for _ in range(n)]
        out.append("tswap %s %s" % (zl(a), zl(b)))
        out.append("tswapref %d %d %d %d" % tuple(rng.randint(-50, 50) for _ in range(4)))
        out.append("tget %s" % zl(a))
        out.append("tinit %d" % rng.randint(-60, 60))
        out.append("tapply %s" % zl(a))
    # tuple_cat: every shape of up to three operands of arity <= 3
    ctr = 0
    for m in range(0, 4):
        for shape in itertools.product(range(4), repeat=m):
            for _ in range(1 if quick else 4):
                ops = []
                for n in shape:
                    ops.append([ctr * 7 % 100 + j for j in range(n)])
                    ctr += 1
                out.append("tcat %d %s" % (m, " ".join(zl(o) for o in ops)) if m else "tcat 0")
    for _ in range(20 if quick else 300):
        out.append("tcatmix 6 %s" % " ".join(str(rng.randint(-99, 99)) for _ in range(6)))
    return out


# ---- op amp: object identity for a type with an overloaded unary operator& (c20_addr.inc / ModelAddr.v) ----------------
# amp <a0> <a1> <a2> <v0> <v1> <v2> <n> (<code> <p> <q> <z>)*   --  `&o[i]` yields the address of o[a_i]
AMP_BINDERS = [(c, k, x) for c in (0, 1) for k in range(2) for x in range(3)] + [(c, k, j) for c in (2, 3) for k in range(2) for j in range(2)]
AMP_SLOT_OPS = (4, 5, 6, 8, 11, 13, 17, 20)          # operate through wrapper slot p
AMP_OBJ_OPS = (7, 9, 10, 12, 14, 15, 16, 18, 19, 21)  # operate on object p
AMP_OBJ2_OPS = (22, 23, 24, 25)                      # objects p and q


def amp_line(amp, vals, ops):
    return "amp %d %d %d %d %d %d %d %s" % (tuple(amp) + tuple(vals) + (len(ops), " ".join("%d %d %d %d" % o for o in ops)))


def amp_probes(z):
    # which object does each slot reach: write through get(), through the conversion, call
    return [(4, 0, 0, z), (5, 1, 0, z + 1), (6, 0, 0, z + 2), (6, 1, 0, z + 3), (8, 0, 0, z + 4), (8, 1, 0, z + 5)]


def gen_amp(tier, rng):
    out = []
    quick = tier == "quick"
    amps = list(itertools.product(range(3), repeat=3))        # all 27 answers of operator&, incl. the ordinary type (0, 1, 2)
    few = [(0, 1, 2), (2, 2, 2), (1, 2, 0), (1, 0, 2), (0, 0, 0), (2, 1, 0)]
    vals = (10, 20, -1)
    # every observer once behind two bound wrappers, for every operator& and every choice of objects
    for amp in amps:
        for x in range(3):
            y = (x + 1) % 3
            pre = [(0, 0, x, 0), (1, 1, y, 0)]
            for c in AMP_SLOT_OPS:
                for k in range(2):
                    out.append(amp_line(amp, vals, pre + [(c, k, 0, 7 + c)]))
            for c in AMP_OBJ_OPS:
                out.append(amp_line(amp, vals, pre + [(c, x, 0, 7 + c)]))
            for c in AMP_OBJ2_OPS:
                for q in range(3):
                    out.append(amp_line(amp, vals, pre + [(c, x, q, 7 + c)]))
    # every pair of binding operations (ref / constructor / copy / unwrapping ref, every slot and source), then the probes
    for amp in (few if quick else amps):
        for b1 in AMP_BINDERS:
            for b2 in AMP_BINDERS:
                out.append(amp_line(amp, vals, [b1 + (0,), b2 + (0,)] + amp_probes(5)))
    # every observer without any wrapper bound (slot operations are skipped), and every pair of observers on one object
    for amp in few:
        for c1 in range(4, 26):
            for c2 in range(4, 26):
                out.append(amp_line(amp, vals, [(0, 0, 1, 0), (c1, 0, 1, 3), (c2, 0, 2, 4), (3, 1, 0, 0), (c1, 1, 0, 5)]))
    # random scripts: every code, indices mostly in range, now and then outside (skipped by all legs) / unknown codes
    for _ in range(3000 if quick else 40000):
        amp = rng.choice(amps) if rng.random() < 0.8 else (0, 1, 2)
        v = [rng.randint(-1000, 1000) for _ in range(3)]
        n = rng.randint(1, 24)
        ops = []
        for _ in range(n):
            c = rng.randrange(26) if rng.random() < 0.97 else rng.choice([26, 31, -1])
            if rng.random() < 0.06:
                pq = (rng.randint(-1, 4), rng.randint(-1, 4))
            elif c in (0, 1):
                pq = (rng.randrange(2), rng.randrange(3))
            elif c in (2, 3) or c in AMP_SLOT_OPS:
                pq = (rng.randrange(2), rng.randrange(2))
            else:
                pq = (rng.randrange(3), rng.randrange(3))
            ops.append((c,) + pq + (rng.randint(-1000, 1000),))
        out.append(amp_line(amp, v, ops))
    return out


# ---- op init: which constructor builds a user type constructed from forwarded arguments (c20_init.inc / ModelInit.v) -------
# init <site> <scenario> <a> <b>; site / scenario codes: ModelInit.site_of_code / scen_cls
INIT_TWO_ARG_SITES = (0, 1, 2, 3, 4)
INIT_ONE_ARG_SITES = (0, 1, 2, 5, 7, 9, 10, 23, 24, 25)
INIT_SELF_SITES = (0, 1, 2, 5, 6, 7, 8, 11, 12, 13, 14, 15, 16, 17, 18, 19, 20, 21, 22)


def init_sites(scen):
    return INIT_TWO_ARG_SITES if scen in (0, 1, 2) else INIT_ONE_ARG_SITES if scen in (3, 4) else INIT_SELF_SITES


def gen_init(tier, rng):
    out = []
    quick = tier == "quick"
    # every site x scenario that exists as code, a few argument values each (count 0 / 1 / 2 / larger; value equal / unequal
    # to the count: a list constructor taking {count, value} and the (count, value) constructor then differ in size AND front)
    for scen in range(6):
        for site in init_sites(scen):
            for (a, b) in ((3, 7), (2, 2), (0, 5), (1, 1), (8, 0), (-4, 13)):
                out.append(f"init {site} {scen} {a} {b}")
    # combinations that do not exist (skipped by every leg) and stray codes
    for scen in range(7):
        for site in range(27):
            if scen > 5 or site not in init_sites(scen):
                out.append(f"init {site} {scen} 3 7")
    out += ["init -1 0 3 7", "init 0 -1 3 7", "init 0 0 2000000 7"]
    # the language rule itself (ModelInit.resolve): every form x every class / argument list of the model's scenario table
    for form in range(5):
        for scen in range(12):
            for (a, b) in ((3, 7), (2, 2), (0, 5), (-4, 13)):
                out.append(f"initlang {form} {scen} {a} {b}")
    for _ in range(600 if quick else 20000):
        scen = rng.randrange(6)
        site = rng.choice(init_sites(scen))
        out.append("init %d %d %d %d" % (site, scen, rng.randint(-1000, 1000), rng.randint(-2000, 2000)))
    return out


def gen_expl(tier, rng):
    """the conditionally explicit constructors of pair / tuple (c20_expl.inc): every site x every combination of the 8 element
    codes (implicit / explicit-only / absent conversions, value-category dependent or not) for pairs and for tuples of arity
    0..3 (third element: 5 codes), plus the element table itself against the compiler; the whole domain, both tiers"""
    out = ["explelem %d" % c for c in range(8)] + ["explelem 8", "explelem -1", "explw", "explwx"]
    third = [0, 1, 2, 3, 7]
    for site in range(12):
        if site < 8:
            for a in range(8):
                for b in range(8):
                    out.append(f"expl {site} 2 {a} {b}")
            out.append(f"expl {site} 1 0")       # a pair site with another arity: skipped by every leg
            out.append(f"expl {site} 3 0 0 0")
        else:
            out.append(f"expl {site} 0")
            for a in range(8):
                out.append(f"expl {site} 1 {a}")
                for b in range(8):
                    out.append(f"expl {site} 2 {a} {b}")
                    for c in third:
                        out.append(f"expl {site} 3 {a} {b} {c}")
    out += ["expl 12 2 0 0", "expl 4 2 0 8", "expl 10 3 0 0 4"]  # unknown site / element code / third-position code
    return out


def gen(tier, rng):
    if tier == "search":
        tier = "thorough"
    out = []
    out += gen_tables(tier, rng)
    out += gen_lang(tier, rng)
    out += gen_values(tier, rng)
    out += gen_ipf(tier, rng)
    out += gen_ipf_mixed(tier, rng)
    out += gen_amp(tier, rng)
    out += gen_init(tier, rng)
    out += gen_expl(tier, rng)
    return out


def extra_checks(ctx):
    """compile-only probes (props/C20/wf_probes.py): the site x scenario combinations whose brace / copy-list form would be
    ILL-FORMED (narrowing, explicit copy constructor) must compile, as they do with libstdc++; expected verdict = the
    extracted model / spec through the driver (op initwf)"""
    import hashlib
    import json
    import subprocess
    import sys
    from pathlib import Path
    from vlib import engine
    here = Path(__file__).parent
    sys.path.insert(0, str(here))
    import wf_probes as wf
    items = []
    drv = engine.build_driver(ID)
    work = engine.HBUILD / ID / "wf"
    work.mkdir(parents=True, exist_ok=True)
    vers = subprocess.run(["g++", "--version"], capture_output=True, text=True).stdout.split("\n")[0]
    key = hashlib.sha256((engine.include_hash() + wf.source_hash() + vers + "v1").encode()).hexdigest()[:24]
    cache_path = work / "wf-cache.json"
    try:
        cache = json.loads(cache_path.read_text())
    except Exception:
        cache = {}
    if cache.get("key") != key:
        cache = {"key": key, "results": wf.run(str(engine.REPO / "include"), str(work), jobs=4)}
        cache_path.write_text(json.dumps(cache))
    results = cache["results"]
    lines_in = ["initwf %d %d 0 0" % (r["site"], r["scenario"]) for r in results]
    _, lines, _err = engine.run_bin(drv, lines_in)
    bad = []
    for i, r in enumerate(results):
        m, sp = engine.split_legs(lines[i]) if i < len(lines) else ("missing", "na")
        r = dict(r, model=m, spec=sp)
        if m not in ("wf", "ill"):
            print(f"MACHINERY-WARNING property={ID}: compile-only probe without a usable expectation: {lines_in[i]} -> {m}")
            continue
        if sp != "na" and sp != r["std"]:
            print(f"MACHINERY-WARNING property={ID}: Coq spec and libstdc++ disagree on {lines_in[i]}: spec {sp}, std {r['std']}")
        prop_fail = (sp != "na" and r["etl"] != sp) or (sp != "na" and r["etl"] != r["std"])
        if r["etl"] != m or prop_fail:
            bad.append((not prop_fail, len(r["statement"]), i, r, prop_fail))
    for (_, _, i, r, prop_fail) in sorted(bad)[:3]:
        items.append({"kind": "violation", "found_input": prop_fail,
                      "payload": {"property": ID, "kind": "compile-only probe: a construction site applied to a class whose list-initialisation is ill-formed",
                                  "input": lines_in[i], "statement": r["statement"], "impl": r["etl"], "reference": r["std"],
                                  "model": r["model"], "spec": r["spec"], "diagnostic": r["diag"],
                                  "disagreeing_probes": len(bad),
                                  "meaning": "wf = the statement compiles (g++ -std=c++20 -fsyntax-only) against etl (impl) / libstdc++ (reference); "
                                             "site and scenario codes: coq/C20/ModelInit.v site_of_code / scen_cls"}})
    ctx.evidence = dict(getattr(ctx, "evidence", {}), compile_only_probes={
        "probes": len(results), "compilations": 2 * len(results), "disagreements": len(bad),
        "expected_well_formed": sum(1 for r in results if r["std"] == "wf")})
    items.append({"kind": "note", "text": f"compile-only probes: {len(results)} site x scenario statements compiled against etl and libstdc++, "
                                          f"{len(bad)} disagreements with the model / reference"})
    return items


def nontrivial(case, impl):
    return impl.startswith("ok") or impl.startswith("ill")
