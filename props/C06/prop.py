"""C06 is split in two packages: C06a (mutating / in-place / copying algorithms and sorts) and
C06b (non-mutating queries, binary searches, set operations, min/max, numeric)."""
PARTS = ["C06a", "C06b"]
