"""C06 is split in three packages: C06a (mutating / in-place / copying algorithms and sorts), C06b (non-mutating
queries, binary searches, set operations, min/max, numeric folds) and C06c (the integer functions of numeric.hpp —
gcd, lcm, midpoint, saturation — whose model and proofs are shared with C14)."""
PARTS = ["C06a", "C06b", "C06c"]
