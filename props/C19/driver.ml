(* C19 driver: model leg = extracted Model.v functions, spec leg = extracted Spec.v closed forms.
   Case line:  <op> <tier> <table key tokens...> ; <op specific tokens>   (same as the harness) *)
let ity_of = function
  | "i8" -> i8 | "u8" -> u8 | "i16" -> i16 | "u16" -> u16
  | "i32" -> i32 | "u32" -> u32 | "i64" -> i64 | "u64" -> u64
  | _ -> raise Not_found

let peek_kind toks = match toks.rest with [] -> "" | x :: _ -> x
let zi = z_of_int
let zs = str_of_z
let is_neg z = match z with Zneg _ -> true | _ -> false
let z_lt a b = Big.lt (big_of_z a) (big_of_z b)
let z_le a b = Big.leq (big_of_z a) (big_of_z b)
let z_eq a b = Big.equal (big_of_z a) (big_of_z b)
let two64 = z_of_big (Big.shift_left Big.one 64)
let umax64 = z_of_big (Big.pred (Big.shift_left Big.one 64))

(* values in a case line are first converted to the widest type of the index type's signedness
   (long long / unsigned long long), exactly as the harness reads them *)
let wide t z = if t.sgn then z else szw z
let next_wide t toks = wide t (next_z toks)
let next_wlist t toks = let n = next_int toks in List.init n (fun _ -> next_wide t toks)

let next_pat toks : z option list =
  let n = next_int toks in
  List.init n (fun _ -> let z = next_z toks in if is_neg z then None else Some z)

let skip_semicolon toks = let s = next_str toks in if s <> ";" then raise Not_found

(* representable as a non-negative value of the index type *)
let repr t x = (not (is_neg x)) && z_le x (imax t)
let all_repr t xs = List.for_all (repr t) xs
let pat_tok = function None -> "-1" | Some n -> zs n
let nat_s n = string_of_int (int_of_nat n)
let zl l = List.map zs l
let seq n = List.init n (fun k -> k)

let opt_all (l : 'a option list) : 'a list option =
  List.fold_right (fun x acc -> match x, acc with Some v, Some r -> Some (v :: r) | _ -> None) l (Some [])

let ext_line t (e : extents) =
  join ([ "ok"; nat_s (rank e); nat_s (rank_dynamic e.pat) ] @ zl (extents_list t e))
let ext_spec_line p xs =
  join ([ "ok"; string_of_int (List.length p); nat_s (rank_dynamic p) ] @ zl xs)

let make_dyn t p v route = if route = 0 then ext_from_pack t p v else ext_from_span t p v

let lay_of = function "L" -> LLeft | _ -> LRight
let spec_stride l xs r = match l with LLeft -> stride_left xs (nat_of_int r) | LRight -> stride_right xs (nat_of_int r)
let spec_off l xs idx = match l with LLeft -> col_major xs idx | LRight -> row_major xs idx
let res_tok f = function Ok v -> f v | Contract -> "contract" | UB _ -> "ub" | OutOfFuel -> "fuel"

let has_zero xs = List.exists (fun x -> z_le x Z0) xs

(* ---- span helpers *)
let span_buf n = List.init n (fun k -> zi (100 + k))
let span_line buf (s : spanv) =
  let el = sp_elems buf s in
  join ([ "ok"; zs s.s_off; zs s.s_size; (match s.s_ext with None -> "-1" | Some n -> zs n);
          string_of_int (List.length el) ] @ zl el)
let spec_span_line buf off cnt ext =
  let el = sub_range buf off cnt in
  join ([ "ok"; zs off; zs cnt; (match ext with None -> "-1" | Some n -> zs n);
          string_of_int (List.length el) ] @ zl el)
let ext_opt z = if is_neg z then None else Some z
let size_arg z = szw z   (* a size_t argument read from the case line (-1 = dynamic_extent) *)
let count_opt z = let c = szw z in if z_eq c umax64 then None else Some c

(* (first, last) slice letters: which bounds are integral constants (props/C19/gen_table.py BOUNDS, harness S<letter>) *)
let mix_of = function
  | 'P' | 'i' | 'm' -> Some (None, None)
  | 'C' -> Some (Some 0, Some 2)
  | 'K' | 'j' | 'z' -> Some (Some 1, Some 3)
  | 'a' -> Some (Some 0, None)
  | 'b' | 'u' -> Some (Some 2, None)
  | 'c' | 'h' | 'w' -> Some (None, Some 3)
  | 'd' -> Some (None, Some 2)
  | 'g' -> Some (Some 1, None)
  | _ -> None
let is_old_letter c = (c = 'F' || c = 'N' || c = 'P' || c = 'C' || c = 'K' || c = '-')
(* the slice of dimension k as the library sees it (run-time values converted to the index type by the caller: conv)
   and as the standard sees it (conv = identity) *)
let mslice_of conv c kz lz =
  match c with
  | 'F' -> MFull
  | _ -> (match mix_of c with
          | Some (f, l) ->
              MPair ((match f with Some v -> BConst (zi v) | None -> BRun (conv kz)),
                     (match l with Some v -> BConst (zi v) | None -> BRun (conv lz)))
          | None -> MIndex (conv kz))
let mslice_dom s x =
  match s with
  | MFull -> true
  | MIndex k -> (not (is_neg k)) && z_lt k x
  | MPair (a, b) -> (not (is_neg (bval a))) && z_le (bval a) (bval b) && z_le (bval b) x
let rs_toks t sub = [ "rs"; zs (lay_required LLeft t sub); zs (lay_required LRight t sub) ]
let rs_spec sx = [ "rs"; zs (product sx); zs (product sx) ]

let run_case op toks =
  let _tier = next_str toks in
  let kind = next_str toks in
  match kind with
  | "E" | "A" -> begin
      let t = ity_of (next_str toks) in
      let p = next_pat toks in
      skip_semicolon toks;
      let r = List.length p in
      match op with
      | "ext_default" ->
          let xs = extents_dyn p [] in
          (ext_line t (ext_default p), if all_repr t xs then ext_spec_line p xs else "na")
      | "ext_dyn" ->
          let route = next_int toks in
          let v = next_wlist t toks in
          let xs = extents_dyn p v in
          (ext_line t (make_dyn t p v route), if all_repr t xs then ext_spec_line p xs else "na")
      | "ext_all" ->
          let route = next_int toks in
          let v = next_wlist t toks in
          let ok = all_repr t v
                   && List.for_all2 (fun po x -> match po with Some n -> z_eq n x | None -> true) p v in
          (ext_line t (make_dyn t p v route), if ok then ext_spec_line p (extents_all p v) else "na")
      | "prod" ->
          let v = next_wlist t toks in
          let e = ext_from_pack t p v in
          let xs = extents_dyn p v in
          let m = join ("ok" :: (List.map (fun k -> zs (fwd_prod t e (nat_of_int k))) (seq (r + 1))
                                 @ List.map (fun k -> zs (rev_prod t e (nat_of_int k))) (seq r))) in
          let sp = List.map (fun k -> stride_left xs (nat_of_int k)) (seq (r + 1))
                   @ List.map (fun k -> stride_right xs (nat_of_int k)) (seq r) in
          (m, if all_repr t xs && List.for_all (fun x -> z_lt x two64) sp then join ("ok" :: zl sp) else "na")
      | "map_all" | "mds_all" | "mdsa_all" ->
          let l = lay_of (next_str toks) in
          let v = next_wlist t toks in
          let e = ext_from_pack t p v in
          let xs = extents_dyn p v in
          let idxs = all_indices xs in
          let how = if op = "map_all" then 0 else 1 in
          let offs = opt_all (List.map (fun idx -> if how = 0 then lay_map l t e idx else mds_offset l t e idx) idxs) in
          let strides = List.map (fun k -> lay_stride l t e (nat_of_int k)) (seq r) in
          let m =
            match offs with
            | None -> "ub"
            | Some offs ->
                if List.exists (fun s -> match s with Ok _ -> false | _ -> true) strides then "contract"
                else
                  let st = List.map (fun s -> match s with Ok v -> zs v | _ -> "?") strides in
                  let base = [ "ok"; zs (lay_required l t e); string_of_int r ] @ st
                             @ [ string_of_int (List.length offs) ] @ zl offs in
                  let tail = if how = 0 then []
                    else begin
                      (* the elements read through the view: buffer element k holds 1000 + k *)
                      let n = (match offs with [] -> 0 | _ -> List.length offs) + 1 in
                      let buf = List.init n (fun k -> zi (1000 + k)) in
                      let els = List.map (fun idx -> match mds_get buf l t e idx with Some a -> zs a | None -> "oob") idxs in
                      [ "el"; string_of_int (List.length els) ] @ els
                      @ [ "sz"; zs (mds_size t e); b2s (mds_empty t e) ] @ zl (extents_list t e) @ st @ [ "api"; "0" ]
                    end in
                  join (base @ tail) in
          let sst = List.map (fun k -> spec_stride l xs k) (seq r) in
          let dom = all_repr t xs && repr t (product xs) && all_repr t sst in
          let s =
            if not dom then "na"
            else
              let so = List.map (spec_off l xs) idxs in
              let base = [ "ok"; zs (product xs); string_of_int r ] @ zl sst
                         @ [ string_of_int (List.length so) ] @ zl so in
              let tail = if how = 0 then []
                else [ "el"; string_of_int (List.length so) ] @ List.map (fun o -> zs (Z.add (zi 1000) o)) so
                     @ [ "sz"; zs (product xs); b2s (z_eq (product xs) Z0) ] @ zl xs @ zl sst @ [ "api"; "0" ] in
              join (base @ tail) in
          (m, s)
      | "map_at" ->
          let l = lay_of (next_str toks) in
          let v = next_wlist t toks in
          let idx = next_wlist t toks in
          let e = ext_from_pack t p v in
          let xs = extents_dyn p v in
          let m = match lay_map l t e idx with
            | Some o -> join [ "ok"; zs (lay_required l t e); zs o ] | None -> "ub" in
          let dom = all_repr t xs && repr t (product xs)
                    && List.for_all2 (fun i x -> (not (is_neg i)) && z_lt i x) idx xs in
          (m, if dom then join [ "ok"; zs (product xs); zs (spec_off l xs idx) ] else "na")
      | "stride_of" ->
          let l = lay_of (next_str toks) in
          let v = next_wlist t toks in
          (* r is a size_t; any r >= rank takes the same (contract) path, so huge values are
             represented by rank+1 instead of building a unary number of that size *)
          let rz = next_big toks in
          let rr = if Big.gt rz (Big.of_int (r + 1)) then r + 1 else Big.to_int rz in
          let e = ext_from_pack t p v in
          let xs = extents_dyn p v in
          let m = res_tok (fun s -> join [ "ok"; zs s ]) (lay_stride l t e (nat_of_int rr)) in
          let dom = rr < r && all_repr t xs && repr t (product xs) && repr t (spec_stride l xs rr) in
          (m, if dom then join [ "ok"; zs (spec_stride l xs rr) ] else "na")
      | "strided_default" ->
          let m = strided_default t p in
          let xs = extents_dyn p [] in
          let idxs = all_indices xs in
          let strides = List.map (fun k -> strided_stride m (nat_of_int k)) (seq r) in
          let ml =
            match opt_all (List.map (strided_map t m) idxs) with
            | None -> "ub"
            | Some offs ->
                if List.exists (fun s -> match s with Ok _ -> false | _ -> true) strides then "contract"
                else join ([ "ok"; string_of_int r ] @ zl (extents_list t m.st_ext) @ zl m.st_strides
                           @ List.map (fun s -> match s with Ok v -> zs v | _ -> "?") strides
                           @ [ string_of_int (List.length offs) ] @ zl offs) in
          let sst = List.map (fun k -> stride_right xs (nat_of_int k)) (seq r) in
          let dom = all_repr t xs && repr t (product xs) && all_repr t sst in
          let sl =
            if not dom then "na"
            else
              let so = List.map (row_major xs) idxs in
              join ([ "ok"; string_of_int r ] @ zl xs @ zl sst @ zl sst @ [ string_of_int (List.length so) ] @ zl so) in
          (ml, sl)
      | "strided_all" | "strided_at" ->
          let v = next_wlist t toks in
          let sv = next_wlist t toks in
          let e = ext_from_pack t p v in
          let xs = extents_dyn p v in
          if r = 0 then
            let m0 = { st_ext = e; st_strides = [] } in
            ((match strided_map t m0 [] with Some o -> join [ "ok"; "0"; zs o ] | None -> "ub"), "ok 0 0")
          else begin
            let m = strided_ctor t e sv in
            let dom = all_repr t xs && List.for_all (fun s -> repr t s && not (z_eq s Z0)) sv
                      && repr t (stride_required xs sv) in
            if op = "strided_at" then begin
              let idx = next_wlist t toks in
              let ml = match strided_map t m idx with Some o -> join [ "ok"; zs o ] | None -> "ub" in
              let dom = dom && List.for_all2 (fun i x -> (not (is_neg i)) && z_lt i x) idx xs in
              (ml, if dom then join [ "ok"; zs (dot idx sv) ] else "na")
            end else begin
              let idxs = all_indices xs in
              let strides = List.map (fun k -> strided_stride m (nat_of_int k)) (seq r) in
              let ml =
                match opt_all (List.map (strided_map t m) idxs), strided_required t m with
                | None, _ | _, None -> "ub"
                | Some offs, Some rq ->
                    if List.exists (fun s -> match s with Ok _ -> false | _ -> true) strides then "contract"
                    else
                      let small = dom && z_le (stride_required xs sv) (zi 100000) && repr t (product xs) in
                      let tail =
                        if not small then []
                        else begin
                          let n = int_of_z (stride_required xs sv) + 1 in
                          let buf = List.init n (fun k -> zi (1000 + k)) in
                          let els = List.map (fun o -> if is_neg o then "oob" else
                                                match List.nth_opt buf (int_of_z o) with Some a -> zs a | None -> "oob") offs in
                          [ "el"; string_of_int (List.length els) ] @ els
                          @ [ zs (mds_size t m.st_ext); zs (List.nth m.st_strides (r - 1)) ]
                          @ (if z_le (stride_required xs sv) (zi 64) then
                               (* the containers the constructors create: the model's size; the two caller-supplied ones:
                                  what the harness passes (REQUIRED-SPAN-SIZE) *)
                               let cs = (match mda_strided_container_size t m with Some v -> zs v | None -> "ub") in
                               let rqs = zs (stride_required xs sv) in
                               let mo = List.fold_left (fun a o -> if z_lt a o then o else a) (zi (-1)) offs in
                               [ "mda"; cs; cs; rqs; rqs; "64"; "64"; "1"; "1"; zs mo; "0" ] else [])
                        end in
                      join ([ "ok"; string_of_int r ] @ zl m.st_strides
                               @ List.map (fun s -> match s with Ok v -> zs v | _ -> "?") strides
                               @ zl (extents_list t m.st_ext) @ [ zs rq ]
                               @ [ string_of_int (List.length offs) ] @ zl offs @ tail) in
              let sl =
                if not dom then "na"
                else
                  let so = List.map (fun idx -> dot idx sv) idxs in
                  let tail = if z_le (stride_required xs sv) (zi 100000) && repr t (product xs)
                    then [ "el"; string_of_int (List.length so) ] @ List.map (fun o -> zs (Z.add (zi 1000) o)) so
                         @ [ zs (product xs); zs (List.nth sv (r - 1)) ]
                         @ (if z_le (stride_required xs sv) (zi 64) then
                              let rqs = zs (stride_required xs sv) in
                              let mo = List.fold_left (fun a o -> if z_lt a o then o else a) (zi (-1)) so in
                              [ "mda"; rqs; rqs; rqs; rqs; "64"; "64"; "1"; "1"; zs mo; "0" ] else [])
                    else [] in
                  join ([ "ok"; string_of_int r ] @ zl sv @ zl sv @ zl xs @ [ zs (stride_required xs sv) ]
                        @ [ string_of_int (List.length so) ] @ zl so @ tail) in
              (ml, sl)
            end
          end
      | "mda_all" ->
          let l = lay_of (next_str toks) in
          let vec = next_str toks = "V" in
          let v = next_wlist t toks in
          let e = ext_from_pack t p v in
          let xs = extents_dyn p v in
          let idxs = all_indices xs in
          let ml =
            match opt_all (List.map (mds_offset l t e) idxs) with
            | None -> "ub"
            | Some offs ->
                join ([ "ok"; (if vec then zs (mda_container_size l t e) else "64"); zs (mds_size t e);
                        b2s (mds_empty t e); string_of_int (List.length offs) ] @ zl offs @ [ "api"; "0" ]) in
          let dom = all_repr t xs && repr t (product xs) in
          let sl =
            if not dom then "na"
            else
              let so = List.map (spec_off l xs) idxs in
              join ([ "ok"; (if vec then zs (product xs) else "64"); zs (product xs);
                      b2s (z_eq (product xs) Z0); string_of_int (List.length so) ] @ zl so @ [ "api"; "0" ]) in
          (ml, sl)
      | _ -> raise Not_found
    end
  | "C" -> begin
      let t2 = ity_of (next_str toks) in
      let p2 = next_pat toks in
      let t1 = ity_of (next_str toks) in
      let p1 = next_pat toks in
      skip_semicolon toks;
      let v = next_wlist t1 toks in
      let src = ext_from_pack t1 p1 v in
      let xs = extents_dyn p1 v in
      if op = "ext_eq" then begin
        let w = next_wlist t2 toks in
        let dst = ext_from_pack t2 p2 w in
        let ys = extents_dyn p2 w in
        let other1 = ext_default [ Some (zi 1); Some (zi 2); Some (zi 3); Some (zi 4); Some (zi 5) ] in
        let other2 = ext_default [ None; None; None; None; None ] in
        let ml = join ([ "ok" ] @ List.map b2s
                         [ ext_eqb t2 dst t1 src; ext_eqb t1 src t2 dst; ext_eqb t1 src t1 src; ext_eqb t2 dst t2 dst;
                           ext_eqb t2 dst t1 src; ext_eqb t1 src t2 dst;
                           ext_eqb t2 dst t1 other1; ext_eqb t2 other2 t1 src ]) in
        let eq = List.length xs = List.length ys && List.for_all2 z_eq xs ys in
        let dom = all_repr t1 xs && all_repr t2 ys in
        (ml, if dom then join ([ "ok" ] @ List.map b2s [ eq; eq; true; true; eq; eq; false; false ]) else "na")
      end else
      let ok = all_repr t1 xs && all_repr t2 xs
               && List.for_all2 (fun po x -> match po with Some n -> z_eq n x | None -> true) p2 xs in
      let e2 = ext_convert t2 p2 t1 src in
      match op with
      | "ext_conv" ->
          (* which conversions are implicit: extents, LL, RR, mdspan, strided->left, strided->right, left->strided,
             right->strided, strided->strided (copy constructor when the two extents types coincide), rank <= 1: RL, LR *)
          let imp = conv_implicit t2 p2 t1 p1 in
          let r0 = p1 = [] in
          let same = t1 = t2 && p1 = p2 in
          let cvl imp = [ "cv" ] @ List.map b2s ([ imp; imp; imp; imp; r0; r0; imp; imp; same || imp ]
                                               @ (if List.length p1 <= 1 then [ imp; imp ] else [])) in
          (* spec leg: the wording of [mdspan.extents.cons] / [mdspan.layout.*.cons], written out here *)
          let simp = z_le (imax t1) (imax t2)
                     && List.for_all2 (fun a b -> not (a <> None && b = None)) p2 p1 in
          (join (ext_line t2 e2 :: cvl imp), if ok then join (ext_spec_line p2 xs :: cvl simp) else "na")
      | "map_conv" when (let k = peek_kind toks in k = "SL" || k = "SR") ->
          let kind = next_str toks in
          let l = if kind = "SL" then LLeft else LRight in
          let m = strided_of_layout l t2 p2 t1 src in
          let indom = ok && repr t2 (product xs) && repr t1 (product xs) in
          let rq = if indom then (match strided_required t2 m with Some v -> [ zs v ] | None -> [ "ub" ]) else [] in
          let ml = join ([ ext_line t2 m.st_ext ] @ zl m.st_strides @ rq) in
          let r = List.length xs in
          let sst = List.map (fun k -> match l with LLeft -> stride_left xs (nat_of_int k) | LRight -> stride_right xs (nat_of_int k)) (seq r) in
          let dom = indom && all_repr t2 sst && all_repr t1 sst in
          (ml, if dom then join ([ ext_spec_line p2 xs ] @ zl sst @ [ zs (product xs) ]) else "na")
      | "map_conv" when (let k = peek_kind toks in k = "LS" || k = "RS") ->
          let kind = next_str toks in
          let l = if kind = "LS" then LLeft else LRight in
          let sm = strided_of_layout l t1 p1 t1 src in
          let e2' = layout_of_strided t2 p2 t1 sm in
          let ml = join [ ext_line t2 e2'; zs (lay_required l t2 e2') ] in
          let ok = ok && repr t2 (product xs) && repr t1 (product xs) in
          (ml, if ok then join [ ext_spec_line p2 xs; zs (product xs) ] else "na")
      | "map_conv" ->
          let kind = next_str toks in
          let l = (match kind with "LL" | "LR" -> LLeft | _ -> LRight) in
          let tail = if kind = "MD" then [ "1" ] else [] in
          let ml = join ([ ext_line t2 e2; zs (lay_required l t2 e2) ] @ tail) in
          let ok = ok && repr t2 (product xs) && repr t1 (product xs) in
          (ml, if ok then join ([ ext_spec_line p2 xs; zs (product xs) ] @ tail) else "na")
      | _ -> raise Not_found
    end
  | "T" -> begin
      let t = ity_of (next_str toks) in
      let p = next_pat toks in    (* pattern of the transposed view <E0, E1> *)
      skip_semicolon toks;
      let l = lay_of (next_str toks) in
      let v = next_wlist t toks in
      let np = (match p with [ a; b ] -> [ b; a ] | _ -> raise Not_found) in
      let ne = ext_from_pack t np v in
      let nx = extents_dyn np v in
      let xs = (match nx with [ a; b ] -> [ b; a ] | _ -> raise Not_found) in
      let idxs = all_indices xs in
      let te = tr_extents t ne in
      let offs = opt_all (List.map (fun idx -> match idx with [ i; j ] -> tr_map l t ne i j | _ -> None) idxs) in
      let s0 = tr_stride l t ne (nat_of_int 0) and s1 = tr_stride l t ne (nat_of_int 1) in
      let dom = all_repr t xs && repr t (product xs) in
      let ml =
        match offs, s0, s1 with
        | None, _, _ -> "ub"
        | Some offs, Ok a, Ok b ->
            let tx = extents_list t te in
            let buf = List.init (List.length offs + 1) (fun k -> zi (1000 + k)) in
            let els = if not dom then [] else
                List.map (fun o -> if is_neg o then "oob" else
                                     match List.nth_opt buf (int_of_z o) with Some a -> zs a | None -> "oob") offs in
            join ([ "ok" ] @ zl tx @ List.map pat_tok te.pat
                  @ [ zs (tr_required l t ne); zs a; zs b; string_of_int (List.length offs) ] @ zl offs
                  @ [ "md"; zs (mds_size t te); b2s (mds_empty t te) ] @ zl tx @ [ zs (List.hd tx); "1" ]
                  @ [ string_of_int (List.length els) ] @ els)
        | _ -> "contract" in
      let sl =
        if not dom then "na"
        else
          (* the transposed view of a column-major nested mapping is row-major on the view and vice versa *)
          let vl = (match l with LLeft -> LRight | LRight -> LLeft) in
          let so = List.map (spec_off vl xs) idxs in
          join ([ "ok" ] @ zl xs @ List.map pat_tok p
                @ [ zs (product xs); zs (spec_stride vl xs 0); zs (spec_stride vl xs 1);
                    string_of_int (List.length so) ] @ zl so
                @ [ "md"; zs (product xs); b2s (z_eq (product xs) Z0) ] @ zl xs @ [ zs (List.hd xs); "1" ]
                @ [ string_of_int (List.length so) ] @ List.map (fun o -> zs (Z.add (zi 1000) o)) so) in
      (ml, sl)
    end
  | "S" -> begin
      let t = ity_of (next_str toks) in
      let p = next_pat toks in
      let ss = next_str toks in
      skip_semicolon toks;
      let v = next_wlist t toks in
      let ks = next_zlist toks in
      let e = ext_from_pack t p v in
      let xs = extents_dyn p v in
      if op = "subfl" then begin
        (* first_ / last_ of [mdspan.sub.helpers] per dimension *)
        let ls = next_zlist toks in
        let mk raw k kz =
          let c = if raw then (fun z -> z) else cast t in
          to_slice (mslice_of c ss.[k] kz (List.nth ls k)) in
        let exts = extents_list t e in
        let ml = join ("ok" :: List.concat (List.mapi (fun k kz ->
            let s = mk false k kz in
            [ zs (sub_first t s); (match sub_last t (List.nth exts k) s with Some v -> zs v | None -> "ub") ]) ks)) in
        let dom = all_repr t xs
                  && List.for_all2 (fun (c, (kz, lz)) x -> mslice_dom (mslice_of (fun z -> z) c kz lz) x)
                       (List.mapi (fun k kz -> (ss.[k], (kz, List.nth ls k))) ks) xs in
        let sl = join ("ok" :: List.concat (List.mapi (fun k kz ->
            let s = mk true k kz in [ zs (first_ s); zs (last_ (List.nth xs k) s) ]) ks)) in
        (ml, if dom then sl else "na")
      end else
      if op = "subextp" && not (String.for_all is_old_letter ss) then begin
        (* at least one pair-like slice of mixed kind / tuple / array form: ModelMix.v against SpecMix.v *)
        let ls = next_zlist toks in
        let msl = List.mapi (fun k kz -> mslice_of (cast t) ss.[k] kz (List.nth ls k)) ks in
        let ml = match sub_extents_m t e msl with
          | None -> "ub"
          | Some sub ->
              join ([ "ok"; nat_s (rank sub); nat_s (rank_dynamic sub.pat) ] @ List.map pat_tok sub.pat
                    @ zl (extents_list t sub) @ rs_toks t sub) in
        let ssl = List.mapi (fun k kz -> mslice_of (fun z -> z) ss.[k] kz (List.nth ls k)) ks in
        let dom = all_repr t xs && List.for_all2 mslice_dom ssl xs in
        let sp = msub_pattern ssl p and sx = msub_shape ssl xs in
        let spl = join ([ "ok"; string_of_int (List.length sp); nat_s (rank_dynamic sp) ] @ List.map pat_tok sp @ zl sx
                        @ rs_spec sx) in
        (ml, if dom then spl else "na")
      end else
      if op = "subextp" then begin
        let ls = next_zlist toks in
        let sl = List.mapi (fun k kz ->
            match ss.[k] with
            | 'F' -> SlFull
            | 'P' -> SlPair (cast t kz, cast t (List.nth ls k))
            | 'C' -> SlCPair (zi 0, zi 2)
            | 'K' -> SlCPair (zi 1, zi 3)
            | _ -> SlIndex (cast t kz)) ks in
        let ml = match sub_extents_p t e sl with
          | None -> "ub"
          | Some sub ->
              join ([ "ok"; nat_s (rank sub); nat_s (rank_dynamic sub.pat) ] @ List.map pat_tok sub.pat
                    @ zl (extents_list t sub) @ rs_toks t sub) in
        (* precondition of [mdspan.sub.extents], on the values as written in the case line *)
        let dom = all_repr t xs
                  && List.for_all2 (fun (c, (kz, lz)) x ->
                         match c with
                         | 'F' -> true
                         | 'P' -> (not (is_neg kz)) && z_le kz lz && z_le lz x
                         | 'C' -> z_le (zi 2) x
                         | 'K' -> z_le (zi 3) x
                         | _ -> (not (is_neg kz)) && z_lt kz x)
                       (List.mapi (fun k kz -> (ss.[k], (kz, List.nth ls k))) ks) xs in
        let ssl = List.mapi (fun k kz ->
            match ss.[k] with
            | 'F' -> SlFull | 'P' -> SlPair (kz, List.nth ls k)
            | 'C' -> SlCPair (zi 0, zi 2) | 'K' -> SlCPair (zi 1, zi 3) | _ -> SlIndex kz) ks in
        let sp = sub_pattern ssl p and sx = sub_shape ssl xs in
        let spl = join ([ "ok"; string_of_int (List.length sp); nat_s (rank_dynamic sp) ] @ List.map pat_tok sp @ zl sx
                        @ rs_spec sx) in
        (ml, if dom then spl else "na")
      end else
      let sl = List.mapi (fun k kz -> if ss.[k] = 'F' then None else Some (cast t kz)) ks in
      let sub = sub_extents t e sl in
      let ml = join ([ "ok"; nat_s (rank sub); nat_s (rank_dynamic sub.pat) ] @ List.map pat_tok sub.pat
                     @ zl (extents_list t sub) @ rs_toks t sub) in
      let dom = all_repr t xs
                && List.for_all2 (fun s x -> match s with None -> true | Some k -> (not (is_neg k)) && z_lt k x) sl xs in
      let sp = keep_full sl p and sx = keep_full sl xs in
      let spl = join ([ "ok"; string_of_int (List.length sp); nat_s (rank_dynamic sp) ] @ List.map pat_tok sp @ zl sx
                      @ rs_spec sx) in
      (ml, if dom then spl else "na")
    end
  | "SS" -> begin
      (* detail::submdspan_static_extent of a strided_slice type: flag 1 = integral constant, 0 = run-time member *)
      let _t = ity_of (next_str toks) in
      let bd () = let c = next_int toks in let v = next_z toks in if c = 1 then BConst v else BRun v in
      let o = bd () in
      let e = bd () in
      let d = bd () in
      let _ct = next_str toks in
      skip_semicolon toks;
      let s = { ss_offset = o; ss_extent = e; ss_stride = d } in
      let tok = function None -> "-1" | Some n -> zs n in
      let dom = (not (is_neg (bval e))) && z_lt Z0 (bval d) in
      (join [ "ok"; tok (strided_static s) ], if dom then join [ "ok"; tok (strided_static_spec s) ] else "na")
    end
  | "P" -> begin
      (* compile-time probe: layout_stride rank 1, extents<I, dyn>{x}, stride s, index i *)
      let t = ity_of (next_str toks) in
      let x = next_z toks in
      let sv = next_z toks in
      let i = next_z toks in
      let e = ext_from_pack t [ None ] [ x ] in
      let m = strided_ctor t e [ sv ] in
      let ml = match strided_map t m [ i ] with Some o -> join [ "ok"; zs o ] | None -> "ub" in
      let dom = repr t x && repr t sv && not (z_eq sv Z0) && z_lt i x && repr t (stride_required [ x ] [ sv ]) in
      (ml, if dom then join [ "ok"; zs (dot [ i ] [ sv ]) ] else "na")
    end
  | "Q" -> begin
      (* compile-time probe: layout_right rank 2, extents<I, dyn, dyn>{x0, x1}, index (i0, i1) *)
      let t = ity_of (next_str toks) in
      let x0 = next_z toks in
      let x1 = next_z toks in
      let i0 = next_z toks in
      let i1 = next_z toks in
      let e = ext_from_pack t [ None; None ] [ x0; x1 ] in
      let ml = match lay_map LRight t e [ i0; i1 ] with Some o -> join [ "ok"; zs o ] | None -> "ub" in
      let dom = repr t x0 && repr t x1 && z_lt i0 x0 && z_lt i1 x1 && repr t (product [ x0; x1 ]) in
      (ml, if dom then join [ "ok"; zs (row_major [ x0; x1 ] [ i0; i1 ]) ] else "na")
    end
  | "sp_first_s" | "sp_last_s" -> begin
      let x = ext_opt (next_z toks) in
      let c = next_z toks in
      skip_semicolon toks;
      let start = next_z toks in
      let len = next_z toks in
      let buf = span_buf 16 in
      let parent = mk_span x start len in
      (* c > len (dynamic-extent parent only): outside [span.sub]'s domain, the run-time check fires *)
      let line r = res_tok (span_line buf) r in
      if kind = "sp_first_s" then
        (line (sp_first_s parent c), if z_le c len then spec_span_line buf start c (Some c) else "na")
      else
        (line (sp_last_s parent c),
         if z_le c len then spec_span_line buf (Z.add start (Z.sub len c)) c (Some c) else "na")
    end
  | "sp_sub_s" -> begin
      let x = ext_opt (next_z toks) in
      let o = next_z toks in
      let c = ext_opt (next_z toks) in
      skip_semicolon toks;
      let start = next_z toks in
      let len = next_z toks in
      let buf = span_buf 16 in
      let parent = mk_span x start len in
      let cnt = (match c with Some n -> n | None -> Z.sub len o) in
      let ext = (match c with Some n -> Some n | None -> (match x with Some xx -> Some (Z.sub xx o) | None -> None)) in
      let dom = z_le o len && (match c with None -> true | Some n -> z_le n (Z.sub len o)) in
      (res_tok (span_line buf) (sp_sub_s parent o c), if dom then spec_span_line buf (Z.add start o) cnt ext else "na")
    end
  | "sp_dyn" -> begin
      let x = ext_opt (next_z toks) in
      skip_semicolon toks;
      let start = next_z toks in
      let len = next_z toks in
      let a = next_z toks in
      let b = next_z toks in
      let buf = span_buf 16 in
      let parent = mk_span x start len in
      let line r = res_tok (span_line buf) r in
      match op with
      | "sp_ctor" ->
          let cnt = size_arg a in
          let c = line (sp_ctor x start cnt) in
          let dom = (match x with None -> true | Some n -> z_eq n cnt) in
          (join [ "ok"; "p"; c; "s"; c; "r"; c ],
           if dom then (let s = spec_span_line buf start cnt x in join [ "ok"; "p"; s; "s"; s; "r"; s ]) else "na")
      | "sp_first_d" ->
          let c = size_arg a in
          (line (sp_first_d parent c), if z_le c len then spec_span_line buf start c None else "na")
      | "sp_last_d" ->
          let c = size_arg a in
          (line (sp_last_d parent c),
           if z_le c len then spec_span_line buf (Z.add start (Z.sub len c)) c None else "na")
      | "sp_sub_d" | "sp_sub_d1" ->
          let o = size_arg a in
          let c = if op = "sp_sub_d1" then None else count_opt b in
          let dom = z_le o len && (match c with None -> true | Some n -> z_le n (Z.sub len o)) in
          let cnt = (match c with Some n -> n | None -> Z.sub len o) in
          (line (sp_sub_d parent o c), if dom then spec_span_line buf (Z.add start o) cnt None else "na")
      | "sp_fb" ->
          let tok r = res_tok (fun off -> join [ "ok"; zs off; zs (Z.add (zi 100) off) ]) r in
          (join [ "ok"; "f"; tok (sp_front parent); "b"; tok (sp_back parent) ],
           if z_lt Z0 len then
             join [ "ok"; "f"; "ok"; zs start; zs (Z.add (zi 100) start); "b"; "ok";
                    zs (Z.sub (Z.add start len) (zi 1)); zs (Z.add (zi 100) (Z.sub (Z.add start len) (zi 1))) ]
           else "na")
      | "sp_obs" ->
          let i = size_arg a in
          let bytes_line (r : spanv) =
            join [ zs r.s_off; zs r.s_size; (match r.s_ext with None -> "-1" | Some n -> zs n) ] in
          let spec_bytes =
            join [ zs (Z.mul start (zi 4)); zs (Z.mul len (zi 4));
                   (match x with None -> "-1" | Some n -> zs (Z.mul n (zi 4))) ] in
          let ml =
            match sp_index parent i with
            | Ok addr ->
                (* front()/back() need a non-empty span, implied by i < size() *)
                join [ span_line buf parent; zs (Z.mul parent.s_size (zi 4)); b2s (z_eq parent.s_size Z0);
                       zs parent.s_size; zs addr; zs parent.s_off;
                       zs (Z.sub (Z.add parent.s_off parent.s_size) (zi 1)); zs parent.s_off; zs parent.s_size;
                       bytes_line (sp_as_bytes (zi 4) parent); bytes_line (sp_as_bytes (zi 4) parent);
                       zs (sp_size_bytes (zi 3) parent); bytes_line (sp_as_bytes (zi 3) parent);
                       zs (Z.mul addr (zi 3)) ]
            | r -> res_tok (fun _ -> "?") r in
          let sl =
            if z_lt i len then
              join [ spec_span_line buf start len x; zs (Z.mul len (zi 4)); b2s (z_eq len Z0); zs len;
                     zs (Z.add start i); zs start; zs (Z.sub (Z.add start len) (zi 1)); zs start; zs len;
                     spec_bytes; spec_bytes;
                     zs (Z.mul len (zi 3));
                     join [ zs (Z.mul start (zi 3)); zs (Z.mul len (zi 3));
                            (match x with None -> "-1" | Some n -> zs (Z.mul n (zi 3))) ];
                     zs (Z.mul (Z.add start i) (zi 3)) ]
            else "na" in
          (ml, sl)
      | _ -> raise Not_found
    end
  | "sp_arr" -> begin
      let n = next_z toks in
      skip_semicolon toks;
      let a = size_arg (next_z toks) in
      let c = count_opt (next_z toks) in
      let buf = span_buf (int_of_z n) in
      let parent = mk_span (Some n) Z0 n in
      let ml =
        match sp_sub_d parent a c, sp_sub_d (mk_span None Z0 n) a c with
        | Ok r1, Ok r2 ->
            join ([ span_line buf r1; zs n; zs n; zs n; zs r2.s_off ]
                  @ (if z_lt Z0 n then [ span_line buf r1 ] else []) @ [ "api"; "0" ])
        | Contract, _ | _, Contract -> "contract"
        | _ -> "ub" in
      let dom = z_le a n && (match c with None -> true | Some k -> z_le k (Z.sub n a)) in
      let cnt = (match c with Some k -> k | None -> Z.sub n a) in
      let sl =
        if dom then
          let s1 = spec_span_line buf a cnt None in
          join ([ s1; zs n; zs n; zs n; zs a ] @ (if z_lt Z0 n then [ s1 ] else []) @ [ "api"; "0" ])
        else "na" in
      (ml, sl)
    end
  | _ -> raise Not_found

let () = main run_case
