#!/usr/bin/env python3
"""Parallel compile wrapper used as the 'compiler' of the C19 harness entries.

The harness instantiates several hundred extents patterns; one translation unit takes ~2 minutes.
This wrapper compiles the SAME source once per table part (inst_<tier>_<k>.inc, -DC19_PART=k),
at most C19_JOBS (default 12) parts at a time, and links the objects.  It accepts the g++ command line the engine builds:
    pcxx.py <flags...> -DC19_TABLEBASE=inst_quick -DC19_NPARTS=10 <src> -o <exe>
"""
import os
import subprocess
import sys
import tempfile


def main(argv):
    cxx = os.environ.get("C19_CXX", "g++")
    args = list(argv)
    out = None
    src = None
    flags = []
    base = None
    nparts = 1
    i = 0
    while i < len(args):
        a = args[i]
        if a == "-o":
            out = args[i + 1]
            i += 2
            continue
        if a.startswith("-DC19_TABLEBASE="):
            base = a.split("=", 1)[1]
        elif a.startswith("-DC19_NPARTS="):
            nparts = int(a.split("=", 1)[1])
            flags.append(a)
        elif a.endswith(".cpp") and not a.startswith("-"):
            src = a
        else:
            flags.append(a)
        i += 1
    if out is None or src is None or base is None:
        sys.stderr.write("pcxx.py: need <src>.cpp, -o <exe> and -DC19_TABLEBASE=<name>\n")
        return 2
    tmp = tempfile.mkdtemp(prefix="c19-build-")
    objs = []
    cmds = []
    for k in range(nparts):
        obj = os.path.join(tmp, "part%d.o" % k)
        objs.append(obj)
        cmds.append([cxx] + flags + ["-DC19_PART=%d" % k, '-DC19_TABLE="%s_%d.inc"' % (base, k), "-c", src, "-o", obj])
    # at most C19_JOBS (default 12) compiler processes at a time
    jobs = max(1, int(os.environ.get("C19_JOBS", "12")))
    rc = 0
    running = []
    pending = list(cmds)
    while pending or running:
        while pending and len(running) < jobs:
            running.append(subprocess.Popen(pending.pop(0), stdout=subprocess.PIPE, stderr=subprocess.STDOUT))
        p = running.pop(0)
        o, _ = p.communicate()
        if p.returncode != 0:
            rc = p.returncode
            sys.stderr.write(o.decode("utf-8", "replace")[-6000:])
    if rc == 0:
        link = [cxx] + [f for f in flags if not f.startswith("-D") and not f.startswith("-I")] + objs + ["-o", out]
        p = subprocess.run(link, stdout=subprocess.PIPE, stderr=subprocess.STDOUT)
        rc = p.returncode
        if rc != 0:
            sys.stderr.write(p.stdout.decode("utf-8", "replace")[-6000:])
    for f in objs:
        if os.path.exists(f):
            os.unlink(f)
    os.rmdir(tmp)
    return rc


if __name__ == "__main__":
    sys.exit(main(sys.argv[1:]))
