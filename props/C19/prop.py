"""C19 -- mdspan extents / layout mappings / mdarray / layout_transpose / submdspan_extents / span:
case generators and configuration.  Case line: <op> <tier q|t> <table key...> ; <op tokens>."""
import importlib.util
import itertools
import os

ID = "C19"
LEVEL = "proof"
HERE = os.path.dirname(os.path.abspath(__file__))

_spec = importlib.util.spec_from_file_location("c19_gen_table", os.path.join(HERE, "gen_table.py"))
gt = importlib.util.module_from_spec(_spec)
_spec.loader.exec_module(gt)

_stale = gt.stale()
if _stale:
    raise RuntimeError("props/C19: instantiation tables are stale (%s): run python3 props/C19/gen_table.py" % _stale)

_PCXX = os.path.join(HERE, "pcxx.py")
_COMMON = ["-O0", "-DTETL_ENABLE_CONTRACT_CHECKS=1"]
HARNESSES = [
    {"name": "main", "src": "harness.cpp", "compiler": _PCXX,
     "flags": _COMMON + ["-DC19_TIER='q'", "-DC19_TABLEBASE=inst_quick", "-DC19_NPARTS=%d" % gt.NPARTS["inst_quick"]]},
    # the same harness, a small table, built with -fsanitize=signed-integer-overflow and trap-on-error: a trap
    # (SIGILL) inside a case is caught and reported as the impl outcome `ub` (tier letter u); also AddressSanitizer
    # (heap/stack overflow, use after scope/return): a report ends the child, the case reads `crash 6`
    {"name": "ub", "src": "harness.cpp", "compiler": _PCXX,
     "flags": _COMMON + ["-DC19_TIER='u'", "-DC19_TABLEBASE=inst_ub", "-DC19_NPARTS=%d" % gt.NPARTS["inst_ub"],
                         "-DC19_UBTRAP=1", "-fsanitize=signed-integer-overflow", "-fsanitize-undefined-trap-on-error",
                         "-fsanitize=address", "-fno-omit-frame-pointer"]},
    {"name": "wide", "src": "harness.cpp", "compiler": _PCXX, "thorough_only": True,
     "flags": _COMMON + ["-DC19_TIER='t'", "-DC19_TABLEBASE=inst_thorough",
                         "-DC19_NPARTS=%d" % gt.NPARTS["inst_thorough"]]},
]

RULE = ("every extents instantiation of the generated table (quick: index types int8/int32/uint64, rank 0-3, every "
        "static/dynamic pattern with static extents 0..3; thorough adds all eight index types, rank 4 and extent 4) x "
        "every assignment 0..3 (0..4) of the dynamic extents: all three constructor routes, default/all-extents/"
        "converting constructors, fwd/rev products, layout_left/right/stride mappings on ALL multi-indices of the "
        "shape (offsets, strides, required_span_size), mdspan/mdarray element addresses, layout_transpose, "
        "submdspan_extents with every full/index/(first,last) slice choice, pair / tuple / array (first,last) slices whose bounds are run-time values, integral constants or one of each (static_extent of the result type, extent, required_span_size of the mappings over it), submdspan_static_extent of strided_slice types, operator== of extents and mappings across index types, stride(r) contract, wrap-around cases with huge "
        "extents for the unsigned and narrow index types; span: every (Extent, Offset, Count) static form and every "
        "(offset, count) dynamic form for lengths 0..6 incl. contract violations. "
        "non-trivial = distinct case line whose impl outcome is ok or contract")
TRUSTED_BASE = ["reference leg: closed-form row-/column-major/strided formulas evaluated in __int128 inside the "
                "harness; std::span (libstdc++ 12) for the span operations",
                "props/C19/pcxx.py (parallel compile wrapper around g++)"]
ASSUMPTIONS = ["LP64: size_t is 64 bits, int is 32 bits, two's complement, modular narrowing conversions (C++20)",
               "signed-overflow cases of operator() (model outcome ub) are excluded from the inputs of the plain builds and "
               "run against a build with -fsanitize=signed-integer-overflow (trap = impl outcome ub)"]

D = -1
BITS = gt.BITS


def imax(ity):
    b, s = BITS[ity]
    return (1 << (b - 1)) - 1 if s else (1 << b) - 1


def key(kind, ity, p):
    return "%s %s %s" % (kind, ity, gt.patkey(p))


def lst(v):
    return " ".join([str(len(v))] + [str(x) for x in v])


def fit(ity, x):
    """a value as the harness reads it: long long for signed index types, unsigned long long otherwise"""
    x %= 1 << 64
    if BITS[ity][1] and x >= 1 << 63:
        x -= 1 << 64
    return x


def lstw(ity, v):
    return lst([fit(ity, x) for x in v])


def ndyn(p):
    return sum(1 for x in p if x == D)


def fill(p, v):
    it = iter(v)
    return [next(it) if x == D else x for x in p]


def wrap(ity, x):
    b, s = BITS[ity]
    x %= 1 << b
    if s and x >= 1 << (b - 1):
        x -= 1 << b
    return x


def arith_safe(ity, xs, idx, strides=None):
    """True when the model's operator() cannot hit signed overflow in the promoted type: every
    |term| and the total stay below 2^31 (narrow/int index types) resp. 2^63 (int64)."""
    b, s = BITS[ity]
    if not s and b >= 32:
        return True
    lim = (1 << 31) if b <= 32 else (1 << 63)
    cx = [wrap(ity, x) for x in xs]
    ci = [wrap(ity, i) for i in idx]
    tot = 0
    for layout in ("L", "R"):
        tot = 0
        for k in range(len(cx)):
            if strides is not None:
                st = wrap(ity, strides[k])
            else:
                pr = 1
                rng = range(0, k) if layout == "L" else range(k + 1, len(cx))
                for j in rng:
                    pr = (pr * (cx[j] % (1 << 64))) % (1 << 64)
                st = wrap(ity, pr)
            term = ci[k] * st
            if abs(term) >= lim:
                return False
            tot += abs(term)
        if tot >= lim:
            return False
    return True


def ext_cases(out, tier, ity, p, rng, vmax, heavy):
    k = key("E", ity, p)
    r, nd = len(p), ndyn(p)
    pre = lambda op: "%s %s %s ;" % (op, tier, k)  # noqa: E731
    mx = imax(ity)
    out.append(pre("ext_default"))
    out.append(pre("strided_default"))
    combos = list(itertools.product(range(0, vmax + 1), repeat=nd))
    for v in combos:
        out.append("%s 0 %s" % (pre("ext_dyn"), lst(v)))
        full = fill(p, v)
        out.append("%s 0 %s" % (pre("ext_all"), lst(full)))
        for lay in "LR":
            out.append("%s %s %s" % (pre("map_all"), lay, lst(v)))
            if heavy:
                out.append("%s %s %s" % (pre("mds_all"), lay, lst(v)))
        if heavy:
            out.append("%s %s %s" % (pre("mdsa_all"), "LR"[sum(v) % 2], lst(v)))
    # other constructor routes, mismatching static values, boundary values
    v = rng.choice(combos)
    for route in (1, 2):
        out.append("%s %d %s" % (pre("ext_dyn"), route, lst(v)))
        out.append("%s %d %s" % (pre("ext_all"), route, lst(fill(p, v))))
    if r > 0:
        bad = fill(p, v)
        j = rng.randrange(r)
        bad[j] = bad[j] + 1
        out.append("%s 0 %s" % (pre("ext_all"), lst(bad)))
        big = [rng.choice([mx, mx + 1, mx - 1, -1, 2 * mx + 1, 2 * mx + 2, 5, 1 << 40]) for _ in range(nd)]
        out.append("%s 0 %s" % (pre("ext_dyn"), lstw(ity, big)))
        out.append("%s %d %s" % (pre("ext_all"), rng.choice((0, 1, 2)), lstw(ity, fill(p, big))))
    # products, incl. size_t wrap-around
    out.append("%s %s" % (pre("prod"), lst(v)))
    if nd > 0:
        for _ in range(2):
            bv = [rng.choice([mx, 1 << 31, (1 << 32) + 1, 3, 1 << 63, 255, 65535, (1 << 64) - 1]) for _ in range(nd)]
            out.append("%s %s" % (pre("prod"), lstw(ity, bv)))
    # stride(r) precondition
    if r > 0:
        for rr in list(range(0, r + 2)) + [(1 << 64) - 1, 1 << 32]:
            out.append("%s %s %s %d" % (pre("stride_of"), "LR"[rr % 2], lst(v), rr))
            out.append("%s %s %s %d" % (pre("stride_of"), "RL"[rr % 2], lst(v), rr))
    # single points: in range, out of range, wrap-around of the index type
    for _ in range(6 if heavy else 2):
        vv = [rng.choice([1, 2, 3, 5, 11, 16, 100, 127, 128, 200, 255, 256, 1000, 40000, 65535, 65536, 1 << 20,
                          1 << 31, (1 << 32) - 1, 1 << 32, mx, mx + 1, 1 << 62]) for _ in range(nd)]
        xs = fill(p, vv)
        idx = []
        for x in xs:
            c = rng.random()
            if c < 0.6 and wrap(ity, x) > 0:
                idx.append(rng.randrange(0, min(wrap(ity, x), 1 << 62)))
            elif c < 0.8:
                idx.append(max(0, wrap(ity, x) - 1))
            else:
                idx.append(rng.choice([0, 1, 3, 200, 1000, mx]))
        if arith_safe(ity, xs, idx):
            out.append("%s %s %s %s" % (pre("map_at"), rng.choice("LR"), lstw(ity, vv), lstw(ity, idx)))
    # layout_stride with explicit strides: canonical, padded, permuted, arbitrary
    if r == 0:
        out.append("%s 0 0" % pre("strided_all"))
        return
    for v in ([rng.choice(combos)] + ([rng.choice(combos), tuple([vmax] * nd)] if heavy else [])):
        xs = fill(p, v)
        lefts, rights = [], []
        for kk in range(r):
            pl = 1
            for j in range(kk):
                pl *= max(xs[j], 1)
            lefts.append(pl)
            pr = 1
            for j in range(kk + 1, r):
                pr *= max(xs[j], 1)
            rights.append(pr)
        cands = [lefts, rights, [2 * s for s in rights], [s + 1 for s in lefts], [3 * s + 2 for s in rights]]
        perm = list(range(r))
        rng.shuffle(perm)
        ps, acc = [0] * r, 1
        for d in perm:          # a valid permuted (unique) layout with padding
            ps[d] = acc
            acc *= max(xs[d], 1) + rng.choice([0, 0, 1])
        cands.append(ps)
        cands.append([rng.choice([0, 1, 2, 3, 7]) for _ in range(r)])
        for st in cands:
            out.append("%s %s %s" % (pre("strided_all"), lst(v), lst(st)))
        if all(x > 0 for x in xs):
            idx = [rng.randrange(0, x) for x in xs]
            out.append("%s %s %s %s" % (pre("strided_at"), lst(v), lst(ps), lst(idx)))
    b, s = BITS[ity]
    if not s or b == 8:
        # wrap-around of strides / offsets (unsigned arithmetic, or int arithmetic that cannot overflow)
        vv = [rng.choice([3, 100, 255, mx, 1 << 31]) for _ in range(nd)]
        xs = fill(p, vv)
        st = [rng.choice([1, 7, 100, 255, mx, (1 << 33) + 5, mx + 2]) for _ in range(r)]
        idx = [rng.choice([0, 1, 2, 100, 255, mx]) for _ in range(r)]
        # (uint16 * uint16 is int arithmetic and CAN overflow: 65535 * 65535 -- such inputs go to the `ub` harness)
        if arith_safe(ity, xs, idx, strides=st):
            out.append("%s %s %s %s" % (pre("strided_at"), lstw(ity, vv), lstw(ity, st), lstw(ity, idx)))


def ub_cases(out, rng):
    """inputs aimed at signed overflow of operator() in the promoted type (tier letter u: only the harness built
    with -fsanitize=signed-integer-overflow answers).  No filter: the model decides (`ub` or a wrapped value) and
    the instrumented code must agree."""
    ut = gt.ub_table()
    for ity, x, s_, i_ in ut.cep1:
        out.append("ce_probe u P %s %d %d %d ;" % (ity, x, s_, i_))
    for ity, x0, x1, i0, i1 in ut.cep2:
        out.append("ce_probe u Q %s %d %d %d %d ;" % (ity, x0, x1, i0, i1))
    for ity, p in ut.ext:
        k = key("E", ity, p)
        r, nd = len(p), ndyn(p)
        if r == 0:
            continue
        mx = imax(ity)
        pre = lambda op: "%s u %s ;" % (op, k)  # noqa: E731
        b, sg = BITS[ity]
        big = [mx, mx - 1, (mx + 1) // 2, 1 << (b // 2), (1 << (b // 2)) + 1, 3, 2, 255, 256, 65535, 65536, 46341, 46340,
               1 << 31, (1 << 31) - 1, 3037000500, 1 << 32]
        for _ in range(24):
            vv = [rng.choice(big) for _ in range(nd)]
            xs = fill(p, vv)
            idx = [rng.choice([0, 1, 2, max(0, wrap(ity, x) - 1), wrap(ity, x) // 2 if wrap(ity, x) > 0 else 0,
                               rng.choice(big)]) for x in xs]
            out.append("%s %s %s %s" % (pre("map_at"), rng.choice("LR"), lstw(ity, vv), lstw(ity, idx)))
            st = [rng.choice(big + [1, 1, 7]) for _ in range(r)]
            out.append("%s %s %s %s" % (pre("strided_at"), lstw(ity, vv), lstw(ity, st), lstw(ity, idx)))
        # the classic: uint16 * uint16 overflows int
        out.append("%s %s %s %s" % (pre("strided_at"), lstw(ity, [mx] * nd), lstw(ity, [mx] * r), lstw(ity, [mx] * r)))
        out.append("%s %s %s %s" % (pre("strided_at"), lstw(ity, [3] * nd), lstw(ity, [1] * r), lstw(ity, [1] * r)))


def gen(tier, rng):
    out = []
    quick = tier == "quick"
    q = gt.quick_table()
    vmax = 3
    for ity, p in q.ext:
        ext_cases(out, "q", ity, p, rng, vmax, heavy=True)
    def table_block(out, q):
        """mdarray / converting constructors / layout_transpose / submdspan_extents cases of one instantiation
        table, written with tier letter q (re-tagged for the thorough table below)"""
        # mdarray
        for ity, p in q.arr:
            k = key("A", ity, p)
            for v in itertools.product(range(0, 4), repeat=ndyn(p)):
                xs = fill(p, v)
                pr = 1
                for x in xs:
                    pr *= x
                if pr > 64:
                    continue
                for lay in "LR":
                    for cont in "VA":
                        out.append("mda_all q %s ; %s %s %s" % (k, lay, cont, lst(v)))
        # converting constructors
        for i2, p2, i1, p1 in q.conv:
            k = "C %s %s %s %s" % (i2, gt.patkey(p2), i1, gt.patkey(p1))
            nd = ndyn(p1)
            vals = set()
            # values that satisfy the precondition (equal to the destination's static extents) ...
            want = [p2[j] if p2[j] != D else None for j in range(len(p1)) if p1[j] == D]
            for _ in range(4):
                vals.add(tuple(w if w is not None else rng.choice([0, 1, 2, 3, 5, 100, 127]) for w in want))
            # ... and arbitrary ones (outside the standard's domain when they differ or do not fit)
            for _ in range(3):
                vals.add(tuple(rng.choice([0, 1, 2, 3, 4, 127, 128, 255, 256, 1 << 31, (1 << 32) + 2, imax(i1)])
                               for _ in range(nd)))
            for v in sorted(vals):
                out.append("ext_conv q %s ; %s" % (k, lstw(i1, v)))
            # operator==: equal and unequal value assignments, values that differ only outside the narrower type
            nd2 = ndyn(p2)
            for _ in range(4):
                full1 = [(p2[j] if (p2[j] != D and rng.random() < 0.7) else rng.choice([0, 1, 2, 3, 5, 100]))
                         for j in range(len(p1))]
                xs1 = [p1[j] if p1[j] != D else full1[j] for j in range(len(p1))]
                v1 = [xs1[j] for j in range(len(p1)) if p1[j] == D]
                w_eq = [xs1[j] for j in range(len(p2)) if p2[j] == D]
                out.append("ext_eq q %s ; %s %s" % (k, lstw(i1, v1), lstw(i2, w_eq)))
                if nd2 > 0:
                    w_ne = list(w_eq)
                    j = rng.randrange(nd2)
                    w_ne[j] = w_ne[j] + rng.choice([1, 2, 256, 1 << 32])
                    out.append("ext_eq q %s ; %s %s" % (k, lstw(i1, v1), lstw(i2, w_ne)))
                if nd > 0:
                    v_ne = list(v1)
                    j = rng.randrange(nd)
                    v_ne[j] = v_ne[j] + rng.choice([1, 3, 256, 1 << 32])
                    out.append("ext_eq q %s ; %s %s" % (k, lstw(i1, v_ne), lstw(i2, w_eq)))
            # mixed signedness: -1 on the signed side against the maximum of the unsigned side -- equal after the usual
            # arithmetic conversions, different as mathematical values (operator== uses cmp_not_equal)
            if BITS[i1][1] != BITS[i2][1] and nd > 0 and nd2 > 0:
                s1 = [-1] * nd if BITS[i1][1] else [imax(i1)] * nd
                s2 = [-1] * nd2 if BITS[i2][1] else [imax(i2)] * nd2
                out.append("ext_eq q %s ; %s %s" % (k, lstw(i1, s1), lstw(i2, s2)))
            v = sorted(vals)[0]
            kinds = ["LL", "RR", "MD", "SL", "SR", "LS", "RS"] + (["LR", "RL"] if len(p1) <= 1 else [])
            for kind in kinds:
                out.append("map_conv q %s ; %s %s" % (k, lstw(i1, v), kind))
                out.append("map_conv q %s ; %s %s" % (k, lstw(i1, sorted(vals)[-1]), kind))
        # layout_transpose: key = pattern of the transposed view, values = dynamic extents of the nested mapping
        def transp(tag, table):
            for ity, a, b in table:
                k = key("T", ity, (a, b))
                nd = ndyn((b, a))
                for v in itertools.product(range(0, 4), repeat=nd):
                    for lay in "LR":
                        out.append("transp_all %s %s ; %s %s" % (tag, k, lay, lst(v)))
                for _ in range(2):
                    v = [rng.choice([5, 7, 11, 12]) for _ in range(nd)]
                    out.append("transp_all %s %s ; %s %s" % (tag, k, rng.choice("LR"), lst(v)))
        transp("q", q.transp)
        # submdspan_extents
        for ity, p, sl in q.sub:
            k = "S %s %s %s" % (ity, gt.patkey(p), sl)
            nd = ndyn(p)
            if any(c in gt.BOUNDS for c in sl):
                pair_cases(out, k, p, sl, rng)
                continue
            combos = list(itertools.product(range(0, 4), repeat=nd))
            for v in combos:
                xs = fill(p, v)
                ks = [(rng.randrange(0, x) if x > 0 else 0) for x in xs]
                out.append("subext q %s ; %s %s" % (k, lst(v), lst(ks)))
                out.append("subfl q %s ; %s %s %s" % (k, lst(v), lst(ks), lst(ks)))
            v = rng.choice(combos)
            xs = fill(p, v)
            out.append("subext q %s ; %s %s" % (k, lst(v), lst([x for x in xs])))       # index == extent: out of range
            out.append("subext q %s ; %s %s" % (k, lst([5 + j for j in range(nd)]), lst([1 for _ in xs])))
        # detail::submdspan_static_extent of strided_slice types (a pure function of the types: one case each)
        for e in q.sst:
            out.append("substat q SS %s ;" % " ".join(str(x) for x in e))
    table_block(out, q)
    # span
    span_cases(out, q, rng)
    # the quick cases of the instantiations that also exist in the sanitizer build run a second time there
    ukeys = gt.ub_table().keys()
    dup = []
    for c in out:
        toks = c.split(" ")
        if len(toks) > 2 and toks[1] == "q" and ";" in toks:
            if " ".join(toks[2:toks.index(";")]) in ukeys:
                dup.append(" ".join([toks[0], "u"] + toks[2:]))
    out.extend(dup)
    # signed overflow in operator(): model outcome `ub` against the trap of the instrumented build
    ub_cases(out, rng)
    if not quick:
        t = gt.thorough_table()
        for ity, p in t.ext:
            ext_cases(out, "t", ity, p, rng, 4 if (len(p) == 4 or 4 in p) else 3, heavy=len(p) < 4)
        # the mdarray / conversion / transpose / submdspan_extents instantiations that exist only in the thorough harness
        tmp = []
        table_block(tmp, t)
        for c in tmp:
            toks = c.split(" ")
            toks[1] = "t"
            out.append(" ".join(toks))
    return out


def pair_cases(out, k, p, sl, rng):
    """submdspan_extents with at least one (first, last) slice: tokens <dynamic extents> <first/index per
    dimension> <last per dimension>.  A bound that is an integral constant in the slice type (gen_table.BOUNDS)
    ignores its token; the run-time partner of a constant bound is drawn so that the range is valid."""
    nd = ndyn(p)
    pre = "subextp q %s ;" % k
    mixed = any(c in gt.MIXED for c in sl)
    combos = list(itertools.product(range(0, 6 if mixed else 5), repeat=nd))
    if len(combos) > 16:
        combos = [combos[0], combos[-1]] + rng.sample(combos, 10)
    if mixed and nd:
        # extents that contain every constant bound in use (2, 3): the in-domain region of the mixed forms
        combos += [tuple([4] * nd), tuple([3] * nd), tuple(rng.randrange(3, 7) for _ in range(nd))]

    def valid_range(c, x):
        cf, cl = gt.BOUNDS.get(c, (None, None))
        hi = x if cl is None else cl
        f = cf if cf is not None else rng.randrange(0, max(hi, 0) + 1)
        lo = f
        last = cl if cl is not None else (rng.randrange(lo, x + 1) if lo <= x else lo)
        return f, last

    for v in combos:
        xs = fill(p, v)
        picks = []
        # boundary choices: the whole dimension, the empty range at both ends; then random valid ranges
        picks.append(([0] * len(xs), list(xs)))
        picks.append((list(xs), list(xs)))
        picks.append(([0] * len(xs), [0] * len(xs)))
        for _ in range(4 if mixed else 3):
            fl = [valid_range(c, x) for c, x in zip(sl, xs)]
            picks.append(([f for f, _ in fl], [la for _, la in fl]))
        if mixed:
            # the extreme valid run-time partner of every constant bound: first = 0 / last = extent
            fl = []
            for c, x in zip(sl, xs):
                cf, cl = gt.BOUNDS.get(c, (None, None))
                fl.append((cf if cf is not None else 0, cl if cl is not None else x))
            picks.append(([f for f, _ in fl], [la for _, la in fl]))
        for fs, ls in picks:
            ks = [(f if c in gt.BOUNDS else (rng.randrange(0, x) if x > 0 else 0)) for f, x, c in zip(fs, xs, sl)]
            out.append("%s %s %s %s" % (pre, lst(v), lst(ks), lst(ls)))
            out.append("%s %s %s %s" % (pre.replace("subextp", "subfl", 1), lst(v), lst(ks), lst(ls)))
    # outside the standard's domain: last > extent, first > last, large values
    v = [rng.randrange(0, 5) for _ in range(nd)]
    xs = fill(p, v)
    out.append("%s %s %s %s" % (pre, lst(v), lst([0] * len(xs)), lst([x + 1 for x in xs])))
    out.append("%s %s %s %s" % (pre, lst(v), lst([x for x in xs]), lst([0] * len(xs))))
    out.append("%s %s %s %s" % (pre, lst(v), lst([1] * len(xs)), lst([100 + x for x in xs])))


def span_cases(out, q, rng):
    maxlen = 6
    lens = lambda x: [x] if x != D else list(range(0, maxlen + 1))  # noqa: E731
    # compile-time forms; on a dynamic-extent parent (x == D) also the arguments outside [span.sub]'s domain
    # (Count > size(), Offset > size()): the run-time checks of the library must fire (reference/spec: na)
    for x, c in q.spf:
        for ln in lens(x):
            if c <= ln or x == D:
                for start in (0, 3):
                    out.append("sp_first_s q sp_first_s %d %d ; %d %d" % (x, c, start, ln))
                    out.append("sp_last_s q sp_last_s %d %d ; %d %d" % (x, c, start, ln))
    for x, o, c in q.sps:
        for ln in lens(x):
            if (o <= ln and (c == D or c <= ln - o)) or x == D:
                for start in (0, 2):
                    out.append("sp_sub_s q sp_sub_s %d %d %d ; %d %d" % (x, o, c, start, ln))
    big = [(1 << 64) - 2, 1 << 63, (1 << 64) - 1]
    for x in q.spd:
        for ln in lens(x):
            for start in (0, 5):
                out.append("sp_fb q sp_dyn %d ; %d %d 0 0" % (x, start, ln))
                if ln == (x if x != D else 0):
                    # constructors with every count 0..7 (static extent: only count == extent is inside the domain)
                    for cnt in range(0, maxlen + 2):
                        out.append("sp_ctor q sp_dyn %d ; %d 0 %d 0" % (x, start, cnt))
                for a in list(range(0, maxlen + 2)) + [-1] + big[:1]:
                    out.append("sp_first_d q sp_dyn %d ; %d %d %d 0" % (x, start, ln, a))
                    out.append("sp_last_d q sp_dyn %d ; %d %d %d 0" % (x, start, ln, a))
                    out.append("sp_sub_d1 q sp_dyn %d ; %d %d %d 0" % (x, start, ln, a))
                    out.append("sp_obs q sp_dyn %d ; %d %d %d 0" % (x, start, ln, a))
                    for b in list(range(0, maxlen + 2)) + [-1] + big[:2]:
                        out.append("sp_sub_d q sp_dyn %d ; %d %d %d %d" % (x, start, ln, a, b))
    for n in q.spa:
        for a in range(0, n + 2):
            for b in list(range(0, n + 2)) + [-1]:
                out.append("sp_arr q sp_arr %d ; %d %d" % (n, a, b))


def nontrivial(case, impl):
    return impl.startswith("ok") or impl.startswith("contract")
