(* C05 driver: model leg = does the guard (as written, wrap-around arithmetic) let the call through,
   and which header's check fires; spec leg = the documented precondition *)
let two64 = Big.shift_left Big.one 64
let u (z : z) : z = let b = big_of_z z in z_of_big (Big.erem b two64)   (* size_t value of a case-file number *)
let leg ok file = if ok then "ok" else "contract 1 # " ^ file
let sp ok = if ok then "ok" else "contract 1"

let vec_state k =
  let s0 = (empty_vec (nat_of_int 4), empty_vec (nat_of_int 4)) in
  let xs = List.init k (fun i -> z_of_int (i + 1)) in
  match step pred_of s0 (AssignRange (false, xs)) with Ok (s, _) -> s | _ -> s0

let run_case op t =
  match op with
  | "vec" ->
      let k = next_int t in
      let o = next_str t in
      let a0 = if more t then next_z t else Z0 in
      let a1 = if more t then next_z t else Z0 in
      let s = vec_state k in
      let nines n = List.init (max 0 (min n 8)) (fun _ -> z_of_int 7) in
      let small z = let b = big_of_z z in if Big.fits_int b then Big.to_int b else max_int in
      let i0 = small a0 and i1 = small a1 in
      let (vop, file) = match o with
        | "pb" -> (Some (PushBack (false, z_of_int 9)), "static_vector.hpp")
        | "eb" -> (Some (EmplaceBack (false, z_of_int 9)), "static_vector.hpp")
        | "pop" -> (Some (PopBack false), "static_vector.hpp")
        | "icr" -> (Some (InsertCR (false, a0, z_of_int 9)), "static_vector.hpp")
        | "irv" -> (Some (InsertRV (false, a0, z_of_int 9)), "static_vector.hpp")
        | "emp" -> (Some (EmplaceAt (false, a0, z_of_int 9)), "static_vector.hpp")
        | "inn" -> (Some (InsertN (false, a0, a1, z_of_int 9)), "static_vector.hpp")
        | "irg" -> (Some (InsertRange (false, a0, nines i1)), "static_vector.hpp")
        | "era" -> (Some (EraseAt (false, a0)), "static_vector.hpp")
        | "err" -> (Some (EraseRange (false, a0, a1)), "static_vector.hpp")
        | "rsz" -> (Some (Resize (false, u a0)), "static_vector.hpp")
        | "rsv" -> (Some (ResizeVal (false, u a0, z_of_int 9)), "static_vector.hpp")
        | "asn" -> (Some (AssignN (false, u a0, z_of_int 9)), "static_vector.hpp")
        | "asr" -> (Some (AssignRange (false, nines i0)), "static_vector.hpp")
        | "at" | "cat" -> (Some (At (false, a0)), "index.hpp")
        | "fr" -> (Some (Front false), "index.hpp")
        | "bk" -> (Some (Back false), "static_vector.hpp")
        | "ctor_n" -> (None, "static_vector.hpp")
        | "ctor_nv" -> (None, "static_vector.hpp")
        | "ctor_rg" -> (None, "static_vector.hpp")
        | _ -> raise Not_found in
      (match vop with
       | Some vo ->
           let m = match step pred_of s vo with Ok _ -> "ok" | Contract -> "contract 1 # " ^ file | _ -> "ub" in
           let spec_in =
             (* the spec takes the mathematical size_t values *)
             let vo' = match vo with
               | InsertN (t, p, n, x) -> InsertN (t, p, u n, x)
               | At (t, i) -> At (t, u i)
               | o -> o in
             (* OCaml evaluates spec_step's result list eagerly: a count beyond any capacity is a violation outright *)
             let huge = match vo' with
               | InsertN (_, _, n, _) | Resize (_, n) | ResizeVal (_, n, _) | AssignN (_, n, _) | At (_, n) -> Big.gt (big_of_z n) (Big.of_int 64)
               | _ -> false in
             if huge then None else
             spec_step pred_of (z_of_int 4) (List.init k (fun i -> z_of_int (i + 1)), []) vo' in
           (m, sp (spec_in <> None))
       | None ->
           (* constructors: TETL_PRECONDITION(n <= capacity()) / range length *)
           let ok = if o = "ctor_rg" then i0 >= 0 && i0 <= 4 else Big.leq (big_of_z (u a0)) (Big.of_int 4) in
           (leg ok file, sp ok))
  | "ivec" ->
      let cap = next_int t in let k = next_int t in let o = next_str t in let a = next_z t in
      let k = if cap = 0 then 0 else k in
      let s0 = (empty_vec (nat_of_int cap), empty_vec (nat_of_int cap)) in
      let s = List.fold_left (fun s i -> match iv_step s (IvTryPush (false, z_of_int i)) with Ok (s', _) -> s' | _ -> s) s0
          (List.init k (fun i -> i + 1)) in
      let io = match o with
        | "upb" | "ueb" -> IvUncheckedPush (false, z_of_int 9)
        | "pop" -> IvPop false
        | "at" | "cat" -> IvAt (false, a)
        | "fr" -> IvFront false
        | "bk" -> IvBack false
        | "tpb" -> IvTryPush (false, z_of_int 9)
        | _ -> raise Not_found in
      let m = match iv_step s io with Ok _ -> "ok" | Contract -> "contract 1 # inplace_vector.hpp" | _ -> "ub" in
      let io' = match io with IvAt (t, i) -> IvAt (t, u i) | o -> o in
      let huge = match io' with IvAt (_, i) -> Big.gt (big_of_z i) (Big.of_int 64) | _ -> false in
      let spv = if huge then None else iv_spec_step (z_of_int cap) (List.init k (fun i -> z_of_int (i + 1)), []) io' in
      (m, sp (spv <> None))
  | "span" ->
      let n = next_z t in let o = next_str t in let a = next_z t in let b = next_z t in
      (match o with
       | "front" -> (leg (span_front n) "span.hpp", sp (pre_nonempty n))
       | "back" -> (leg (span_back n) "span.hpp", sp (pre_nonempty n))
       | "idx" -> (leg (span_index n a) "span.hpp", sp (pre_index n (u a)))
       | "first" -> (leg (span_first n a) "span.hpp", sp (pre_count n (u a)))
       | "last" -> (leg (span_last n a) "span.hpp", sp (pre_count n (u a)))
       | _ -> (leg (span_subspan n a b) "span.hpp", sp (pre_span_subspan n (u a) (u b))))
  | "sv" ->
      let n = next_z t in let o = next_str t in let a = next_z t in let b = next_z t in
      let f = "basic_string_view.hpp" in
      (match o with
       | "idx" -> (leg (sv_index n a) f, sp (pre_index n (u a)))
       | "front" -> (leg (sv_front n) f, sp (pre_nonempty n))
       | "back" -> (leg (sv_back n) f, sp (pre_nonempty n))
       | "rmp" -> (leg (sv_remove_prefix n a) f, sp (pre_count n (u a)))
       | "rms" -> (leg (sv_remove_suffix n a) f, sp (pre_count n (u a)))
       | "copy" -> (leg (sv_copy n a b) f, sp (pre_count n (u b)))
       | _ -> (leg (sv_substr n a b) f, sp (pre_count n (u a))))
  | "opt" ->
      let e = next_bool t in let o = next_str t in
      if o = "arrow" || o = "carrow" || o = "refarrow" then (leg (opt_arrow e) "optional.hpp", sp (pre_opt_arrow e))
      else (leg (opt_deref e) "optional.hpp", sp e)
  | "exp" ->
      let h = next_bool t in let o = next_str t in
      if o = "deref" || o = "cderef" then (leg (exp_deref h) "expected.hpp", sp h)
      else (leg (exp_error h) "expected.hpp", sp (not h))
  | "var" ->
      let a = next_z t in let o = next_str t in let i = next_z t in
      let g = if o = "sub" then var_subscript a i else var_unchecked_get a i in
      (leg g "variant.hpp", sp (pre_variant a i))
  | "div_sat" ->
      let _ = next_z t in let _ = next_z t in let y = next_z t in
      (leg (div_sat_guard y) "div_sat.hpp", sp (big_of_z y <> Big.zero))
  | "day" -> let d = next_z t in (leg (day_ctor d) "day.hpp", sp (Big.lt (big_of_z d) (Big.of_int 255) && Big.sign (big_of_z d) >= 0))
  | "month" -> let d = next_z t in (leg (month_ctor d) "month.hpp", sp (Big.lt (big_of_z d) (Big.of_int 255) && Big.sign (big_of_z d) >= 0))
  | "bit" ->
      let which = next_str t in let w = next_z t in let _ = next_z t in let pos = next_z t in
      let file = (match which with "set" | "set3" -> "set_bit" | "reset" -> "reset_bit" | "flip" -> "flip_bit" | _ -> "test_bit") ^ ".hpp" in
      let wi = Big.to_int (big_of_z w) in
      let posw = z_of_big (Big.erem (big_of_z pos) (Big.shift_left Big.one wi)) in
      (leg (bit_guard w pos) file, sp (pre_index w posw))
  | "bitset" ->
      let n = next_z t in let which = next_str t in let pos = next_z t in
      let file = if String.length which > 0 && (which.[0] = 'u' || which = "bidx") then "basic_bitset.hpp" else "bitset.hpp" in
      (leg (bitset_guard n pos) file, sp (pre_index n (u pos)))
  | "arr" ->
      let i = next_z t in
      let safe = (try Sys.getenv "VERIF_C05_SAFE" = "1" with Not_found -> false) in
      let inr = pre_index (z_of_int 3) (u i) in
      (leg (array_index safe (z_of_int 3) i) "array.hpp", sp inr)
  | "stride" ->
      let layout = next_str t in let r = next_z t in
      (leg (layout_stride_guard (z_of_int 2) r) ("layout_" ^ layout ^ ".hpp"), sp (pre_index (z_of_int 2) (u r)))
  | "cstr" ->
      let which = next_str t in let dn = next_bool t in let sn = next_bool t in
      let ok = if which = "strchr" then not sn else nonnull2 (not dn) (not sn) in
      (leg ok (which ^ ".hpp"), sp ok)

  | "str" ->
      let cap = next_int t in let k = next_int t in let o = next_str t in
      let rec rest acc = if more t then rest (next_z t :: acc) else List.rev acc in
      let args = rest [] in
      let a i = if i < List.length args then List.nth args i else Z0 in
      let ua i = u (a i) in
      let small z = let b = big_of_z z in if Big.fits_int b && Big.sign b >= 0 then Big.to_int b else max_int in
      let codes str = List.init (String.length str) (fun i -> z_of_int (Char.code str.[i])) in
      let src_all = codes "uvwxyz0123456789ABCDEFGHIJ" in
      let take n l = List.filteri (fun i _ -> i < n) l in
      let src n = take (small n) src_all in
      let cstr n = src n @ [Z0] in
      let zc = z_of_int cap in
      let s = match str_make zc (codes "abcdefghijklmnopqrst") (z_of_int k) with Ok s -> s | _ -> failwith "init" in
      let f = "basic_inplace_string.hpp" and fv = "basic_string_view.hpp" in
      let size = str_size s in
      let gt x y = Big.gt (big_of_z x) (big_of_z y) in
      let of_res file r = match r with Ok _ -> "ok" | Contract -> "contract 1 # " ^ file | UB _ -> "ub" | OutOfFuel -> "fuel" in
      let is_contract r = (match r with Contract -> true | _ -> false) in
      let by_op ?(file = f) vo = (of_res file (str_step s vo), sp (str_pre_ok s vo)) in
      let z = z_of_int (Char.code 'z') in
      (match o with
       | "ctor_ptr" -> let r = str_make zc src_all (ua 0) in (of_res f r, sp (not (gt (ua 0) zc)))
       | "ctor_fill" -> let r = str_ctor_fill zc (ua 0) z in (of_res f r, sp (not (gt (ua 0) zc)))
       | "asg_cstr" -> by_op (OAssignCstr (cstr (ua 0)))
       | "asg_fill" -> by_op (OAssignFill (ua 0, z))
       | "asg_ptr" -> by_op (OAssignPtr (src_all, ua 0))
       | "asg_view_sub" -> by_op ~file:(if gt (ua 1) (ua 0) then fv else f) (OAssignViewSub (src (ua 0), ua 1, ua 2))
       | "front" | "cfront" -> let r = str_front s in (of_res f r, sp (Big.sign (big_of_z size) > 0))
       | "back" | "cback" -> let r = str_back s in (of_res f r, sp (Big.sign (big_of_z size) > 0))
       | "idx" | "cidx" -> let r = str_index s (ua 0) in (of_res f r, sp (not (gt (ua 0) size)))
       | "era_it" -> by_op (OEraseRange (ua 0, ua 1))
       | "era_pos" -> by_op (OErasePos (ua 0))
       | "era" -> by_op (OErase (ua 0, ua 1))
       | "pb" -> by_op (OPushBack z)
       | "pop" -> by_op OPopBack
       | "ins_fill" -> by_op (OInsertFill (ua 0, ua 1, z))
       | "ins_cstr" -> by_op (OInsertCstr (ua 0, cstr (ua 1)))
       | "ins_ptr" -> by_op (OInsertPtr (ua 0, src_all, ua 1))
       | "ins_str" | "ins_view" -> by_op (OInsertPtr (ua 0, src (ua 1), ua 1))
       | "ins_str_sub" | "ins_view_sub" ->
           by_op ~file:(if gt (ua 0) size then f else fv) (OInsertStrSub (ua 0, src (ua 1), ua 2, ua 3))
       | "rep" -> let r = str_replace s (ua 0) (ua 1) (src (ua 2)) in (of_res f r, sp (not (gt (ua 0) size)))
       | "rep5" -> let r = str_replace5 s (ua 0) (ua 1) (src (ua 2)) (ua 3) (ua 4) in
                   (of_res f r, sp (not (gt (ua 0) size) && not (gt (ua 3) (ua 2))))
       | "rep_ptr" -> let r = str_replace_ptr s (ua 0) (ua 1) src_all (ua 2) in (of_res f r, sp (not (gt (ua 0) size)))
       | "rep_cstr" -> let r = str_replace_cstr s (ua 0) (ua 1) (cstr (ua 2)) in (of_res f r, sp (not (gt (ua 0) size)))
       | "app_view_sub" -> by_op ~file:fv (OAppendViewSub (src (ua 0), ua 1, ua 2))
       | "app_str" | "pluseq_str" -> by_op (OAppendStr (src (ua 0)))
       | "app_str_sub" -> by_op (OAppendStrSub (src (ua 0), ua 1, ua 2))
       | "app_rng" -> by_op (OAppendRange (src (ua 0)))
       | "app_fill" -> by_op (OAppendFill (ua 0, z))
       | "app_ptr" -> by_op (OAppendPtr (src_all, if gt (ua 0) (z_of_int 26) then z_of_int 26 else ua 0))
       | "resize" -> by_op (OResize (ua 0, z))
       | "substr" -> by_op (OSubstr (ua 0, ua 1))
       | "clear" -> by_op OClear
       | _ -> raise Not_found)
  | "sset" ->
      let d = next_z t in
      (leg (static_set_ctor (z_of_int 4) d) "static_set.hpp", sp (pre_range_fits (z_of_int 4) d))
  | "cpy" ->
      let which = next_str t in let dn = next_bool t in let sn = next_bool t in
      (leg (copy_ptrs_guard (not dn) (not sn)) (which ^ ".hpp"), sp (pre_both_nonnull (not dn) (not sn)))
  | "linalg" ->
      let which = next_str t in
      let rec rest acc = if more t then rest (next_z t :: acc) else List.rev acc in
      let e = Array.of_list (rest []) in
      (match which with
       | "add1" -> (leg (linalg_add_guard [e.(0)] [e.(1)] [e.(2)]) "blas1_add.hpp", sp (e.(0) = e.(1) && e.(0) = e.(2)))
       | "copy1" -> (leg (linalg_copy_guard [e.(0)] [e.(1)]) "blas1_copy.hpp", sp (e.(0) = e.(1)))
       | "swap1" -> (leg (linalg_swap_guard [e.(0)] [e.(1)]) "blas1_swap_elements.hpp", sp (e.(0) = e.(1)))
       | "add2" -> (leg (linalg_add_guard [e.(0); e.(1)] [e.(2); e.(3)] [e.(4); e.(5)]) "blas1_add.hpp",
                    sp ([e.(0); e.(1)] = [e.(2); e.(3)] && [e.(0); e.(1)] = [e.(4); e.(5)]))
       | "copy2" -> (leg (linalg_copy_guard [e.(0); e.(1)] [e.(2); e.(3)]) "blas1_copy.hpp", sp ([e.(0); e.(1)] = [e.(2); e.(3)]))
       | "swap2" -> (leg (linalg_swap_guard [e.(0); e.(1)] [e.(2); e.(3)]) "blas1_swap_elements.hpp", sp ([e.(0); e.(1)] = [e.(2); e.(3)]))
       | "mvp" -> (leg (linalg_mvp_guard e.(0) e.(1) e.(2) e.(3)) "blas2_matrix_vector_product.hpp", sp (e.(1) = e.(2) && e.(0) = e.(3)))
       | _ -> raise Not_found)
  | "sstride" ->
      let r = next_z t in
      (leg (layout_stride_stride_guard (z_of_int 2) r) "layout_stride.hpp", sp (pre_index (z_of_int 2) (u r)))
  | "bsstr" ->
      let chars = next_zlist t in let pos = next_z t in let n = next_z t in
      let zero = z_of_int 48 and one = z_of_int 49 in
      (leg (bitset_str_guard chars pos n zero one) "bitset.hpp", sp (pre_bitset_str chars (u pos) (u n) zero one))
  | "tostr" ->
      let cap = next_z t in let ty = next_str t in let v = next_z t in
      let v = if ty = "int" then (let b = Big.erem (big_of_z v) (Big.shift_left Big.one 32) in
                                  z_of_big (if Big.geq b (Big.shift_left Big.one 31) then Big.sub b (Big.shift_left Big.one 32) else b)) else v in
      (match to_string_guard cap v with
       | Some ok -> (leg ok "to_string.hpp", sp (pre_to_string cap v))
       | None -> ("fuel", sp (pre_to_string cap v)))
  | "exparrow" ->
      let h = next_bool t in let _ = next_str t in (leg (exp_arrow h) "expected.hpp", sp (pre_exp_arrow h))
  | "arrfb" ->
      let n = next_z t in let o = next_str t in
      let safe = (try Sys.getenv "VERIF_C05_SAFE" = "1" with Not_found -> false) in
      let g = (match o with
        | "front" | "cfront" -> array_front n
        | "back" | "cback" -> array_back n
        | _ -> if Big.sign (big_of_z n) = 0 then array0_index safe else array_index safe n Z0) in
      (leg g "array.hpp", sp (pre_nonempty n))
  | "fmt" ->
      let chars = next_zlist t in
      (match format_escaped_guard chars with
       | Some ok -> (leg ok "argument.hpp", "na")
       | None -> ("fuel", "na"))
  | _ -> raise Not_found

let () = main run_case
