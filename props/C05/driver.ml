(* C05 driver: model leg = does the guard (as written, wrap-around arithmetic) let the call through,
   and which header's check fires; spec leg = the documented precondition *)
let two64 = Big.shift_left Big.one 64
let u (z : z) : z = let b = big_of_z z in z_of_big (Big.erem b two64)   (* size_t value of a case-file number *)
let leg ok file = if ok then "ok" else "contract 1 # " ^ file
let sp ok = if ok then "ok" else "contract 1"
(* new probes also name the check that fires: the expression text the handler is given, blanks as '_' *)
let lege ok file expr = if ok then "ok" else "contract 1 # " ^ file ^ " " ^ expr
let site_no = function O -> 0 | S O -> 1 | _ -> 2
let by_site n file e1 e2 = match site_no n with 0 -> "ok" | 1 -> "contract 1 # " ^ file ^ " " ^ e1 | _ -> "contract 1 # " ^ file ^ " " ^ e2

let rec int_of_nat = function O -> 0 | S n -> 1 + int_of_nat n
(* build mode of the harness variant whose output this run is compared with (set by the engine from prop.py's "env");
   the `mode` probes carry their build mode in the case line instead *)
let env_flag name default = (try Sys.getenv name = "1" with Not_found -> default)
(* `ct` probes (constant evaluation) evaluate the guard of the inner operation with every level switched on and apply the
   build mode named in the case line afterwards, through the extracted call_in_build *)
let ct_force = ref false
let env_checks () = !ct_force || env_flag "VERIF_C05_CHECKS" true
let env_safe () = !ct_force || env_flag "VERIF_C05_SAFE" false
(* is TETL_PRECONDITION_SAFE active in that build: the extracted macro selection of _contracts/check.hpp *)
let safe_active () = precondition_safe_active (env_checks ()) (env_safe ())

(* sized / unsized ranges: the extracted vec_insert_range / vec_assign_range / str_append_range (ModelMode.v) say which check
   fires and whether the object is still unmodified *)
let vec_site_expr = function
  | 1 -> "begin()_<=_it" | 2 -> "it_<=_end()" | 3 -> "first_<=_last"
  | 4 -> "size()_+_static_cast<size_type>(last_-_first)_<=_capacity()" | 5 -> "!full()"
  | 6 | 8 -> "last_-_first_>=_0" | 7 -> "static_cast<size_type>(last_-_first)_<=_capacity()" | _ -> "?"
let str_site_expr = function
  | 1 -> "last_-_first_>=_0" | 2 -> "static_cast<size_type>(last_-_first)_<=_capacity()_-_size()" | 3 -> "size()_<_capacity()" | _ -> "?"
(* (model leg, spec leg); pre = the documented precondition; ctor = a constructor (no earlier object: flag 1) *)
let range_legs ?(ctor = false) file site_expr pre outcome =
  match outcome with
  | RDone -> ("ok", if pre then "ok" else "contract 1")
  | RStopped (unmod, site) ->
      let flag = if unmod || ctor then "1" else "0" in
      ("contract " ^ flag ^ " # " ^ file ^ " " ^ site_expr (int_of_nat site), if pre then "ok" else "contract " ^ flag)
  | RInvalidRange -> ("invalid-range", "na")

let vec_state ?(cap = 4) k =
  let s0 = (empty_vec (nat_of_int cap), empty_vec (nat_of_int cap)) in
  let xs = List.init k (fun i -> z_of_int (i + 1)) in
  match step pred_of s0 (AssignRange (false, xs)) with Ok (s, _) -> s | _ -> s0

let rec run_case op t =
  match op with
  (* `strpos <flavour> ...`: the string probes of append / assign / constructor (str, pos, count) with pos > str.size() - the
     recorded defect region KF-C05-string-substr-pos-unchecked, under an op token of their own so that only they are excused *)
  | "strpos" -> let flavour = next_str t in run_case flavour t
  | "ct" ->
      (* `ct <checks> <safe> <cust|dflt> <a run-time case>`: the same call as part of a constant expression, in the build with
         exactly these macros (third token: TETL_ENABLE_CUSTOM_ASSERT_HANDLER defined or the default handler - neither is
         constexpr).  The guard and the documented precondition are the inner operation's; the outcome is the extracted
         call_in_build ConstantEval / doc_call of ModelEval.v / SpecEval.v: compiles | ill-formed # <header> <check> | unchecked *)
      let c = next_bool t in let s = next_bool t in let _ = next_str t in
      let inner = next_str t in
      let sub = (match t.rest with _ :: o :: _ -> o | _ -> "") in
      (* sites written with TETL_PRECONDITION_SAFE: array<T, N>::operator[] (N > 0; array<T, 0> has an ordinary-level check too,
         but its operator[] is SAFE as well) *)
      let safe_level = (inner = "arr" || inner = "carr" || (inner = "arrfb" && (sub = "idx" || sub = "cidx"))) in
      ct_force := true;
      let (m, p) = (try run_case inner t with e -> ct_force := false; raise e) in
      ct_force := false;
      let starts pre str = String.length str >= String.length pre && String.sub str 0 (String.length pre) = pre in
      if not (m = "ok" || starts "contract" m) then (m, "na") else begin
        let guard = (m = "ok") in
        let detail = (match String.index_opt m '#' with Some i -> String.sub m i (String.length m - i) | None -> "#") in
        let model = (match call_in_build ConstantEval c s safe_level guard with
          | Returns -> "compiles" | IllFormed -> "ill-formed " ^ detail | Unchecked -> "unchecked" | HandlerCalled -> "handler-called") in
        let spec = if not (p = "ok" || starts "contract" p) then "na" else
          (match doc_call true (if safe_level then doc_precondition_safe_active c s else doc_precondition_active c s) (p = "ok") with
           | DocReturns -> "compiles" | DocRejected -> "ill-formed" | DocUnspecified -> "unchecked" | DocHandler -> "handler-called") in
        (model, spec)
      end
  | "mode" ->
      (* the macro selection of _contracts/check.hpp: the case line names the build (checks, safe) that runs it *)
      let c = next_bool t in let s = next_bool t in let sub = next_str t in let a = next_z t in
      let nz = Big.sign (big_of_z a) <> 0 in
      (match sub with
       | "pre" -> (lege (mode_precondition c s nz) "harness.cpp" "v_!=_0", sp (doc_checked (doc_precondition_active c s) nz))
       | "safe" -> (lege (mode_precondition_safe c s nz) "harness.cpp" "v_!=_0", sp (doc_checked (doc_precondition_safe_active c s) nz))
       | "arr" | "carr" ->
           (lege (mode_array_index c s (z_of_int 3) a) "array.hpp" "pos_<_Size", sp (doc_checked (doc_precondition_safe_active c s) (pre_index (z_of_int 3) (u a))))
       | "day" -> (lege (mode_day_ctor c s a) "day.hpp" "d_<=_etl::numeric_limits<etl::uint8_t>::max()",
                   sp (doc_checked (doc_precondition_active c s) (Big.leq (big_of_z a) (Big.of_int 255) && Big.sign (big_of_z a) >= 0)))
       | "month" -> (lege (mode_day_ctor c s a) "month.hpp" "m_<=_etl::numeric_limits<unsigned_char>::max()",
                     sp (doc_checked (doc_precondition_active c s) (Big.leq (big_of_z a) (Big.of_int 255) && Big.sign (big_of_z a) >= 0)))
       | _ -> raise Not_found)
  | "vec" | "vec0" | "vecnt" ->
      let cap = if op = "vec0" then 0 else 4 in
      let k = next_int t in
      let o = next_str t in
      let a0 = if more t then next_z t else Z0 in
      let a1 = if more t then next_z t else Z0 in
      let s = vec_state ~cap k in
      let nines n = List.init (max 0 (min n 8)) (fun _ -> z_of_int 7) in
      let small z = let b = big_of_z z in if Big.fits_int b then Big.to_int b else max_int in
      let i0 = small a0 and i1 = small a1 in
      let clamp8 n = max (-8) (min n 8) in
      let zi = z_of_int in
      let sv = "static_vector.hpp" in
      (* the range members with the iterator category as a parameter (ModelMode.v); None = not a range probe *)
      let range_case = (match o with
        | "irg" | "mins" -> Some (range_legs sv vec_site_expr (pre_vec_insert_range (zi cap) (zi k) a0 a1) (vec_insert_range ItPointer (zi cap) (zi k) a0 a1 true))
        | "irg_rev" | "irg_rev2" | "irg_ra" | "mins_rev" | "mins_ra" ->
            let d = zi (clamp8 i1) in
            Some (range_legs sv vec_site_expr (pre_vec_insert_range (zi cap) (zi k) a0 d) (vec_insert_range ItRandomAccess (zi cap) (zi k) a0 d true))
        | "irg_fwd" | "mins_fwd" ->
            let d = zi (max 0 (clamp8 i1)) in
            Some (range_legs sv vec_site_expr (pre_vec_insert_range (zi cap) (zi k) a0 d) (vec_insert_range ItForward (zi cap) (zi k) a0 d true))
        | "asr" -> Some (range_legs sv vec_site_expr (pre_vec_assign_range (zi cap) a0) (vec_assign_range ItPointer (zi cap) (zi k) a0))
        | "asr_rev" | "asr_rev2" | "asr_ra" ->
            let d = zi (clamp8 i0) in Some (range_legs sv vec_site_expr (pre_vec_assign_range (zi cap) d) (vec_assign_range ItRandomAccess (zi cap) (zi k) d))
        | "asr_fwd" -> let d = zi (max 0 (clamp8 i0)) in Some (range_legs sv vec_site_expr (pre_vec_assign_range (zi cap) d) (vec_assign_range ItForward (zi cap) (zi k) d))
        | "ctor_rg" -> Some (range_legs ~ctor:true sv vec_site_expr (pre_vec_assign_range (zi cap) a0) (vec_assign_range ItPointer (zi cap) Z0 a0))
        | "ctor_rg_rev" | "ctor_rg_ra" ->
            let d = zi (clamp8 i0) in Some (range_legs ~ctor:true sv vec_site_expr (pre_vec_assign_range (zi cap) d) (vec_assign_range ItRandomAccess (zi cap) Z0 d))
        | "ctor_rg_fwd" -> let d = zi (max 0 (clamp8 i0)) in Some (range_legs ~ctor:true sv vec_site_expr (pre_vec_assign_range (zi cap) d) (vec_assign_range ItForward (zi cap) Z0 d))
        | "ctor_carr" -> Some (range_legs ~ctor:true sv vec_site_expr true (vec_insert_range ItPointer (zi cap) Z0 Z0 a0 true))
        | _ -> None) in
      (* the C01 operation model (pointer ranges, a single Contract outcome) must stop exactly the same calls *)
      let c01_stops = (match o with
        | "irg" | "mins" when i1 >= 0 && i1 < max_int -> Some (match step pred_of s (InsertRange (false, a0, nines i1)) with Contract -> true | _ -> false)
        | "irg_rev" | "irg_rev2" | "irg_ra" | "mins_rev" | "mins_ra" | "irg_fwd" | "mins_fwd" when i1 >= 0 ->
            Some (match step pred_of s (InsertRange (false, a0, nines (clamp8 i1))) with Contract -> true | _ -> false)
        | "asr" when i0 >= 0 && i0 < max_int -> Some (match step pred_of s (AssignRange (false, nines i0)) with Contract -> true | _ -> false)
        | "asr_rev" | "asr_rev2" | "asr_ra" | "asr_fwd" when i0 >= 0 -> Some (match step pred_of s (AssignRange (false, nines (clamp8 i0))) with Contract -> true | _ -> false)
        | _ -> None) in
      let new_range_op = List.mem o ["irg_rev"; "irg_rev2"; "irg_ra"; "mins"; "mins_rev"; "mins_ra"; "mins_fwd"; "asr_rev"; "asr_rev2"; "asr_ra";
                                     "ctor_rg_rev"; "ctor_rg_ra"; "ctor_carr"] in
      let agree (m, spl) = (match c01_stops with
        | Some st when st <> (m <> "ok") -> ("c01-model-disagrees " ^ m, spl)
        | _ -> (m, spl)) in
      if new_range_op then (match range_case with Some r -> agree r | None -> raise Not_found) else
      (* the older range probes (irg, irg_fwd, asr, asr_fwd, ctor_rg, ctor_rg_fwd) keep their driver-level transcription below and
         must agree with the proved range model as well *)
      let cross (m, spl) = (match range_case with
        | Some (rm, rsp) when rm <> m || rsp <> spl -> ("range-model-disagrees " ^ m ^ " / " ^ rm ^ " | " ^ rsp, spl)
        | _ -> (m, spl)) in
      cross (
      let (vop, file) = match o with
        | "pb" -> (Some (PushBack (false, z_of_int 9)), "static_vector.hpp")
        | "eb" -> (Some (EmplaceBack (false, z_of_int 9)), "static_vector.hpp")
        | "pop" -> (Some (PopBack false), "static_vector.hpp")
        | "icr" -> (Some (InsertCR (false, a0, z_of_int 9)), "static_vector.hpp")
        | "irv" -> (Some (InsertRV (false, a0, z_of_int 9)), "static_vector.hpp")
        | "emp" -> (Some (EmplaceAt (false, a0, z_of_int 9)), "static_vector.hpp")
        | "inn" -> (Some (InsertN (false, a0, a1, z_of_int 9)), "static_vector.hpp")
        | "irg" -> (Some (InsertRange (false, a0, nines i1)), "static_vector.hpp")
        | "era" -> (Some (EraseAt (false, a0)), "static_vector.hpp")
        | "err" -> (Some (EraseRange (false, a0, a1)), "static_vector.hpp")
        | "rsz" -> (Some (Resize (false, u a0)), "static_vector.hpp")
        | "rsv" -> (Some (ResizeVal (false, u a0, z_of_int 9)), "static_vector.hpp")
        | "asn" -> (Some (AssignN (false, u a0, z_of_int 9)), "static_vector.hpp")
        | "asr" -> (Some (AssignRange (false, nines i0)), "static_vector.hpp")
        | "at" | "cat" -> (Some (At (false, a0)), "index.hpp")
        | "fr" -> (Some (Front false), "index.hpp")
        | "bk" | "cbk" -> (Some (Back false), "static_vector.hpp")
        | "cfr" -> (Some (Front false), "index.hpp")
        | "ctor_n" -> (None, "static_vector.hpp")
        | "ctor_nv" -> (None, "static_vector.hpp")
        | "ctor_rg" -> (None, "static_vector.hpp")
        | "irg_fwd" | "asr_fwd" | "ctor_rg_fwd" -> (None, "static_vector.hpp")
        | _ -> raise Not_found in
      (* which check is expected to hand its location to the handler: the order of the checks as read off
         static_vector.hpp (assert_iterator_in_range: begin() <= it, then it <= end(); then the operation's own check);
         this table is driver-level (the C01 model has a single Contract outcome) *)
      let idx_e = "static_cast<etl::size_t>(i)_<_static_cast<etl::size_t>(etl::end(rng)_-_etl::begin(rng))" in
      let in_range p = if p < 0 then Some "begin()_<=_it" else if p > k then Some "it_<=_end()" else None in
      let first_of l = match List.filter (fun x -> x <> None) l with Some e :: _ -> e | _ -> "?" in
      let expr = match o with
        | "pb" -> "!full()"
        | "eb" | "emplace_back" -> if cap = 0 then "false" else "!full()"
        | "pop" -> if cap = 0 then "false" else "!empty()"
        | "bk" | "cbk" -> "!empty()"
        | "fr" | "cfr" | "at" | "cat" -> idx_e
        | "icr" | "irv" | "emp" -> if k >= cap then "!full()" else first_of [in_range i0; Some "!full()"]   (* !full() is checked first *)
        | "inn" -> first_of [in_range i0; Some "n_<=_capacity()_-_size()"]
        | "irg" -> first_of [in_range i0; (if i1 < 0 then Some "first_<=_last" else None);
                             Some "size()_+_static_cast<size_type>(last_-_first)_<=_capacity()"]
        | "era" -> if i0 < 0 then "begin()_<=_it" else "it_<=_end()"
        | "err" -> first_of [in_range i0; in_range i1; Some "first_<=_last"]
        | "rsv" -> "sz_<=_capacity()"
        | "rsz" | "asn" | "ctor_n" | "ctor_nv" -> "n_<=_capacity()"
        | "asr" | "ctor_rg" -> if i0 < 0 then "last_-_first_>=_0" else "static_cast<size_type>(last_-_first)_<=_capacity()"
        | _ -> "?" in
      let file = file ^ " " ^ expr in
      if o = "irg_fwd" || o = "asr_fwd" || o = "ctor_rg_fwd" then begin
        (* forward-only iterators: no up-front length check; emplace_back's !full() fires once the vector is full *)
        let room = cap - k in
        let (stopped, e, flag) = match o with
          | "irg_fwd" -> (match in_range i0 with
                          | Some e -> (true, e, "1")
                          | None -> (i1 > room, "!full()", if room = 0 then "1" else "0"))
          | "asr_fwd" -> (i0 > cap, "!full()", "0")          (* clear() has run and four elements were inserted *)
          | _ -> (i0 > cap, "!full()", "1") in               (* a constructor: no earlier object to compare with *)
        (* the C01 model (pointer ranges) stops exactly the same calls *)
        let m_stops = (match o with
          | "irg_fwd" -> (match step pred_of s (InsertRange (false, a0, nines i1)) with Contract -> true | _ -> false)
          | "asr_fwd" -> (match step pred_of s (AssignRange (false, nines i0)) with Contract -> true | _ -> false)
          | _ -> stopped) in
        if m_stops <> stopped then ("model-disagrees", "na") else
        if stopped then ("contract " ^ flag ^ " # static_vector.hpp " ^ e, "contract " ^ flag) else ("ok", "ok")
      end else
      let reversed = (o = "irg" && i1 < 0 && in_range i0 = None) || (o = "asr" && i0 < 0) in
      if reversed then (leg false file, sp false) else
      (match vop with
       | Some vo ->
           let m = match step pred_of s vo with Ok _ -> "ok" | Contract -> "contract 1 # " ^ file | _ -> "ub" in
           let spec_in =
             (* the spec takes the mathematical size_t values *)
             let vo' = match vo with
               | InsertN (t, p, n, x) -> InsertN (t, p, u n, x)
               | At (t, i) -> At (t, u i)
               | o -> o in
             (* OCaml evaluates spec_step's result list eagerly: a count beyond any capacity is a violation outright *)
             let huge = match vo' with
               | InsertN (_, _, n, _) | Resize (_, n) | ResizeVal (_, n, _) | AssignN (_, n, _) | At (_, n) -> Big.gt (big_of_z n) (Big.of_int 64)
               | _ -> false in
             if huge then None else
             spec_step pred_of (z_of_int cap) (List.init k (fun i -> z_of_int (i + 1)), []) vo' in
           (m, sp (spec_in <> None))
       | None ->
           (* constructors: TETL_PRECONDITION(n <= capacity()) / range length *)
           let ok = if o = "ctor_rg" then i0 >= 0 && i0 <= cap else Big.leq (big_of_z (u a0)) (Big.of_int cap) in
           (leg ok file, sp ok)))
  | "ivec" ->
      let cap = next_int t in let k = next_int t in let o = next_str t in let a = next_z t in
      let k = if cap = 0 then 0 else k in
      let s0 = (empty_vec (nat_of_int cap), empty_vec (nat_of_int cap)) in
      let s = List.fold_left (fun s i -> match iv_step s (IvTryPush (false, z_of_int i)) with Ok (s', _) -> s' | _ -> s) s0
          (List.init k (fun i -> i + 1)) in
      let io = match o with
        | "upb" | "ueb" | "upbc" -> IvUncheckedPush (false, z_of_int 9)
        | "pop" -> IvPop false
        | "at" | "cat" -> IvAt (false, a)
        | "fr" | "cfr" -> IvFront false
        | "bk" | "cbk" -> IvBack false
        | "tpb" -> IvTryPush (false, z_of_int 9)
        | _ -> raise Not_found in
      let expr = if cap = 0 then "false" else (match o with
        | "at" | "cat" -> "n_<_size()"
        | "upb" | "ueb" | "upbc" -> "size()_!=_max_size()"
        | _ -> "not_empty()") in
      let m = match iv_step s io with Ok _ -> "ok" | Contract -> "contract 1 # inplace_vector.hpp " ^ expr | _ -> "ub" in
      let io' = match io with IvAt (t, i) -> IvAt (t, u i) | o -> o in
      let huge = match io' with IvAt (_, i) -> Big.gt (big_of_z i) (Big.of_int 64) | _ -> false in
      let spv = if huge then None else iv_spec_step (z_of_int cap) (List.init k (fun i -> z_of_int (i + 1)), []) io' in
      (m, sp (spv <> None))
  | "span" | "sspan" ->
      let n = next_z t in let o = next_str t in let a = next_z t in let b = next_z t in
      (match o with
       (* compile-time forms on a span of dynamic extent (fix b24e9dc): the same guards, template arguments in the text *)
       | "tfirst" -> (lege (span_tfirst n a) "span.hpp" "Count_<=_size()", sp (pre_count n (u a)))
       | "tlast" -> (lege (span_tlast n a) "span.hpp" "Count_<=_size()", sp (pre_count n (u a)))
       | "tsub" -> (by_site (span_tsubspan_site n a b) "span.hpp" "Offset_<=_size()" "Count_!=_dynamic_extent_?_(Count_<=_size()_-_Offset)_:_true",
                    sp (pre_span_subspan n (u a) (u b)))
       | "front" -> (lege (span_front n) "span.hpp" "not_empty()", sp (pre_nonempty n))
       | "back" -> (lege (span_back n) "span.hpp" "not_empty()", sp (pre_nonempty n))
       | "idx" -> (lege (span_index n a) "span.hpp" "idx_<_size()", sp (pre_index n (u a)))
       | "first" -> (lege (span_first n a) "span.hpp" "count_<=_size()", sp (pre_count n (u a)))
       | "last" -> (lege (span_last n a) "span.hpp" "count_<=_size()", sp (pre_count n (u a)))
       | _ -> (by_site (span_subspan_site n a b) "span.hpp" "offset_<=_size()" "count_!=_dynamic_extent_?_(count_<=_size()_-_offset)_:_true",
               sp (pre_span_subspan n (u a) (u b))))
  | "spanctor" ->
      let ext = next_z t in let which = next_str t in let count = next_z t in
      let e = (match which with "ptr" -> "count" | "rng" | "dynl" -> "ranges::size(r)" | _ -> "source.size()") in
      (lege (span_ctor_count ext count) "span.hpp" ("extent_==_dynamic_extent_or_" ^ e ^ "_==_extent"), sp (pre_span_ctor (u ext) (u count)))
  | "sv" | "wsv" ->
      let n = next_z t in let o = next_str t in let a = next_z t in let b = next_z t in
      let f = "basic_string_view.hpp" in
      (match o with
       | "idx" -> (lege (sv_index n a) f "pos_<_size()", sp (pre_index n (u a)))
       | "front" -> (lege (sv_front n) f "not_empty()", sp (pre_nonempty n))
       | "back" -> (lege (sv_back n) f "not_empty()", sp (pre_nonempty n))
       | "rmp" -> (lege (sv_remove_prefix n a) f "n_<=_size()", sp (pre_count n (u a)))
       | "rms" -> (lege (sv_remove_suffix n a) f "n_<=_size()", sp (pre_count n (u a)))
       | "copy" -> (lege (sv_copy n a b) f "pos_<=_size()", sp (pre_count n (u b)))
       | "cmp3" -> (lege (sv_substr n a b) f "pos_<=_size()", sp (pre_count n (u a)))
       | _ -> (lege (sv_substr n a b) f "pos_<=_size()", sp (pre_count n (u a))))
  | "opt" ->
      let e = next_bool t in let o = next_str t in
      if o = "arrow" || o = "carrow" || o = "refarrow" then (lege (opt_arrow e) "optional.hpp" "-", sp (pre_opt_arrow e))
      else (lege (opt_deref e) "optional.hpp" "has_value()", sp e)
  | "exp" ->
      let h = next_bool t in let o = next_str t in
      if o = "deref" || o = "cderef" || o = "rderef" || o = "crderef" then (lege (exp_deref h) "expected.hpp" "has_value()", sp h)
      else (lege (exp_error h) "expected.hpp" "not_has_value()", sp (not h))
  | "var" ->
      let a = next_z t in let o = next_str t in let i = next_z t in
      let g = if o = "sub" || o = "csub" || o = "rsub" || o = "crsub" then var_subscript a i else var_unchecked_get a i in
      (lege g "variant.hpp" (if String.length o >= 3 && String.sub o (String.length o - 3) 3 = "sub" then "I_==_this->index()" else "I_==_v.index()"), sp (pre_variant a i))
  | "div_sat" ->
      let _ = next_z t in let _ = next_z t in let y = next_z t in
      (lege (div_sat_guard y) "div_sat.hpp" "y_!=_0", sp (big_of_z y <> Big.zero))
  | "day" -> let d = next_z t in (lege (day_ctor d) "day.hpp" "d_<=_etl::numeric_limits<etl::uint8_t>::max()", sp (Big.leq (big_of_z d) (Big.of_int 255) && Big.sign (big_of_z d) >= 0))
  | "month" -> let d = next_z t in (lege (month_ctor d) "month.hpp" "m_<=_etl::numeric_limits<unsigned_char>::max()", sp (Big.leq (big_of_z d) (Big.of_int 255) && Big.sign (big_of_z d) >= 0))
  | "bit" ->
      let which = next_str t in let w = next_z t in let _ = next_z t in let pos = next_z t in
      let file = (match which with "set" | "set3" -> "set_bit" | "reset" -> "reset_bit" | "flip" -> "flip_bit" | _ -> "test_bit") ^ ".hpp" in
      let wi = Big.to_int (big_of_z w) in
      let posw = z_of_big (Big.erem (big_of_z pos) (Big.shift_left Big.one wi)) in
      (lege (bit_guard w pos) file "pos_<_static_cast<UInt>(etl::numeric_limits<UInt>::digits)", sp (pre_index w posw))
  | "bitset" ->
      let n = next_z t in let which = next_str t in let pos = next_z t in
      let file = if String.length which > 0 && (which.[0] = 'u' || which = "bidx" || which = "cbidx") then "basic_bitset.hpp" else "bitset.hpp" in
      (lege (bitset_guard n pos) file "pos_<_size()", sp (pre_index n (u pos)))
  | "arr" | "carr" ->
      let i = next_z t in
      let safe = safe_active () in
      let inr = pre_index (z_of_int 3) (u i) in
      (lege (array_index safe (z_of_int 3) i) "array.hpp" "pos_<_Size", sp inr)
  | "stride" ->
      let layout = next_str t in let r = next_z t in
      (lege (layout_stride_guard (z_of_int 2) r) ("layout_" ^ layout ^ ".hpp") "r_<_extents_type::rank()", sp (pre_index (z_of_int 2) (u r)))
  | "cstr" ->
      let which = next_str t in let dn = next_bool t in let sn = next_bool t in
      let ok = if which = "strchr" || which = "strchr_m" then not sn else nonnull2 (not dn) (not sn) in
      let file = (if which = "strchr_m" then "strchr" else which) ^ ".hpp" in
      ((if which = "strchr" || which = "strchr_m" then lege ok file "str_!=_nullptr"
        else by_site (copy_ptrs_site (not dn) (not sn)) file "dest_!=_nullptr" "src_!=_nullptr"), sp ok)

  | "str" | "wstr" | "u16str" ->
      let cap = next_int t in let k = next_int t in let o = next_str t in
      let rec rest acc = if more t then rest (next_z t :: acc) else List.rev acc in
      let args = rest [] in
      let a i = if i < List.length args then List.nth args i else Z0 in
      let ua i = u (a i) in
      let small z = let b = big_of_z z in if Big.fits_int b && Big.sign b >= 0 then Big.to_int b else max_int in
      let codes str = List.init (String.length str) (fun i -> z_of_int (Char.code str.[i])) in
      let src_all = codes "uvwxyz0123456789ABCDEFGHIJ" in
      let take n l = List.filteri (fun i _ -> i < n) l in
      let src n = take (small n) src_all in
      let cstr n = src n @ [Z0] in
      let zc = z_of_int cap in
      let str_make c l n = (match op with "wstr" -> str_make_w c l n | "u16str" -> str_make_16 c l n | _ -> str_make c l n) in
      let str_ctor_fill c n ch = (match op with "wstr" -> str_ctor_fill_w c n ch | "u16str" -> str_ctor_fill_16 c n ch | _ -> str_ctor_fill c n ch) in
      let s = match str_make zc (codes "abcdefghijklmnopqrst") (z_of_int k) with Ok s -> s | _ -> failwith "init" in
      let f = "basic_inplace_string.hpp" and fv = "basic_string_view.hpp" in
      let size = str_size s in
      let gt x y = Big.gt (big_of_z x) (big_of_z y) in
      (* where: (header, expression) of the check expected to fire if the call is stopped *)
      let of_res (file, expr) r = match r with Ok _ -> "ok" | Contract -> "contract 1 # " ^ file ^ " " ^ expr | UB _ -> "ub" | OutOfFuel -> "fuel" in
      (* spec leg: the documented precondition plus the standard's pos <= str.size() for the (str, pos, count) overloads
         (str_pre_std = str_pre_doc outside the `strpos` cases) *)
      let by_op where vo = (of_res where (str_step s vo), sp (str_pre_std (z_of_int k) zc vo)) in
      let z = z_of_int (Char.code 'z') in
      let idx_le = (f, "index_<=_size()") and pos_le = (f, "pos_<=_size()") and svpos = (fv, "pos_<=_size()") in
      let fits = (f, "static_cast<size_type>(last_-_first)_<=_capacity()_-_size()") in
      let nonempty = (f, "not_empty()") in
      let push = (f, "size()_<_capacity()") in
      let npos = z_of_big (Big.sub two64 Big.one) in
      let s0 () = match str_make zc [] Z0 with Ok s -> s | _ -> failwith "init0" in
      (* append(first, last) and what is built on it, with the iterator category as a parameter (str_append_range of
         ModelMode.v: which check fires, is the string still unmodified); the legs derived from the C04 operation model below
         must agree with it.  A constructor has no earlier object; assign(first, last) builds a temporary first, so *this
         is unmodified whenever a check fires *)
      let n0 = ua 0 in
      let neg x = z_of_big (Big.neg (big_of_z x)) in
      let zk = z_of_int k in
      let rl ?(fresh = false) cat d =
        let sz = if fresh then Z0 else zk in
        Some (range_legs ~ctor:fresh f str_site_expr (pre_str_append_range zc sz d) (str_append_range cat zc sz d)) in
      let range_case = (match o with
        | "app_rng" | "app_str" | "pluseq_str" | "plus_str" -> rl ItPointer n0
        | "app_rng_rev" -> rl ItPointer (neg n0)
        | "app_rev" | "app_ra" -> rl ItRandomAccess n0
        | "app_fwd" -> rl ItForward n0
        | "ctor_rng" | "asg_rng" | "ctor_view" | "asg_view" | "opeq_view" -> rl ~fresh:true ItPointer n0
        | "ctor_rng_rev" | "asg_rng_rev" -> rl ~fresh:true ItPointer (neg n0)
        | "ctor_rev" | "ctor_ra" | "asg_rev" | "asg_ra" -> rl ~fresh:true ItRandomAccess n0
        | "ctor_fwd" | "asg_fwd" -> rl ~fresh:true ItForward n0
        | _ -> None) in
      let cross (m, spl) = (match range_case with
        | Some (rm, rsp) when rm <> m || rsp <> spl -> ("range-model-disagrees " ^ m ^ " / " ^ rm ^ " | " ^ rsp, spl)
        | _ -> (m, spl)) in
      cross (match o with
       | "ctor_ptr" -> let r = str_make zc src_all (ua 0) in (of_res (f, "len_<=_Capacity") r, sp (not (gt (ua 0) zc)))
       | "ctor_fill" -> let r = str_ctor_fill zc (ua 0) z in (of_res (f, "count_<=_Capacity") r, sp (not (gt (ua 0) zc)))
       | "asg_cstr" -> by_op (f, "len_<=_capacity()") (OAssignCstr (cstr (ua 0)))
       | "asg_fill" -> by_op (f, "count_<=_capacity()") (OAssignFill (ua 0, z))
       | "asg_ptr" -> by_op (f, "count_<=_capacity()") (OAssignPtr (src_all, ua 0))
       | "asg_view_sub" -> by_op (if gt (ua 1) (ua 0) then svpos else fits) (OAssignViewSub (src (ua 0), ua 1, ua 2))
       (* constructors / assignments from a range, a view, a C string (0c6dc7f: the range constructor is
          append(first, last) on the empty string under construction; s0 = that empty string) *)
       | "ctor_cstr" | "asg_cstr2" -> let r = str_make zc (cstr (ua 0)) (ua 0) in (of_res (f, "len_<=_Capacity") r, sp (not (gt (ua 0) zc)))
       | "ctor_rng" | "ctor_rev" | "ctor_ra" | "ctor_view" -> (of_res fits (str_step (s0 ()) (OAppendRange (src (ua 0)))), sp (not (gt (ua 0) zc)))
       | "ctor_rng_rev" | "asg_rng_rev" -> let ok = Big.sign (big_of_z (ua 0)) = 0 in (lege ok f "last_-_first_>=_0", sp ok)
       | "ctor_fwd" | "asg_fwd" -> (of_res push (str_step (s0 ()) (OAppendRangeIn (src (ua 0)))), sp (not (gt (ua 0) zc)))
       | "ctor_view_sub" -> let vo = OAssignViewSub (src (ua 0), ua 1, ua 2) in
                            (of_res (if gt (ua 1) (ua 0) then svpos else fits) (str_step (s0 ()) vo), sp (str_pre_std Z0 zc vo))
       | "ctor_str_sub" -> let vo = OAssignStrSub (src (ua 0), ua 1, ua 2) in (of_res fits (str_step (s0 ()) vo), sp (str_pre_std Z0 zc vo))
       | "ctor_str_pos" -> let vo = OAssignStrSub (src (ua 0), ua 1, ua 0) in (of_res fits (str_step (s0 ()) vo), sp (str_pre_std Z0 zc vo))
       | "asg_rng" | "asg_rev" | "asg_ra" | "asg_view" | "opeq_view" -> by_op fits (OAssignViewSub (src (ua 0), Z0, npos))
       | "opeq_ch" -> by_op (f, "count_<=_capacity()") (OAssignPtr ([z], z_of_int 1))
       | "asg_str_sub" -> by_op fits (OAssignStrSub (src (ua 0), ua 1, ua 2))
       | "app_rev" | "app_ra" -> by_op fits (OAppendRange (src (ua 0)))
       | "app_fwd" ->
           (* no up-front check: push_back's precondition fires once the string is full; the string has been modified by
              then unless it was full at the start *)
           let vo = OAppendRangeIn (src (ua 0)) in
           let flag = if k = cap then "1" else "0" in
           ((match str_step s vo with Ok _ -> "ok" | Contract -> "contract " ^ flag ^ " # " ^ f ^ " size()_<_capacity()" | UB _ -> "ub" | OutOfFuel -> "fuel"),
            (if str_pre_std (z_of_int k) zc vo then "ok" else "contract " ^ flag))
       | "plus_str" -> by_op fits (OAppendStr (src (ua 0)))
       | "plus_cstr" | "app_cstr" -> by_op fits (OAppendCstr (cstr (ua 0)))
       | "plus_ch" | "pluseq_ch" -> by_op fits (OAppendFill (z_of_int 1, z))
       | "app_view" -> by_op fits (OAppendPtr (src (ua 0), ua 0))
       | "resize1" -> by_op fits (OResize (ua 0, Z0))
       | "copy" -> ("ok", "ok")   (* copy(dest, count, pos) clamps: pos > size() copies nothing; no precondition *)
       | "front" | "cfront" -> let r = str_front s in (of_res nonempty r, sp (Big.sign (big_of_z size) > 0))
       | "back" | "cback" -> let r = str_back s in (of_res nonempty r, sp (Big.sign (big_of_z size) > 0))
       | "idx" | "cidx" -> let r = str_index s (ua 0) in (of_res (f, "index_<_size()_+_1") r, sp (not (gt (ua 0) size)))
       | "era_it" ->
           (* which of the two checks fires: the proved site function (C05_string_iterator_range_guard_exact), which must
              agree with the C04 operation model on whether the call is stopped at all *)
           let (m, spl) = by_op (f, "?") (OEraseRange (ua 0, ua 1)) in
           let site = by_site (str_iter_range_site size (a 0) (a 1)) f "start_<=_size()" "distance_<=_size()_-_start" in
           ((if (m = "ok") = (site = "ok") then site else "site-model-disagrees " ^ m), spl)
       | "rep_it" | "rep_it_ptr" | "rep_it_cstr" | "rep_it_fill" ->
           (by_site (str_iter_range_site size (a 0) (a 1)) f "start_<=_size()" "distance_<=_size()_-_start", sp (pre_iter_range size (a 0) (a 1)))
       | "era_pos" -> by_op (if gt (ua 0) size then (f, "start_<=_size()") else (f, "distance_<=_size()_-_start")) (OErasePos (ua 0))
       | "era" -> by_op idx_le (OErase (ua 0, ua 1))
       | "pb" -> by_op (f, "size()_<_capacity()") (OPushBack z)
       | "pop" -> by_op nonempty OPopBack
       | "ins_fill" -> by_op idx_le (OInsertFill (ua 0, ua 1, z))
       | "ins_cstr" -> by_op idx_le (OInsertCstr (ua 0, cstr (ua 1)))
       | "ins_ptr" -> by_op idx_le (OInsertPtr (ua 0, src_all, ua 1))
       | "ins_str" -> by_op idx_le (OInsertPtr (ua 0, src (ua 1), ua 1))
       | "ins_view" -> by_op pos_le (OInsertPtr (ua 0, src (ua 1), ua 1))
       | "ins_str_sub" | "ins_view_sub" ->
           by_op (if gt (ua 0) size then idx_le else svpos) (OInsertStrSub (ua 0, src (ua 1), ua 2, ua 3))
       | "rep" -> let r = str_replace s (ua 0) (ua 1) (src (ua 2)) in (of_res pos_le r, sp (not (gt (ua 0) size)))
       | "rep5" -> let r = str_replace5 s (ua 0) (ua 1) (src (ua 2)) (ua 3) (ua 4) in
                   (of_res (if gt (ua 0) size then pos_le else (f, "pos2_<=_str.size()")) r, sp (not (gt (ua 0) size) && not (gt (ua 3) (ua 2))))
       | "rep_ptr" -> let r = str_replace_ptr s (ua 0) (ua 1) src_all (ua 2) in (of_res pos_le r, sp (not (gt (ua 0) size)))
       | "rep_cstr" -> let r = str_replace_cstr s (ua 0) (ua 1) (cstr (ua 2)) in (of_res pos_le r, sp (not (gt (ua 0) size)))
       | "app_view_sub" -> by_op svpos (OAppendViewSub (src (ua 0), ua 1, ua 2))
       | "app_str" | "pluseq_str" -> by_op fits (OAppendStr (src (ua 0)))
       | "app_str_sub" -> by_op fits (OAppendStrSub (src (ua 0), ua 1, ua 2))
       | "app_rng" -> by_op fits (OAppendRange (src (ua 0)))
       | "app_rng_rev" -> let ok = Big.sign (big_of_z (ua 0)) = 0 in (lege ok f "last_-_first_>=_0", sp ok)
       | "app_fill" -> by_op fits (OAppendFill (ua 0, z))
       | "app_ptr" -> by_op fits (OAppendPtr (src_all, if gt (ua 0) (z_of_int 26) then z_of_int 26 else ua 0))
       | "resize" -> by_op fits (OResize (ua 0, z))
       | "substr" -> by_op fits (OSubstr (ua 0, ua 1))
       | "clear" -> by_op fits OClear
       | _ -> raise Not_found)
  | "sset" ->
      let d = next_z t in
      (by_site (static_set_ctor_site (z_of_int 4) d) "static_set.hpp" "last_-_first_>=_0" "static_cast<size_type>(last_-_first)_<=_max_size()",
       sp (pre_range_fits (z_of_int 4) d))
  | "sset_dup" ->
      (* the same guard (it looks at the length only); documented answer only up to max_size() elements *)
      let d = next_z t in
      (by_site (static_set_ctor_site (z_of_int 4) d) "static_set.hpp" "last_-_first_>=_0" "static_cast<size_type>(last_-_first)_<=_max_size()",
       if pre_range_fits (z_of_int 4) d then "ok" else "na")
  | "cpy" ->
      let which = next_str t in let dn = next_bool t in let sn = next_bool t in
      (by_site (copy_ptrs_site (not dn) (not sn)) (which ^ ".hpp") "dest_!=_nullptr" "src_!=_nullptr", sp (pre_both_nonnull (not dn) (not sn)))
  | "linalg" ->
      let which = next_str t in
      let rec rest acc = if more t then rest (next_z t :: acc) else List.rev acc in
      let e = Array.of_list (rest []) in
      let xy = "x.extents()_==_y.extents()" and xz = "x.extents()_==_z.extents()" in
      (match which with
       | "add1" -> (by_site (linalg_add_site [e.(0)] [e.(1)] [e.(2)]) "blas1_add.hpp" xy xz, sp (e.(0) = e.(1) && e.(0) = e.(2)))
       | "copy1" -> (lege (linalg_copy_guard [e.(0)] [e.(1)]) "blas1_copy.hpp" xy, sp (e.(0) = e.(1)))
       | "swap1" -> (lege (linalg_swap_guard [e.(0)] [e.(1)]) "blas1_swap_elements.hpp" xy, sp (e.(0) = e.(1)))
       | "add2" -> (by_site (linalg_add_site [e.(0); e.(1)] [e.(2); e.(3)] [e.(4); e.(5)]) "blas1_add.hpp" xy xz,
                    sp ([e.(0); e.(1)] = [e.(2); e.(3)] && [e.(0); e.(1)] = [e.(4); e.(5)]))
       | "copy2" -> (lege (linalg_copy_guard [e.(0); e.(1)] [e.(2); e.(3)]) "blas1_copy.hpp" xy, sp ([e.(0); e.(1)] = [e.(2); e.(3)]))
       | "swap2" -> (lege (linalg_swap_guard [e.(0); e.(1)] [e.(2); e.(3)]) "blas1_swap_elements.hpp" xy, sp ([e.(0); e.(1)] = [e.(2); e.(3)]))
       | "copy1m" -> (lege (linalg_copy_guard [e.(0)] [e.(1)]) "blas1_copy.hpp" xy, sp (e.(0) = e.(1)))
       | "copy1s" -> (lege (linalg_copy_guard [z_of_int 3] [e.(1)]) "blas1_copy.hpp" xy, sp (z_of_int 3 = e.(1)))
       | "mvp" -> (by_site (linalg_mvp_site e.(0) e.(1) e.(2) e.(3)) "blas2_matrix_vector_product.hpp" "a.extent(1)_==_x.extent(0)" "a.extent(0)_==_y.extent(0)",
                   sp (e.(1) = e.(2) && e.(0) = e.(3)))
       | _ -> raise Not_found)
  | "sstride" ->
      let r = next_z t in
      (lege (layout_stride_stride_guard (z_of_int 2) r) "layout_stride.hpp" "i_<_extents_type::rank()", sp (pre_index (z_of_int 2) (u r)))
  | "bsstr" ->
      let chars = next_zlist t in let pos = next_z t in let n = next_z t in
      let zero = z_of_int 48 and one = z_of_int 49 in
      (by_site (bitset_str_site chars pos n zero one) "bitset.hpp" "pos_<=_str.size()" "Traits::eq(str[pos_+_i],_zero)_or_Traits::eq(str[pos_+_i],_one)",
       sp (pre_bitset_str chars (u pos) (u n) zero one))
  | "bsstr2" ->
      let chars = next_zlist t in let pos = next_z t in let n = next_z t in
      let zero = z_of_int 48 and one = z_of_int 50 in
      (by_site (bitset_str_site chars pos n zero one) "bitset.hpp" "pos_<=_str.size()" "Traits::eq(str[pos_+_i],_zero)_or_Traits::eq(str[pos_+_i],_one)",
       sp (pre_bitset_str chars (u pos) (u n) zero one))
  | "bscstr" ->
      (* bitset(char const* str, n): view = n == npos ? view(str) : view(str, n); then the view constructor with pos = 0 *)
      let chars = next_zlist t in let _ = next_z t in let n = next_z t in
      let zero = z_of_int 48 and one = z_of_int 49 in
      let npos = z_of_big (Big.sub two64 Big.one) in
      let view = if u n = npos then chars else List.filteri (fun i _ -> Big.lt (Big.of_int i) (big_of_z (u n))) chars in
      (by_site (bitset_str_site view Z0 n zero one) "bitset.hpp" "pos_<=_str.size()" "Traits::eq(str[pos_+_i],_zero)_or_Traits::eq(str[pos_+_i],_one)",
       sp (pre_bitset_str view Z0 (u n) zero one))
  | "tostr" ->
      let cap = next_z t in let ty = next_str t in let v = next_z t in
      (* the value the call receives: the case-file number converted to the parameter type *)
      let wrap bits signed z =
        let m = Big.shift_left Big.one bits in
        let b = Big.erem (big_of_z z) m in
        z_of_big (if signed && Big.geq b (Big.shift_left Big.one (bits - 1)) then Big.sub b m else b) in
      let v = (match ty with "int" -> wrap 32 true v | "long" | "llong" -> wrap 64 true v | "uint" -> wrap 32 false v | _ -> wrap 64 false v) in
      (match to_string_guard cap v with
       | Some ok -> (lege ok "to_string.hpp" "res.error_==_etl::strings::from_integer_error::none", sp (pre_to_string cap v))
       | None -> ("fuel", sp (pre_to_string cap v)))
  | "exparrow" ->
      let h = next_bool t in let _ = next_str t in (lege (exp_arrow h) "expected.hpp" "-", sp (pre_exp_arrow h))
  | "arrfb" ->
      let n = next_z t in let o = next_str t in
      let safe = safe_active () in
      let (g, e) = (match o with
        | "front" | "cfront" -> (array_front n, "Size_!=_0")
        | "back" | "cback" -> (array_back n, "Size_!=_0")
        | _ -> if Big.sign (big_of_z n) = 0 then (array0_index safe, "Size_!=_0") else (array_index safe n Z0, "pos_<_Size")) in
      (lege g "array.hpp" e, sp (pre_nonempty n))
  | "fmt" ->
      let chars = next_zlist t in
      (match format_escaped_guard chars with
       | Some ok -> (lege ok "argument.hpp" "false", sp (fmt_dfa chars))
       | None -> ("fuel", sp (fmt_dfa chars)))
  | _ -> raise Not_found

let () = main run_case
