#!/usr/bin/env python3
"""Coverage aid (not part of ./check): which TETL_PRECONDITION sites do the quick-tier probes actually make fire?
Builds the harness in both modes with VERIF_C05_SITELOG set, runs all generated cases and lists the sites of
/repo/include (file:line) that no probe reached.  Usage: python3 props/C05/site_coverage.py [repo]"""
import collections, importlib.util, os, random, re, subprocess, sys
ROOT = os.path.dirname(os.path.dirname(os.path.dirname(os.path.abspath(__file__))))
REPO = sys.argv[1] if len(sys.argv) > 1 else "/repo"
spec = importlib.util.spec_from_file_location("c05", os.path.join(ROOT, "props/C05/prop.py"))
m = importlib.util.module_from_spec(spec); spec.loader.exec_module(m)
cases = m.gen("quick", random.Random(0))
open("/tmp/c05cases.txt", "w").write("\n".join(cases) + "\n")
fired = collections.Counter()
for mode, flag in (("checks", "-DTETL_ENABLE_CONTRACT_CHECKS=1"), ("safe", "-DTETL_ENABLE_CONTRACT_CHECKS_SAFE=1")):
    exe = f"/tmp/c05h-{mode}"
    subprocess.run(["g++", "-std=c++20", "-O1", flag, f"-I{REPO}/include", f"-I{ROOT}/harness", f"{ROOT}/props/C05/harness.cpp", "-o", exe], check=True)
    log = f"/tmp/c05sites-{mode}.log"
    if os.path.exists(log):
        os.remove(log)
    env = dict(os.environ, VERIF_C05_SITELOG=log)
    if mode == "safe":
        env["VERIF_C05_SAFE"] = "1"
    subprocess.run([exe], stdin=open("/tmp/c05cases.txt"), stdout=subprocess.DEVNULL, env=env)
    for l in open(log):
        fired[l.strip().replace(f"{REPO}/include/", "")] += 1
sites = []
for root, _, files in os.walk(f"{REPO}/include"):
    for f in files:
        if f.endswith(".hpp"):
            p = os.path.join(root, f)
            for i, l in enumerate(open(p, errors="replace"), 1):
                if re.search(r"TETL_PRECONDITION(_SAFE)?\(", l) and "#define" not in l:
                    sites.append((p.replace(f"{REPO}/include/", ""), i, l.strip()))
print(len(sites), "sites;", sum(1 for f, i, _ in sites if f"{f}:{i}" in fired), "made to fire by at least one probe")
for f, i, l in sorted(sites):
    if f"{f}:{i}" not in fired:
        print("NEVER FIRED", f, i, l)
