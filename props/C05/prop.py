"""C05 — contract checks: violating and valid probes per component, plus the site inventory."""
import json
import re
import subprocess
from pathlib import Path

ID = "C05"
LEVEL = "proof"
HARNESSES = [
    {"name": "checks", "src": "harness.cpp", "flags": ["-O1", "-DTETL_ENABLE_CONTRACT_CHECKS=1"]},
    {"name": "safe", "src": "harness.cpp", "flags": ["-O1", "-DTETL_ENABLE_CONTRACT_CHECKS_SAFE=1"],
     "env": {"VERIF_C05_SAFE": "1", "VERIF_C05_CHECKS": "0"}},
    # BOTH macros defined (what tests/CMakeLists.txt passes when both CMake options are ON): everything is checked, the
    # SAFE checks included - all probes, with the model of the SAFE level
    {"name": "both", "src": "harness.cpp", "flags": ["-O1", "-DTETL_ENABLE_CONTRACT_CHECKS=1", "-DTETL_ENABLE_CONTRACT_CHECKS_SAFE=1"],
     "env": {"VERIF_C05_SAFE": "1", "VERIF_C05_CHECKS": "1"}},
    # NEITHER macro defined: nothing may fire. Runs only the `mode 0 0 ...` probes (harmless without the checks); every
    # other probe prints `skip` in this build
    {"name": "neither", "src": "harness.cpp", "flags": ["-O1"]},
    # the same probes under ASan + UBSan: a read or write outside the object (or a wrapping pointer computation) BEFORE the
    # handler runs aborts the child ("crash" leg) instead of reaching it
    {"name": "asan", "src": "harness.cpp", "flags": ["-O0", "-DTETL_ENABLE_CONTRACT_CHECKS=1", "-fsanitize=address,undefined",
                                                     "-fno-sanitize-recover=all"]},
]
RULE = ("five builds (CHECKS, SAFE, both macros, neither macro [mode probes only], CHECKS under ASan+UBSan); "
        "every probed operation x every small object state x arguments at and beyond each boundary (size, size+1, SIZE_MAX, "
        "SIZE_MAX-size, 2^63, dynamic_extent) and the complementary valid arguments; the handler compares the object's bytes with the "
        "pre-call snapshot at the moment it runs; non-trivial = distinct probe")
TRUSTED_BASE = ["reference leg: the documented precondition evaluated in the harness with 128-bit arithmetic",
                "site inventory: grep of TETL_PRECONDITION over /repo/include against props/C05/sites.json"]
ASSUMPTIONS = ["LP64", "object snapshot = sizeof(object) bytes (inline storage only, which is all these types have)"]

# inplace_string<4|15|16|20> (tiny layout up to 15, normal from 16), basic_inplace_string<wchar_t, 15|16> (4-byte characters),
# basic_inplace_string<char16_t, 15|16> (2-byte characters)
FLAVOURS = (("str", 4), ("str", 15), ("str", 16), ("str", 20), ("wstr", 15), ("wstr", 16), ("u16str", 15), ("u16str", 16))
BIG = [-1, -2, 2**63, 2**63 - 1, 2**64 - 1 - 3, 2**32, 2**64 - 4]


def gen_modes(out):
    """the macro selection of _contracts/check.hpp: for each of the four combinations of TETL_ENABLE_CONTRACT_CHECKS /
    TETL_ENABLE_CONTRACT_CHECKS_SAFE (the case is run by the build that has exactly this combination) the two macros used
    directly, array::operator[] (a SAFE check) and chrono::day / month (an ordinary check), violated and not"""
    for c in (0, 1):
        for s in (0, 1):
            M = f"mode {c} {s}"
            for v in (0, 1, 5):
                out += [f"{M} pre {v}", f"{M} safe {v}"]
            for i in range(0, 8):
                out += [f"{M} arr {i}", f"{M} carr {i}"]
            for d in (0, 1, 255, 256, 1000):
                out += [f"{M} day {d}", f"{M} month {d}"]


def gen_more(out):
    """inplace_string (every guarded operation at and beyond its boundary, plus the clamping ones that must never fire)
    and the remaining components"""
    gen_modes(out)
    for (flavour, cap) in FLAVOURS:
        for k in sorted({0, 1, 2, cap - 1, cap}):
            S = f"{flavour} {cap} {k}"
            room = cap - k
            for o in ("front", "cfront", "back", "cback", "pb", "pop", "clear"):
                out.append(f"{S} {o}")
            POS = sorted({0, 1, max(k - 1, 0), k, k + 1, k + 2}) + [-1, -2, 2**63, 2**63 - 1, 2**64 - 1 - k, 2**32]
            for p in POS:
                out += [f"{S} idx {p}", f"{S} cidx {p}"]
                for c in (0, 1, 3):
                    out += [f"{S} ins_fill {p} {c}", f"{S} ins_cstr {p} {c}", f"{S} ins_ptr {p} {c}",
                            f"{S} ins_str {p} {min(c, cap)}", f"{S} ins_view {p} {c}"]
                for c in (0, 1, k, -1, 2**63):
                    out += [f"{S} era {p} {c}", f"{S} rep {p} {c} 2", f"{S} rep_ptr {p} {c} 2", f"{S} rep_cstr {p} {c} 2",
                            f"{S} substr {p} {c}"]
                for (ls, ps) in ((3, 0), (3, 3), (3, 4), (3, -1), (0, 0), (0, 1)):
                    for c in (0, 1, -1):
                        out += [f"{S} ins_str_sub {p} {ls} {ps} {c}", f"{S} ins_view_sub {p} {ls} {ps} {c}",
                                f"{S} rep5 {p} 1 {ls} {ps} {c}"]
            starts = sorted(x for x in {0, 1, k - 1, k, k + 1, cap, cap + 1} if 0 <= x <= cap + 1)
            for st in starts:
                for d in sorted({-1, 0, 1, k - st, k - st + 1, cap + 1 - st, -st}):
                    if 0 <= st + d <= cap + 1:
                        out.append(f"{S} era_it {st} {d}")
                if st + 1 <= cap + 1:
                    out.append(f"{S} era_pos {st}")
            for st in sorted({-1, 0, 1, k - 1, k, k + 1, cap + 1}):
                for d in sorted({-1, 0, 1, k - st, k - st + 1, -st}):
                    if -1 <= st + d <= cap + 1 and -1 <= st <= cap + 1:
                        for n in (0, 2):
                            out += [f"{S} rep_it {st} {d} {n}", f"{S} rep_it_ptr {st} {d} {n}", f"{S} rep_it_cstr {st} {d} {n}",
                                    f"{S} rep_it_fill {st} {d} {n}"]
            for n in sorted({0, 1, room, room + 1, cap, cap + 1, 26}) + [-1, 2**63, 2**64 - cap, 2**32]:
                out += [f"{S} ctor_ptr {n}", f"{S} ctor_fill {n}", f"{S} asg_fill {n}", f"{S} asg_ptr {n}",
                        f"{S} app_fill {n}", f"{S} resize {n}", f"{S} app_ptr {n}"]
            for n in sorted({0, 1, cap, cap + 1, 25}):
                out.append(f"{S} asg_cstr {n}")
            for n in sorted(x for x in {0, 1, room, room + 1, cap} if x <= cap):
                out += [f"{S} app_str {n}", f"{S} pluseq_str {n}"]
            for n in sorted({0, 1, room, room + 1, 26}):
                out += [f"{S} app_rng {n}", f"{S} app_rng_rev {n}"]
            for ls in sorted({0, 3, cap}):
                for ps in sorted({0, 1, ls, ls + 1}) + [-1]:
                    for c in sorted({0, 1, room, room + 1}) + [-1]:
                        out.append(f"{S} app_str_sub {ls} {ps} {c}")
            for ls in (0, 3, 26):
                for ps in sorted({0, 1, ls, ls + 1}) + [-1, 2**63]:
                    for c in sorted({0, 1, cap, cap + 1}) + [-1]:
                        out += [f"{S} app_view_sub {ls} {ps} {c}", f"{S} asg_view_sub {ls} {ps} {c}", f"{S} ctor_view_sub {ls} {ps} {c}"]
            # range / view / C-string constructors and assignments, operator+, the iterator categories of append(first, last)
            for n in sorted({0, 1, room, room + 1, cap, cap + 1, 26}):
                for o in ("ctor_rng", "ctor_rev", "ctor_ra", "ctor_fwd", "ctor_view", "ctor_cstr", "asg_rng", "asg_rev", "asg_ra", "asg_fwd",
                          "asg_view", "opeq_view", "asg_cstr2", "app_rev", "app_ra", "app_fwd", "app_view", "app_cstr", "plus_cstr"):
                    out.append(f"{S} {o} {n}")
                if n <= cap:
                    out.append(f"{S} plus_str {n}")
            for n in (0, 1, 26):
                out += [f"{S} ctor_rng_rev {n}", f"{S} asg_rng_rev {n}"]
            for o in ("opeq_ch", "plus_ch", "pluseq_ch"):
                out.append(f"{S} {o}")
            for n in sorted({0, 1, k, cap, cap + 1}) + [-1, 2**63]:
                out.append(f"{S} resize1 {n}")
            for ls in sorted({0, 3, cap}):
                for ps in sorted({0, 1, ls, ls + 1}) + [-1, 2**63]:
                    out.append(f"{S} ctor_str_pos {ls} {ps}")
                    for c in (0, 1, cap, -1):
                        out += [f"{S} ctor_str_sub {ls} {ps} {c}", f"{S} asg_str_sub {ls} {ps} {c}"]
            for p in POS:
                for c in (0, 1, 26, -1):
                    out.append(f"{S} copy {c} {p}")
    for d in range(-4, 9):
        out += [f"sset {d}", f"sset_dup {d}"]
    for o in ("pb", "eb", "pop", "fr", "bk", "cfr", "cbk"):
        out.append(f"vec0 0 {o}")
    for n in (0, 1, 2, -1, 2**63):
        out += [f"vec0 0 rsz {n}", f"vec0 0 at {n}"]
    for which in ("strncpy", "wcscpy", "wcsncpy"):
        for dn in (0, 1):
            for sn in (0, 1):
                out.append(f"cpy {which} {dn} {sn}")
    for e in ((2, 2, 2), (2, 3, 2), (2, 2, 3), (3, 2, 2), (0, 0, 0), (0, 1, 0), (0, 0, 1), (8, 8, 8), (8, 7, 8)):
        out += [f"linalg add1 {e[0]} {e[1]} {e[2]}", f"linalg copy1 {e[0]} {e[1]} 0", f"linalg swap1 {e[0]} {e[1]} 0"]
    for e in ((2, 3, 2, 3, 2, 3), (2, 3, 3, 2, 2, 3), (2, 3, 2, 3, 3, 2), (2, 3, 2, 4, 2, 3), (2, 3, 2, 3, 1, 3), (0, 0, 0, 0, 0, 0),
              (0, 3, 0, 4, 0, 3), (0, 3, 0, 3, 0, 4), (3, 0, 4, 0, 3, 0), (8, 8, 8, 8, 8, 8), (1, 6, 6, 1, 1, 6), (2, 3, 2, 3, 2, 2)):
        t = " ".join(str(x) for x in e)
        out += [f"linalg add2 {t}", f"linalg copy2 {t}", f"linalg swap2 {t}"]
    for e in ((0, 0), (3, 3), (3, 2), (2, 3), (0, 1), (8, 8)):
        out += [f"linalg copy1m {e[0]} {e[1]}", f"linalg copy1s {e[0]} {e[1]}"]
    for e in ((2, 3, 3, 2), (2, 3, 2, 2), (2, 3, 3, 3), (2, 3, 2, 3), (0, 0, 0, 0), (2, 0, 0, 2), (2, 0, 1, 2), (0, 2, 2, 0), (0, 2, 2, 1), (8, 8, 8, 8), (3, 3, 3, 4)):
        out.append("linalg mvp " + " ".join(str(x) for x in e))
    for r in [0, 1, 2, 3] + BIG:
        out.append(f"sstride {r}")
    import itertools
    for ln in range(0, 4):
        for chars in itertools.product((48, 49, 50), repeat=ln):
            text = " ".join(str(c) for c in (ln,) + chars)
            for pos in sorted({0, 1, ln, ln + 1}) + [-1, 2**63]:
                for n in sorted({0, 1, 2, ln}) + [-1, 2**64 - 1 - ln]:
                    out += [f"bsstr {text} {pos} {n}", f"bsstr2 {text} {pos} {n}"]
            for n in list(range(0, ln + 1)) + [-1]:
                out.append(f"bscstr {text} 0 {n}")
    # strings longer than the bitset: every one of the min(n, size - pos) characters is checked
    for ln in (9, 10):
        for bad in range(0, ln + 1):
            chars = [48 + (i % 2) for i in range(ln)]
            if bad < ln:
                chars[bad] = 50
            text = " ".join(str(c) for c in [ln] + chars)
            for pos in (0, 1, ln):
                for n in (0, 8, 9, ln, -1):
                    out.append(f"bsstr {text} {pos} {n}")
    vals = [0]
    for m in (1, 9, 10, 99, 100, 999, 1000, 9999, 10**9 - 1, 10**9, 2**31 - 1, 2**31, 10**10 - 1, 10**10, 10**18, 2**63 - 1, 2**63):
        vals += [m, -m]
    for cap in (0, 1, 3, 10, 19, 20):
        for v in vals:
            if -2**31 <= v < 2**31:
                out.append(f"tostr {cap} int {v}")
            if -2**63 <= v < 2**63:
                out += [f"tostr {cap} long {v}", f"tostr {cap} llong {v}"]
            if 0 <= v < 2**32:
                out.append(f"tostr {cap} uint {v}")
            if 0 <= v:
                out += [f"tostr {cap} ulong {v}", f"tostr {cap} ul {v}"]
        for v in (2**32 - 1, 10**19 - 1, 10**19, 2**64 - 1):
            out += [f"tostr {cap} ulong {v}", f"tostr {cap} ul {v}"]
        out.append(f"tostr {cap} uint {2**32 - 1}")
    for e in (0, 1):
        out += [f"opt {e} arrow", f"opt {e} carrow", f"opt {e} refarrow", f"exparrow {e} arrow", f"exparrow {e} carrow"]
    for n in (0, 3):
        for o in ("front", "cfront", "back", "cback", "idx", "cidx"):
            out.append(f"arrfb {n} {o}")
    for ln in range(0, 7):
        for chars in itertools.product((123, 125, 97), repeat=ln):
            out.append("fmt " + " ".join(str(c) for c in (ln,) + chars))


STR_OPS = {  # op -> argument kinds: p = position, c = count, l = source length (<= 26), m = source length <= cap
    "idx": "p", "cidx": "p", "ins_fill": "pk", "ins_cstr": "pl", "ins_ptr": "pl", "ins_str": "pm", "ins_view": "pl",
    "ins_str_sub": "pmpc", "ins_view_sub": "plpc", "era": "pc", "rep": "pcm", "rep5": "pcmpc", "rep_ptr": "pcl", "rep_cstr": "pcl",
    "substr": "pc", "app_view_sub": "lpc", "asg_view_sub": "lpc", "app_str_sub": "mpc", "ctor_ptr": "c", "ctor_fill": "c",
    "asg_fill": "c", "asg_ptr": "c", "app_fill": "c", "resize": "c", "app_ptr": "c", "app_str": "m", "app_rng": "l", "pluseq_str": "m",
    "ctor_rng": "l", "ctor_rev": "l", "ctor_fwd": "l", "ctor_view": "l", "asg_rng": "l", "asg_rev": "l", "asg_fwd": "l", "asg_view": "l",
    "app_rev": "l", "app_fwd": "l", "app_ra": "l", "asg_ra": "l", "ctor_ra": "l", "plus_str": "m", "ctor_view_sub": "lpc", "ctor_str_sub": "mpc", "asg_str_sub": "mpc", "resize1": "c",
    "copy": "cp",
}


def gen_random(out, rng, n):
    """seeded random probes: arguments drawn from the boundary pool of the state (incl. the values at which pointer
    arithmetic on 2- and 4-byte characters wraps) and from all 64-bit values"""
    ops = sorted(STR_OPS)
    for _ in range(n):
        flavour, cap = rng.choice(FLAVOURS)
        k = rng.choice((0, 1, cap // 2, cap - 1, cap))
        pool = [0, 1, 2, k - 1, k, k + 1, cap - k, cap - k + 1, cap, cap + 1, 2**61, 2**62, 2**62 + k, 2**63, 2**63 + k + 1,
                2**64 - 1, 2**64 - 2, 2**64 - k, 2**64 - 1 - k, 2**32, 2**31, rng.getrandbits(64), rng.getrandbits(64), rng.getrandbits(16)]
        pool = [x for x in pool if 0 <= x < 2**64]
        o = rng.choice(ops)
        args = []
        for kind in STR_OPS[o]:
            if kind == "l":
                args.append(rng.choice((0, 1, 2, 3, cap, 26)))
            elif kind == "m":
                args.append(rng.choice((0, 1, 2, 3, cap)))
            elif kind == "k":
                args.append(rng.choice((0, 1, 2, 5)))
            else:
                args.append(rng.choice(pool))
        out.append(f"{flavour} {cap} {k} {o} " + " ".join(str(a) for a in args))
    for _ in range(n // 4):
        sz = rng.randrange(0, 5)
        a = rng.choice([0, 1, sz, sz + 1, 2**62, 2**63, 2**64 - 1, 2**64 - sz, 2**64 - 1 - sz, rng.getrandbits(64)])
        b = rng.choice([0, 1, sz, sz + 1, 2**62, 2**63, 2**64 - 1, 2**64 - sz, 2**64 - a if a else 0, rng.getrandbits(64)])
        a %= 2**64
        b %= 2**64
        o = rng.choice(("span idx", "span first", "span last", "span subspan", "sv idx", "sv rmp", "sv rms", "sv substr", "sv copy"))
        t, oo = o.split()
        out.append(f"{t} {sz} {oo} {a} {b}")


def gen(tier, rng):
    out = []
    gen_more(out)
    gen_random(out, rng, 4000 if tier == "quick" else 150000)
    # static_vector<int,4> with k elements
    for k in range(0, 5):
        sz = k
        room = 4 - k
        out += [f"vec {k} pb", f"vec {k} eb", f"vec {k} pop", f"vec {k} fr", f"vec {k} bk", f"vec {k} cfr", f"vec {k} cbk"]
        out += [f"vecnt {k} {o}" for o in ("pb", "eb", "pop", "fr", "bk", "cfr", "cbk")] + [f"vecnt {k} rsz {n}" for n in (0, 3, 4, 5, -1)]
        out += [f"vecnt {k} at {i}" for i in (0, k, -1)]
        for pos in [-2, -1] + list(range(0, sz + 3)):
            out += [f"vec {k} icr {pos}", f"vec {k} irv {pos}", f"vec {k} emp {pos}", f"vec {k} era {pos}"]
            for n in list(range(0, room + 3)) + BIG + [-sz, -sz - 1, 2**64 - sz, 2**64 - sz + room + 1]:
                out.append(f"vec {k} inn {pos} {n}")
            for n in [-2, -1] + list(range(0, room + 3)):
                out.append(f"vec {k} irg {pos} {n}")
            for n in range(0, room + 4):
                # every iterator category: forward-only (unsized), and the sized ones that are not pointers -
                # array::rbegin()/rend(), reverse_iterator<T const*>, a random access class; insert and move_insert
                out += [f"vec {k} irg_fwd {pos} {n}", f"vec {k} mins_fwd {pos} {n}"]
            for n in [-5, -2, -1] + list(range(0, room + 4)):
                # n < 0: last lies before first
                out += [f"vec {k} irg_rev {pos} {n}", f"vec {k} irg_rev2 {pos} {n}", f"vec {k} irg_ra {pos} {n}",
                        f"vec {k} mins_rev {pos} {n}", f"vec {k} mins_ra {pos} {n}", f"vec {k} mins {pos} {n}"]
            for l in range(pos - 2, sz + 3):
                out.append(f"vec {k} err {pos} {l}")
        for n in list(range(0, 7)) + BIG:
            out += [f"vec {k} rsz {n}", f"vec {k} rsv {n}", f"vec {k} asn {n}", f"vec {k} ctor_n {n}", f"vec {k} ctor_nv {n}"]
        for n in range(-2, 8):
            out += [f"vec {k} asr {n}", f"vec {k} ctor_rg {n}"]
            out += [f"vec {k} asr_rev {n}", f"vec {k} asr_rev2 {n}", f"vec {k} asr_ra {n}", f"vec {k} ctor_rg_rev {n}", f"vec {k} ctor_rg_ra {n}"]
            if n >= 0:
                out += [f"vec {k} asr_fwd {n}", f"vec {k} ctor_rg_fwd {n}"]
        out += [f"vec {k} ctor_carr 1", f"vec {k} ctor_carr 4"]
        for i in list(range(0, sz + 3)) + BIG:
            out += [f"vec {k} at {i}", f"vec {k} cat {i}"]
    for cap in (0, 4):
        for k in range(0, cap + 1):
            for o in ("upb", "ueb", "upbc", "pop", "fr", "bk", "cfr", "cbk", "tpb"):
                out.append(f"ivec {cap} {k} {o} 0")
            for i in list(range(0, k + 3)) + BIG:
                out += [f"ivec {cap} {k} at {i}", f"ivec {cap} {k} cat {i}"]
    for n in range(0, 5):
        out += [f"span {n} front 0 0", f"span {n} back 0 0", f"sv {n} front 0 0", f"sv {n} back 0 0", f"wsv {n} front 0 0", f"wsv {n} back 0 0"]
        args = list(range(0, n + 3)) + BIG + [2**64 - n, 2**64 - n - 1]
        for a in args:
            out += [f"span {n} idx {a} 0", f"span {n} first {a} 0", f"span {n} last {a} 0",
                    f"sv {n} idx {a} 0", f"sv {n} rmp {a} 0", f"sv {n} rms {a} 0",
                    f"wsv {n} idx {a} 0", f"wsv {n} rmp {a} 0", f"wsv {n} rms {a} 0"]
            for b in list(range(0, n + 3)) + [-1, -2, 2**64 - 1 - a if a >= 0 else 5, 2**63]:
                out += [f"span {n} subspan {a} {b}", f"sv {n} substr {a} {b}", f"sv {n} copy {b} {a}",
                        f"wsv {n} substr {a} {b}", f"wsv {n} copy {b} {a}", f"sv {n} cmp3 {a} {b}", f"wsv {n} cmp3 {a} {b}"]
    # compile-time forms first<Count>() / last<Count>() / subspan<Offset, Count>() on a span of dynamic extent, and the
    # run-time forms on spans of static extent 0 and 3
    for n in range(0, 5):
        for c in range(0, 7):
            out += [f"span {n} tfirst {c} 0", f"span {n} tlast {c} 0"]
        for off in range(0, 6):
            for c in (0, 1, 2, 3, 4, -1):
                out.append(f"span {n} tsub {off} {c}")
    for n in (0, 3):
        out += [f"sspan {n} front 0 0", f"sspan {n} back 0 0"]
        for a in list(range(0, n + 3)) + BIG + [2**64 - n, 2**64 - n - 1]:
            out += [f"sspan {n} idx {a} 0", f"sspan {n} first {a} 0", f"sspan {n} last {a} 0"]
            for b in list(range(0, n + 3)) + [-1, -2, 2**64 - 1 - a if a >= 0 else 5, 2**63]:
                out.append(f"sspan {n} subspan {a} {b}")
    for ext in (0, 3, -1):
        for count in list(range(0, 6)) + [8]:
            out += [f"spanctor {ext} ptr {count}", f"spanctor {ext} rng {count}", f"spanctor {ext} dyn {count}", f"spanctor {ext} dynl {count}"]
        for count in BIG:
            out += [f"spanctor {ext} ptr {count}", f"spanctor {ext} dyn {count}"]
    for e in (0, 1):
        for o in ("deref", "cderef", "rderef", "crderef", "ref"):
            out.append(f"opt {e} {o}")
        for o in ("deref", "cderef", "rderef", "crderef", "error", "cerror", "rerror", "crerror"):
            out.append(f"exp {e} {o}")
    for a in range(0, 3):
        for i in range(0, 3):
            out += [f"var {a} {o} {i}" for o in ("sub", "csub", "rsub", "crsub", "uget", "cuget", "ruget", "cruget")]
    for w in (8, 32, 64, 33):
        for x in (5, -128, 0):
            for y in (0, 1, -1):
                out.append(f"div_sat {w} {x} {y}")
    for d in [0, 1, 31, 32, 254, 255, 256, 1000, 2**32 - 1]:
        out += [f"day {d}", f"month {d}"]
    for w in (8, 16, 32, 64):
        for which in ("set", "set3", "reset", "flip", "test"):
            for pos in [0, 1, w - 1, w, w + 1, 2 * w, 255, 2**w - 1]:
                out.append(f"bit {which} {w} 5 {pos}")
    for n in (1, 10, 64, 65):
        for which in ("set", "reset", "flip", "idx", "cidx", "test", "uset", "ureset", "uflip", "utest", "bidx", "cbidx"):
            for pos in [0, n - 1, n, n + 1, 64, 65, 128] + BIG:
                out.append(f"bitset {n} {which} {pos}")
    for i in [0, 1, 2, 3, 4] + BIG:
        out += [f"arr {i}", f"carr {i}"]
    for layout in ("left", "right"):
        for r in [0, 1, 2, 3] + BIG:
            out.append(f"stride {layout} {r}")
    for which in ("strcpy", "strchr", "strchr_m", "memmove"):
        for dn in (0, 1):
            for sn in (0, 1):
                out.append(f"cstr {which} {dn} {sn}")
    # every numeric argument must be a size_t value or a negative number denoting its two's complement
    def in_range(c):
        for t in c.split()[1:]:
            try:
                v = int(t)
            except ValueError:
                continue
            if not (-2**63 <= v <= 2**64 - 1):
                return False
        return True
    out = [c for c in out if in_range(c)]
    # append / assign / constructor (str, pos, count) with pos > str.size(): the recorded defect region
    # KF-C05-string-substr-pos-unchecked, under an op token of its own (`strpos`) so that only these cases are excused
    def strpos(c):
        t = c.split()
        if t[0] in ("str", "wstr", "u16str") and len(t) >= 6 and t[3] in ("app_str_sub", "asg_str_sub", "ctor_str_sub", "ctor_str_pos"):
            ls, ps = int(t[4]), int(t[5]) % 2**64
            if ps > ls:
                return "strpos " + c
        return c
    return [strpos(c) for c in out]


def nontrivial(case, impl):
    return True


def normalise_sites(repo_include):
    """(relative file, normalised expression) for every TETL_PRECONDITION(_SAFE) use"""
    sites = []
    inc = Path(repo_include)
    for p in sorted(inc.rglob("*.hpp")):
        txt = p.read_text(errors="replace")
        for m in re.finditer(r"TETL_PRECONDITION(_SAFE)?\(", txt):
            if "#define" in txt[max(0, m.start() - 60):m.start()].split("\n")[-1]:
                continue
            depth = 0
            i = m.end() - 1
            j = i
            while j < len(txt):
                if txt[j] == "(":
                    depth += 1
                elif txt[j] == ")":
                    depth -= 1
                    if depth == 0:
                        break
                j += 1
            expr = re.sub(r"\s+", " ", txt[i + 1:j]).strip()
            sites.append([str(p.relative_to(inc)), ("SAFE:" if m.group(1) else "") + expr])
    return sites


def ct_checks(ctx, items):
    """compile-time probes (props/C05/ct_probes.py): every guarded call family as a constant expression, g++ and clang++, the four
    configurations of check.hpp, custom and default handler.  Expected verdict = the extracted model's, through the driver."""
    import hashlib
    import sys
    from vlib import engine
    here = Path(__file__).parent
    sys.path.insert(0, str(here))
    import ct_probes as ct
    drv = engine.build_driver(ID)
    work = engine.HBUILD / ID / "ct"
    work.mkdir(parents=True, exist_ok=True)
    vers = "".join(subprocess.run([c, "--version"], capture_output=True, text=True).stdout.split("\n")[0] for c in ct.COMPILERS)
    key = hashlib.sha256((engine.include_hash() + hashlib.sha256((here / "ct_probes.py").read_bytes()).hexdigest()
                          + Path(drv).name + vers + "v1").encode()).hexdigest()[:24]
    cache_path = work / "ct-cache.json"
    try:
        cache = json.loads(cache_path.read_text())
    except Exception:
        cache = {}
    if cache.get("key") != key:
        case_list = ct.cases()
        lines_in = [f"ct {cfg[0]} {cfg[1]} {cfg[2]} {c}" for cfg in ct.CONFIGS for c in case_list]
        _, lines, err = engine.run_bin(drv, lines_in)
        expect, spec, odd = {}, {}, []
        k = 0
        for ci, cfg in enumerate(ct.CONFIGS):
            for i, c in enumerate(case_list):
                m, sp = engine.split_legs(lines[k]) if k < len(lines) else ("missing", "na")
                expect[(ci, i)], spec[(cfg[0], cfg[1], cfg[2], c)] = m, sp
                if m.split(" ")[0] not in ("compiles", "ill-formed", "unchecked"):
                    odd.append(f"{lines_in[k]} -> {m}")
                elif sp != "na" and sp != m.split(" ")[0]:
                    odd.append(f"{lines_in[k]}: model {m} but spec {sp}")
                k += 1
        results, info, strays = ct.run(str(engine.REPO / "include"), work, expect, case_list)
        bad = []
        for r in results:
            if not ct.agrees(r["model"], r["observed"]):
                r["spec"] = spec[(r["cfg"][0], r["cfg"][1], r["cfg"][2], r["case"])]
                bad.append(r)
        fam = sorted({c.split()[0] + ((" " + c.split()[3]) if c.split()[0] == "str" else (" " + c.split()[2]) if c.split()[0] in ("vec", "span", "sspan", "sv", "wsv", "bitset", "bit") else "")
                      for c in case_list})
        cache = {"key": key, "bad": bad, "odd": odd[:10], "strays": strays[:10], "evaluations": len(results), "cases": len(case_list),
                 "families": fam, "compilers": info,
                 "by_verdict": {v: sum(1 for r in results if r["model"].split(" ")[0] == v) for v in ("compiles", "ill-formed", "unchecked")}}
        cache_path.write_text(json.dumps(cache))
    for o in cache["odd"][:3]:
        print(f"MACHINERY-WARNING property={ID}: compile-time probe with an unusable / inconsistent expectation: {o}")
    for (cxx, cfg, kind, text) in cache["strays"][:3]:
        items.append({"kind": "violation", "found_input": False,
                      "payload": {"property": ID, "kind": "compile-time probes: a diagnostic that belongs to no probe (a header no longer compiles in this configuration?)",
                                  "compiler": cxx, "config": cfg, "unit": kind, "diagnostic": text}})
    # property failures first (a violation accepted as a constant / a valid call rejected), simplest statement first
    def is_prop(r):
        return r["spec"] in ("compiles", "ill-formed") and ct.verdict(r["observed"]) != r["spec"]
    bad = sorted(cache["bad"], key=lambda r: (not is_prop(r), r["cfg"] != [1, 0, "cust"], len(r["body"]), r["cxx"], r["cfg"]))
    shown = set()
    for r in bad:
        k = (r["cxx"], is_prop(r))
        if k in shown or len(shown) >= 4:
            continue
        shown.add(k)
        c, s, h = r["cfg"]
        n_same = sum(1 for x in cache["bad"] if x["cxx"] == r["cxx"])
        items.append({"kind": "violation", "found_input": is_prop(r),
                      "payload": {"property": ID, "kind": "compile-time probe: a guarded call as a constant expression",
                                  "input": f"ct {c} {s} {h} {r['case']}", "compiler": r["cxx"], "flags": ct.config_flags(tuple(r["cfg"])),
                                  "statement": "constexpr auto p = [] { " + r["body"] + " }();",
                                  "impl": r["observed"], "model": r["model"], "spec": r["spec"], "diagnostic": r["diag"],
                                  "disagreeing_probes_this_compiler": n_same,
                                  "meaning": "compiles = accepted as a constant expression; ill-formed # <header> <check> = rejected because the evaluation reached "
                                             "etl::assert_handler from this TETL_PRECONDITION; ill-formed-other = rejected for another reason"}})
    ctx.evidence = dict(getattr(ctx, "evidence", {}), compile_time_probes={
        "evaluations": cache["evaluations"], "distinct_calls": cache["cases"], "families": cache["families"], "by_expected_verdict": cache["by_verdict"],
        "configurations": [list(c) for c in ct.CONFIGS], "header_groups_usable_per_compiler": cache["compilers"], "disagreements": len(cache["bad"])})
    items.append({"kind": "note", "text": f"compile-time probes: {cache['evaluations']} evaluations of {cache['cases']} calls as constant expressions "
                                          f"({len(cache['families'])} operation families; g++ and clang++; {len(ct.CONFIGS)} configurations), {len(cache['bad'])} disagreements"})


def extra_checks(ctx):
    """site inventory: a removed, added or edited TETL_PRECONDITION is a correspondence break by itself;
    compile-time probes: a violation inside a constant expression must be rejected by the check"""
    from vlib import engine
    items = []
    now = normalise_sites(engine.REPO / "include")
    table = json.loads((Path(__file__).parent / "sites.json").read_text())
    want = [tuple(x) for x in table["sites"]]
    have = [tuple(x) for x in now]
    from collections import Counter
    cw, ch = Counter(want), Counter(have)
    missing = list((cw - ch).elements())
    added = list((ch - cw).elements())
    ctx.evidence = {"precondition_sites_in_tree": len(have), "precondition_sites_in_table": len(want),
                    "sites_modelled": table.get("modelled_count"), "sites_inventoried_only": table.get("inventoried_only")}
    if missing or added:
        items.append({"kind": "violation", "found_input": False,
                      "payload": {"kind": "contract-check site inventory no longer matches props/C05/sites.json",
                                  "no_longer_checks": "site inventory (file, expression) of TETL_PRECONDITION",
                                  "removed_or_edited": missing[:20], "new_or_edited": added[:20]}})
    ct_checks(ctx, items)
    return items
