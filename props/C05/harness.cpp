// C05 harness: for each probe, does the user-replaceable assertion handler run, from which header,
// and is the object still bit-identical to its pre-call state at that moment?
// impl leg:  "ok"  |  "contract <unmodified 0/1> # <file-basename of the firing check>"
// reference leg (the documented precondition, evaluated here with plain wide arithmetic): "ok" | "contract 1"
#ifndef TETL_ENABLE_CUSTOM_ASSERT_HANDLER
#define TETL_ENABLE_CUSTOM_ASSERT_HANDLER 1
#endif
#include <csetjmp>
#include <cstdio>
#include <cstdlib>
#include <cstring>
#include <string>
#include <vector>

#include <etl/array.hpp>
#include <etl/bit.hpp>
#include <etl/bitset.hpp>
#include <etl/cassert.hpp>
#include <etl/chrono.hpp>
#include <etl/cstring.hpp>
#include <etl/expected.hpp>
#include <etl/inplace_vector.hpp>
#include <etl/mdspan.hpp>
#include <etl/numeric.hpp>
#include <etl/optional.hpp>
#include <etl/span.hpp>
#include <etl/string_view.hpp>
#include <etl/variant.hpp>
#include <etl/vector.hpp>

namespace probe {
inline std::jmp_buf jmp;
inline bool armed               = false;
inline void const* obj          = nullptr;
inline std::size_t obj_size     = 0;
inline unsigned char before[4096];
inline bool unmodified          = false;
inline std::string file;
} // namespace probe

namespace etl {
template <typename Assertion>
[[noreturn]] auto assert_handler(Assertion const& msg) -> void
{
    if (!probe::armed) { std::fprintf(stderr, "contract outside probe: %s:%d\n", msg.file, msg.line); std::_Exit(70); }
    // snapshot comparison happens HERE, i.e. at the moment the handler runs
    probe::unmodified = probe::obj == nullptr || std::memcmp(probe::obj, probe::before, probe::obj_size) == 0;
    std::string f = msg.file != nullptr ? msg.file : "?";
    auto slash  = f.find_last_of('/');
    probe::file = slash == std::string::npos ? f : f.substr(slash + 1);
    std::longjmp(probe::jmp, 1);
}
} // namespace etl

#define VERIF_COMMON_NO_HANDLER 1
#include "common.hpp"

using namespace vh;
using u64 = unsigned long long;

// run f with the handler armed, watching the bytes of `o`
template <typename T, typename F>
static void watch(Out& out, T const& o, F&& f)
{
    static_assert(sizeof(T) <= sizeof(probe::before));
    probe::obj      = &o;
    probe::obj_size = sizeof(T);
    std::memcpy(probe::before, &o, sizeof(T));
    probe::armed = true;
    if (setjmp(probe::jmp) == 0) {
        f();
        out.tok("ok");
    } else {
        out.tok("contract").b(probe::unmodified).tok("#").tok(probe::file);
    }
    probe::armed = false;
}
template <typename F>
static void watch_none(Out& out, F&& f)
{
    probe::obj = nullptr;
    probe::armed = true;
    if (setjmp(probe::jmp) == 0) { f(); out.tok("ok"); } else { out.tok("contract").b(true).tok("#").tok(probe::file); }
    probe::armed = false;
}
// the property: a violation makes the handler run with the object unmodified ("contract 1"), a valid call does not
static void doc(Out& ref, bool pre) { ref.tok(pre ? "ok" : "contract 1"); }

static volatile long long sink;

template <typename UInt>
static void bit_probe(std::string const& which, u64 word, u64 pos, Out& impl)
{
    auto w = static_cast<UInt>(word);
    auto p = static_cast<UInt>(pos);
    watch_none(impl, [&] {
        if (which == "set") { sink = etl::set_bit(w, p); }
        else if (which == "set3") { sink = etl::set_bit(w, p, true); }
        else if (which == "reset") { sink = etl::reset_bit(w, p); }
        else if (which == "flip") { sink = etl::flip_bit(w, p); }
        else { sink = etl::test_bit(w, p); }
    });
}

template <std::size_t N>
static void bitset_probe(std::string const& which, u64 pos, Out& impl)
{
    etl::bitset<N> b;
    b.set(0);
    watch(impl, b, [&] {
        if (which == "set") { b.set(pos); }
        else if (which == "reset") { b.reset(pos); }
        else if (which == "flip") { b.flip(pos); }
        else if (which == "idx") { sink = b[pos]; }
        else if (which == "cidx") { sink = static_cast<etl::bitset<N> const&>(b)[pos]; }
        else if (which == "test") { sink = b.test(pos); }
        else if (which == "uset") { etl::basic_bitset<N, unsigned char> bb; bb.unchecked_set(pos); }
        else if (which == "ureset") { etl::basic_bitset<N, unsigned char> bb; bb.unchecked_reset(pos); }
        else if (which == "uflip") { etl::basic_bitset<N, unsigned char> bb; bb.unchecked_flip(pos); }
        else if (which == "utest") { etl::basic_bitset<N, unsigned char> bb; sink = bb.unchecked_test(pos); }
        else { etl::basic_bitset<N, unsigned char> bb; sink = bb[pos]; }
    });
}

// ---- vector probes: initial content 1..k in a static_vector<int,4> / inplace_vector<int,4>
static void vec_probe(Toks& in, Out& impl, Out& ref)
{
    auto k  = in.num();
    auto op = in.str();
    std::vector<long long> a;
    std::vector<u64> ua;
    while (in.more()) { auto save = in.i; a.push_back(in.num()); in.i = save; ua.push_back(in.sz()); }
    auto A = [&](std::size_t i) { return i < a.size() ? a[i] : 0; };
    etl::static_vector<int, 4> v;
    for (int i = 1; i <= k; ++i) { v.push_back(i); }
    int src[8] = {7, 7, 7, 7, 7, 7, 7, 7};
    auto U     = [&](std::size_t i) { return i < ua.size() ? ua[i] : 0ULL; };
    u64 sz     = static_cast<u64>(k);
    u64 room   = 4 - sz;
    bool pre   = true;
    watch(impl, v, [&] {
        if (op == "pb") { v.push_back(9); }
        else if (op == "eb") { v.emplace_back(9); }
        else if (op == "pop") { v.pop_back(); }
        else if (op == "icr") { int c = 9; v.insert(v.begin() + A(0), c); }
        else if (op == "irv") { v.insert(v.begin() + A(0), 9); }
        else if (op == "emp") { v.emplace(v.begin() + A(0), 9); }
        else if (op == "inn") { int c = 9; v.insert(v.begin() + A(0), static_cast<std::size_t>(U(1)), c); }
        else if (op == "irg") { v.insert(v.begin() + A(0), src, src + A(1)); }
        else if (op == "era") { v.erase(v.begin() + A(0)); }
        else if (op == "err") { v.erase(v.begin() + A(0), v.begin() + A(1)); }
        else if (op == "rsz") { v.resize(static_cast<std::size_t>(U(0))); }
        else if (op == "rsv") { v.resize(static_cast<std::size_t>(U(0)), 9); }
        else if (op == "asn") { v.assign(static_cast<std::size_t>(U(0)), 9); }
        else if (op == "asr") { v.assign(src, src + A(0)); }
        else if (op == "at") { sink = v[static_cast<std::size_t>(U(0))]; }
        else if (op == "cat") { sink = static_cast<etl::static_vector<int, 4> const&>(v)[static_cast<std::size_t>(U(0))]; }
        else if (op == "fr") { sink = v.front(); }
        else if (op == "bk") { sink = v.back(); }
        else if (op == "ctor_n") { etl::static_vector<int, 4> w(static_cast<std::size_t>(U(0))); sink = static_cast<long long>(w.size()); }
        else if (op == "ctor_nv") { etl::static_vector<int, 4> w(static_cast<std::size_t>(U(0)), 3); sink = static_cast<long long>(w.size()); }
        else if (op == "ctor_rg") { etl::static_vector<int, 4> w(src, src + A(0)); sink = static_cast<long long>(w.size()); }
    });
    auto pos_ok = [&](long long p) { return p >= 0 && static_cast<u64>(p) <= sz; };
    if (op == "pb" || op == "eb") { pre = room >= 1; }
    else if (op == "pop" || op == "fr" || op == "bk") { pre = sz >= 1; }
    else if (op == "icr" || op == "irv" || op == "emp") { pre = pos_ok(A(0)) && room >= 1; }
    else if (op == "inn") { pre = pos_ok(A(0)) && U(1) <= room; }
    else if (op == "irg") { pre = pos_ok(A(0)) && A(1) >= 0 && static_cast<u64>(A(1)) <= room; }
    else if (op == "era") { pre = A(0) >= 0 && static_cast<u64>(A(0)) < sz; }
    else if (op == "err") { pre = A(0) >= 0 && A(0) <= A(1) && static_cast<u64>(A(1)) <= sz; }
    else if (op == "rsz" || op == "rsv" || op == "asn" || op == "ctor_n" || op == "ctor_nv") { pre = U(0) <= 4; }
    else if (op == "asr" || op == "ctor_rg") { pre = A(0) >= 0 && A(0) <= 4; }
    else if (op == "at" || op == "cat") { pre = U(0) < sz; }
    doc(ref, pre);
}

template <std::size_t N>
static void ivec_probe_n(long long k, std::string const& op, u64 arg, Out& impl)
{
    etl::inplace_vector<int, N> v{};
    for (int i = 1; i <= k; ++i) { (void)v.try_push_back(i); }
    watch(impl, v, [&] {
        if (op == "upb") { v.unchecked_push_back(9); }
        else if (op == "ueb") { v.unchecked_emplace_back(9); }
        else if (op == "pop") { v.pop_back(); }
        else if (op == "at") { sink = v[static_cast<std::size_t>(arg)]; }
        else if (op == "cat") { sink = static_cast<etl::inplace_vector<int, N> const&>(v)[static_cast<std::size_t>(arg)]; }
        else if (op == "fr") { sink = v.front(); }
        else if (op == "bk") { sink = v.back(); }
        else if (op == "tpb") { sink = v.try_push_back(9) != nullptr; }
    });
}

bool vh::run_case(std::string const& op, Toks& in, Out& impl, Out& ref)
{
    if (op == "vec") { vec_probe(in, impl, ref); return true; }
    if (op == "ivec") {
        auto cap = in.num(); auto k = in.num(); auto o = in.str(); auto arg = in.sz();
        if (cap == 0) { ivec_probe_n<0>(0, o, arg, impl); k = 0; } else { ivec_probe_n<4>(k, o, arg, impl); }
        u64 sz = static_cast<u64>(k); u64 c = static_cast<u64>(cap);
        bool pre = true;
        if (o == "upb" || o == "ueb") { pre = sz < c; }
        else if (o == "pop" || o == "fr" || o == "bk") { pre = sz >= 1; }
        else if (o == "at" || o == "cat") { pre = arg < sz; }
        doc(ref, pre);
        return true;
    }
    if (op == "span") {
        auto n = in.num(); auto o = in.str(); auto a = in.sz(); auto b = in.sz();
        int data[8] = {10, 11, 12, 13, 14, 15, 16, 17};
        etl::span<int> s(data, static_cast<std::size_t>(n));
        u64 sz = static_cast<u64>(n);
        watch(impl, s, [&] {
            if (o == "front") { sink = s.front(); }
            else if (o == "back") { sink = s.back(); }
            else if (o == "idx") { sink = s[static_cast<std::size_t>(a)]; }
            else if (o == "first") { sink = static_cast<long long>(s.first(static_cast<std::size_t>(a)).size()); }
            else if (o == "last") { sink = static_cast<long long>(s.last(static_cast<std::size_t>(a)).size()); }
            else { sink = static_cast<long long>(s.subspan(static_cast<std::size_t>(a), static_cast<std::size_t>(b)).size()); }
        });
        bool pre = true;
        if (o == "front" || o == "back") { pre = sz > 0; }
        else if (o == "idx") { pre = a < sz; }
        else if (o == "first" || o == "last") { pre = a <= sz; }
        else { pre = a <= sz && (b == ~0ULL || static_cast<unsigned __int128>(a) + b <= sz); }
        doc(ref, pre);
        return true;
    }
    if (op == "sv") {
        auto n = in.num(); auto o = in.str(); auto a = in.sz(); auto b = in.sz();
        char const* text = "abcdefgh";
        etl::string_view s(text, static_cast<std::size_t>(n));
        u64 sz = static_cast<u64>(n);
        char dest[16];
        watch(impl, s, [&] {
            if (o == "idx") { sink = s[static_cast<std::size_t>(a)]; }
            else if (o == "front") { sink = s.front(); }
            else if (o == "back") { sink = s.back(); }
            else if (o == "rmp") { s.remove_prefix(static_cast<std::size_t>(a)); }
            else if (o == "rms") { s.remove_suffix(static_cast<std::size_t>(a)); }
            else if (o == "copy") { sink = static_cast<long long>(s.copy(dest, static_cast<std::size_t>(a > 8 ? 8 : a), static_cast<std::size_t>(b))); }
            else { sink = static_cast<long long>(s.substr(static_cast<std::size_t>(a), static_cast<std::size_t>(b)).size()); }
        });
        bool pre = true;
        if (o == "idx") { pre = a < sz; }
        else if (o == "front" || o == "back") { pre = sz > 0; }
        else if (o == "rmp" || o == "rms") { pre = a <= sz; }
        else if (o == "copy") { pre = b <= sz; }
        else { pre = a <= sz; }
        doc(ref, pre);
        return true;
    }
    if (op == "opt") {
        auto engaged = in.num() != 0; auto o = in.str();
        etl::optional<int> x; if (engaged) { x = 5; }
        int target = 3;
        etl::optional<int&> r; if (engaged) { r = etl::optional<int&>(target); }
        if (o == "ref") { watch(impl, r, [&] { sink = *r; }); }
        else if (o == "cderef") { watch(impl, x, [&] { sink = *static_cast<etl::optional<int> const&>(x); }); }
        else if (o == "rderef") { watch(impl, x, [&] { sink = *etl::move(x); }); }
        else { watch(impl, x, [&] { sink = *x; }); }
        doc(ref, engaged);
        return true;
    }
    if (op == "exp") {
        auto hasv = in.num() != 0; auto o = in.str();
        etl::expected<int, long> e = hasv ? etl::expected<int, long>(etl::in_place, 4) : etl::expected<int, long>(etl::unexpect, 7L);
        if (o == "deref") { watch(impl, e, [&] { sink = *e; }); doc(ref, hasv); }
        else if (o == "cderef") { watch(impl, e, [&] { sink = *static_cast<etl::expected<int, long> const&>(e); }); doc(ref, hasv); }
        else if (o == "error") { watch(impl, e, [&] { sink = e.error(); }); doc(ref, !hasv); }
        else { watch(impl, e, [&] { sink = static_cast<etl::expected<int, long> const&>(e).error(); }); doc(ref, !hasv); }
        return true;
    }
    if (op == "var") {
        auto active = in.num(); auto o = in.str(); auto i = in.num();
        etl::variant<int, char, long> v;
        if (active == 1) { v = 'c'; } else if (active == 2) { v = 5L; }
        watch(impl, v, [&] {
            if (o == "sub") {
                if (i == 0) { sink = v[etl::index_v<0>]; } else if (i == 1) { sink = v[etl::index_v<1>]; } else { sink = v[etl::index_v<2>]; }
            } else {
                if (i == 0) { sink = etl::unchecked_get<0>(v); } else if (i == 1) { sink = etl::unchecked_get<1>(v); } else { sink = etl::unchecked_get<2>(v); }
            }
        });
        doc(ref, i == active);
        return true;
    }
    if (op == "div_sat") {
        auto w = in.num(); auto x = in.num(); auto y = in.num();
        watch_none(impl, [&] {
            if (w == 8) { sink = etl::div_sat(static_cast<signed char>(x), static_cast<signed char>(y)); }
            else if (w == 32) { sink = etl::div_sat(static_cast<int>(x), static_cast<int>(y)); }
            else if (w == 64) { sink = etl::div_sat(static_cast<long long>(x), static_cast<long long>(y)); }
            else { sink = static_cast<long long>(etl::div_sat(static_cast<unsigned>(x), static_cast<unsigned>(y))); }
        });
        doc(ref, y != 0);
        return true;
    }
    if (op == "day" || op == "month") {
        auto d = static_cast<unsigned>(in.num());
        watch_none(impl, [&] {
            if (op == "day") { sink = static_cast<unsigned>(etl::chrono::day{d}); } else { sink = static_cast<unsigned>(etl::chrono::month{d}); }
        });
        doc(ref, d < 255U);
        return true;
    }
    if (op == "bit") {
        auto which = in.str(); auto w = in.num(); auto word = in.sz(); auto pos = in.sz();
        if (w == 8) { bit_probe<unsigned char>(which, word, pos, impl); }
        else if (w == 16) { bit_probe<unsigned short>(which, word, pos, impl); }
        else if (w == 32) { bit_probe<unsigned>(which, word, pos, impl); }
        else { bit_probe<u64>(which, word, pos, impl); }
        u64 mask = w == 64 ? ~0ULL : ((1ULL << w) - 1);
        doc(ref, (pos & mask) < static_cast<u64>(w));
        return true;
    }
    if (op == "bitset") {
        auto n = in.num(); auto which = in.str(); auto pos = in.sz();
        if (n == 1) { bitset_probe<1>(which, pos, impl); }
        else if (n == 10) { bitset_probe<10>(which, pos, impl); }
        else if (n == 64) { bitset_probe<64>(which, pos, impl); }
        else { bitset_probe<65>(which, pos, impl); n = 65; }
        doc(ref, pos < static_cast<u64>(n));
        return true;
    }
    if (op == "arr") {
        auto i = in.sz();
        // the array sits inside a larger object so that an unchecked out-of-range access stays inside memory we own
        struct Holder { etl::array<int, 3> a{1, 2, 3}; int pad[8]{}; } h;
        if (i < 8) { watch(impl, h.a, [&] { sink = h.a[static_cast<std::size_t>(i)]; }); }
        else {
#if defined(TETL_ENABLE_CONTRACT_CHECKS_SAFE)
            watch(impl, h.a, [&] { sink = h.a[static_cast<std::size_t>(i)]; });
#else
            impl.tok("ok");   // not executed: without the SAFE check this would be a wild read; the guard is absent in this build mode
#endif
        }
        doc(ref, i < 3);
        return true;
    }
    if (op == "stride") {
        auto layout = in.str(); auto r = static_cast<std::size_t>(in.num());
        using ext = etl::extents<int, 2, 3>;
        watch_none(impl, [&] {
            if (layout == "left") { etl::layout_left::mapping<ext> m{}; sink = m.stride(r); }
            else if (layout == "right") { etl::layout_right::mapping<ext> m{}; sink = m.stride(r); }
            else { sink = 0; }
        });
        doc(ref, r < 2);
        return true;
    }
    if (op == "cstr") {
        auto which = in.str(); auto dnull = in.num() != 0; auto snull = in.num() != 0;
        char dbuf[8] = "xy"; char sbuf[8] = "ab";
        char* d = dnull ? nullptr : dbuf; char* s = snull ? nullptr : sbuf;
        watch_none(impl, [&] {
            if (which == "strcpy") { sink = etl::strcpy(d, s) != nullptr; }
            else if (which == "strchr") { sink = etl::strchr(static_cast<char const*>(s), 'a') != nullptr; }
            else { sink = etl::memmove(d, s, 2) != nullptr; }
        });
        doc(ref, which == "strchr" ? !snull : (!dnull && !snull));
        return true;
    }
    return false;
}

VERIF_MAIN()
